#!/bin/bash
# usage: dev/trymut.sh <patch> <check id> [more ids]   -- apply a seeded change to /repo, run quick checks, revert
patch=$1; shift
cd /repo && git status --short | grep -q . && { echo "/repo dirty"; exit 9; }
git apply "$patch" 2>/dev/null || git apply --3way "$patch" 2>/dev/null || { echo "patch does not apply"; git reset -q --hard HEAD; exit 8; }
git reset -q
for id in "$@"; do
  (cd /verif && timeout 1500 /venv/bin/python -m harness.check $id 2>&1 | grep -E "VIOLATION|KNOWN|\[$id\]|MACHINERY|Error" | head -6)
done
cd /repo && git reset -q --hard HEAD && git status --short | head -3
