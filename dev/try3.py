import random, sys, json, collections
from harness.absgrammar import *
from harness.pegcheck import *
from harness.impl import run_both_case
n = int(sys.argv[1]); seed=int(sys.argv[2])
rnd = random.Random(seed)
gen = Gen(rnd, full=True)
jobs = Jobs(); cases=[]
texts = all_texts(['a','b',' '], 3) + [list(t) for t in ['a+b','a + b','aab','abab','a b a','ba+a']]
for i in range(n):
    g = gen.grammar(2)
    jobs.add(g, make_cfg(chars_of(g, texts)), texts)
    cases.append(default_case(to_ebnf(g), texts))
r, spec = run_oracle(jobs)
impl = run_impl(cases, fn=run_both_case)
seen=set()
for j,(c,im) in enumerate(zip(cases,impl),1):
    if im['gen']['compile']['k']!='ok': print('GENCOMPILE',c['ebnf'],im['gen']['compile']); continue
    for t,(s,ir,gr) in enumerate(zip(spec[j], im['res'], im['gen']['res'])):
        so=spec_outcome(s)
        if so['unspec'] and 'all' not in sys.argv: continue
        if ir['plain']!=gr['plain'] and c['ebnf'] not in seen:
            seen.add(c['ebnf'])
            print(c['ebnf'].strip().replace('\n',' ; '),'|',repr(c['texts'][t]),'| model',ir['plain'],'| gen',gr['plain'], '| unspec' if so['unspec'] else '')
