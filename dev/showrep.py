import json,sys,glob
for f in sorted(glob.glob(f'/verif/replay/{sys.argv[1]}/*.json')):
    d=json.load(open(f)); i=d['inputs']
    print(d.get('why'),'|',i.get('label'),'|',i.get('grammar','').strip().replace('\n',' ; '),'|',repr(i.get('text')),i.get('settings'),'| spec',d['expected'].get('k') if isinstance(d['expected'],dict) else d['expected'],d['expected'].get('v') if isinstance(d['expected'],dict) else '',d['expected'].get('pos') if isinstance(d['expected'],dict) else '','| impl',d['observed'])
