from harness import tlc
from harness.layers import run_layers_case, ABSENT
import json, collections
r = tlc.run_tlc('ConfigLayers', workers=4)
print(r.distinct, len(r.res))
bad = collections.Counter()
for key, v in sorted(r.res.items()):
    s, c, d, p = key.split('/')
    for be in ('model', 'generated', 'parse'):
        o = run_layers_case({'setting': s, 'c': c, 'd': d, 'p': p, 'backend': be})
        if 'skip' in o: continue
        if o['eff'] != v['eff']:
            bad[(s, be, 'c' if c != ABSENT else '', 'd' if d != ABSENT else '', 'p' if p != ABSENT else '')] += 1
            if bad[(s,be,'c' if c != ABSENT else '', 'd' if d != ABSENT else '', 'p' if p != ABSENT else '')] == 1: print(key, be, 'spec', v['eff'], 'impl', o)
for k, n in sorted(bad.items()): print(k, n)
