"""gen-flavoured PegMachine vs real generated parsers on the C02 universe (value included, all shapes)."""
import sys, json, random
sys.path.insert(0, '/verif')
from harness.common import Check
from harness.drivers import c02
from harness.absgrammar import to_ebnf, chars_of, make_cfg, all_texts
from harness.pegcheck import Jobs, default_case, run_impl, run_machine, machine_vs_impl, with_marks
from harness.impl import run_generated_case
seed = int(sys.argv[1]) if len(sys.argv) > 1 else 0
gs = c02.universe('quick', seed)
rnd = random.Random(seed)
rnd.shuffle(gs)
gs = gs[:int(sys.argv[2]) if len(sys.argv) > 2 else 300]
texts = [t for t in all_texts(['a', 'b', ' '], 3)][:40]
marked = with_marks([g for _k, g in gs])
jobs, cases = Jobs(), []
for (kind, g0), g in zip(gs, marked):
    tx = all_texts(['a', 'b', 'c'], 3) if kind == 'cut' else texts
    kw = {'nameguard': False} if kind == 'cut' else {}
    cfg = make_cfg(chars_of(g, tx), **kw)
    if g.get('keywords'):
        cfg['keywords'] = g['keywords']
    cfg.update({'backend': 'gen', 'maxmiss': 0, 'prune': True, 'memoize': True})
    jobs.add(g, cfg, tx)
    cases.append(default_case(to_ebnf(g0), tx, settings=kw, wrap=False, reuse=False))
r, mach = run_machine(jobs)
print('tlc', r.distinct, r.violated)
impl = run_impl(cases, fn=run_generated_case, chunk=4)
bad = 0; n = 0
for j, (c, im) in enumerate(zip(cases, impl), 1):
    if im['compile']['k'] != 'ok':
        print('compile', c['ebnf'], im['compile']); continue
    for t, ir in enumerate(im['res'], 1):
        n += 1
        why = machine_vs_impl(mach[j][t], ir['plain'])
        if why:
            bad += 1
            if bad <= 12:
                print(repr(c['ebnf']), repr(''.join(c['texts'][t - 1])), why)
print('cases', n, 'mismatches', bad)
