import sys, json
sys.path.insert(0, '/verif')
from harness.common import Check
from harness.suitetraces import record_suite
from harness.pegcheck import validate_records
ck = Check('C01', 'quick')
recs, skips = record_suite(sys.argv[1:] or ['tests/grammar'])
print(len(recs), 'records', sum(len(r['ev']) for r in recs), 'events;', dict(skips))
n = validate_records(ck, recs, label='suite')
print('accepted', n, 'violations', len(ck.violations), ck.notes.get('corruptions_rejected'), ck.notes.get('corruptions_not_rejected'))
