#!/venv/bin/python
"""usage: passing.py <worktree> <outfile>  -- run the repository's test-suite in <worktree> (the pinned command of
/root/.vp/BASELINE.json, against that tree) and write the ids of the passing tests, one per line, in the pinned id format."""
import os, subprocess, sys, tempfile
import xml.etree.ElementTree as ET


def main():
    wt, out = sys.argv[1], sys.argv[2]
    fd, xml = tempfile.mkstemp(suffix='.xml', dir='/tmp')
    os.close(fd)
    env = dict(os.environ, PYTHONPATH=wt, PYTHONHASHSEED='0')
    env.pop('TATSU_VERIF', None)
    subprocess.run(f'cd {wt} && /venv/bin/python -m pytest -q -p no:cacheprovider --timeout=900 --continue-on-collection-errors '
                   f'-x --maxfail=100000 --junitxml={xml} >/dev/null 2>&1', shell=True, env=env)
    ok = []
    for tc in ET.parse(xml).getroot().iter('testcase'):
        if not any(ch.tag in ('failure', 'error', 'skipped') for ch in tc):
            ok.append(f"{tc.get('classname')}::{tc.get('name')}")
    os.unlink(xml)
    open(out, 'w').write('\n'.join(sorted(ok)) + '\n')
    print(len(ok), 'passing')


main()
