#!/venv/bin/python
"""Which checks catch which seeded changes: for every /verif/seeded/<name>/ make a scratch worktree of /repo HEAD under /tmp/mm, apply
patch.diff, run the quick check of the property it breaks against THAT tree (PYTHONPATH=<worktree>, outputs under /tmp/mm/out) and
record the result in /verif/seeded/<name>/detection.json.  /repo, /verif/evidence and /verif/replay are not touched.
usage: dev/mutmatrix.py [names...]   (default: all)"""
import concurrent.futures as cf, json, os, re, shutil, subprocess, sys, time

MM = __import__('os').environ.get('MM_DIR', '/tmp/mm')


def sh(cmd, **kw):
    return subprocess.run(cmd, shell=True, text=True, stdout=subprocess.PIPE, stderr=subprocess.STDOUT, **kw)


def one(name):
    d = f'/verif/seeded/{name}'
    meta = json.load(open(f'{d}/meta.json'))
    prop = meta.get('breaks_property') or name.split('-')[0]
    wt, out = f'{MM}/{name}', f'{MM}/out/{name}'
    sh(f'git -C /repo worktree remove --force {wt}')
    shutil.rmtree(out, ignore_errors=True)
    os.makedirs(out, exist_ok=True)
    r = sh(f'git -C /repo worktree add --detach {wt} HEAD')
    res = {'name': name, 'property': prop, 'repo_head': sh('git -C /repo rev-parse --short HEAD').stdout.strip(),
           'verif_head': sh('git -C /verif rev-parse --short HEAD').stdout.strip()}
    try:
        a = sh(f'git -C {wt} apply {d}/patch.diff')
        if a.returncode:
            res['error'] = 'patch does not apply: ' + a.stdout[-200:]
            return res
        t0 = time.time()
        env = dict(os.environ, PYTHONPATH=wt, VERIF_OUT=out, VERIF_SEED=os.environ.get('VERIF_SEED', '1'), TATSU_VERIF='1')
        c = sh(f'cd /verif && timeout 2400 /venv/bin/python -m harness.check {prop} --tier quick', env=env)
        res['rc'] = c.returncode
        res['wall_s'] = round(time.time() - t0, 1)
        viol = re.findall(r'^VIOLATION property=(\S+) replay=(\S+)', c.stdout, re.M)
        res['violations'] = len(viol)
        res['detected'] = c.returncode == 1 and len(viol) > 0
        res['tail'] = c.stdout[-600:]
        if viol:
            try:
                rp = json.load(open(viol[0][1]))
                res['first_replay'] = {k: rp.get(k) for k in ('kind', 'inputs', 'expected', 'observed', 'why', 'spec')}
            except Exception as e:  # noqa: BLE001
                res['first_replay'] = str(e)
    finally:
        sh(f'git -C /repo worktree remove --force {wt}')
        shutil.rmtree(out, ignore_errors=True)
    json.dump(res, open(f'{d}/detection.json', 'w'), indent=1, default=str)
    return res


def main():
    names = sys.argv[1:] or sorted(os.listdir('/verif/seeded'))
    os.makedirs(MM, exist_ok=True)
    with cf.ThreadPoolExecutor(int(os.environ.get('MM_PAR', '3'))) as ex:
        for r in ex.map(one, names):
            print(json.dumps({k: r.get(k) for k in ('name', 'property', 'rc', 'violations', 'detected', 'wall_s', 'error')}), flush=True)


main()
