import random, sys, json, collections
from harness.absgrammar import *
from harness.pegcheck import *
from harness import tlc
n = int(sys.argv[1]); seed=int(sys.argv[2])
rnd = random.Random(seed)
gen = Gen(rnd, full=('full' in sys.argv), cuts=True)
jobs = Jobs(); cases=[]
texts = all_texts(['a','b',' '], 3) + [list(t) for t in ['a+b','abab','a b a','ba+a', 'b+b+b']]
for i in range(n):
    g = gen.grammar(3)
    cfg = make_cfg(chars_of(g, texts)); cfg['maxmiss']=1
    jobs.add(g, cfg, texts)
    cases.append(default_case(to_ebnf(g), texts, wrap=False))
import os, shutil, time
d = tlc.scratch_dir('mach'); p=os.path.join(d,'c.json'); jobs.dump(p)
try:
    r = tlc.run_tlc('PegMachineMC', env={'VERIF_CASES': p}, timeout=1800)
finally:
    shutil.rmtree(d, ignore_errors=True)
print('tlc', round(r.wall,1), r.generated, r.distinct, r.violated)
if r.violated:
    print('\n'.join(r.trace[:80]))
    sys.exit()
impl = run_impl(cases)
bad=collections.Counter(); shown=0; tot=0
for key, v in r.res.items():
    j,t = map(int, key.split('.'))
    c = cases[j-1]; ir = impl[j-1]['res'][t-1]['plain']
    m = v['r']; tot+=1
    mv = unval(m['v']) if m['k']=='ok' else None
    ren = lambda x: ({('@' if k=='__vallue__' else k): ren(v) for k,v in x.items()} if isinstance(x, dict) else [ren(v) for v in x] if isinstance(x, list) else x)
    if ir['k']=='ok': ir = dict(ir, v=ren(ir['v']))
    ok = (m['k']=='ok') == (ir['k']=='ok') and (m['k']!='ok' or mv == ir['v'])
    if not ok:
        bad['mismatch']+=1
        if shown < 10:
            shown+=1; print('---', c['ebnf'].strip(), repr(c['texts'][t-1])); print(' mach', m['k'], mv); print(' impl', ir)
print('total', tot, dict(bad), 'expected', jobs.ncases())
