import os, sys
sys.path.insert(0, '/verif')
from harness import tlc, pegcheck
from harness.drivers import c02
def patched(jobs, timeout=3000, cfgname='PegMachineMC'):
    os.makedirs('/tmp/machdbg', exist_ok=True)
    jobs.dump('/tmp/machdbg/cases.json')
    r = tlc.run_tlc('PegMachineMC', cfg=cfgname, env={'VERIF_CASES': '/tmp/machdbg/cases.json'}, timeout=timeout)
    open('/tmp/machdbg/out.txt', 'w').write(r.stdout)
    print('violated', r.violated)
    os._exit(0)
pegcheck.run_machine = patched
c02.run('thorough')
