"""Reproduce the C04 machine part for a seed and leave the jobs file + TLC output in /tmp/machdbg."""
import os, sys
sys.path.insert(0, '/verif')
from harness import tlc, pegcheck
from harness.common import Check
from harness.drivers import c04
def patched(jobs, timeout=3000, cfgname='PegMachineMC'):
    os.makedirs('/tmp/machdbg', exist_ok=True)
    jobs.dump('/tmp/machdbg/cases.json')
    r = tlc.run_tlc('PegMachineMC', cfg=cfgname, env={'VERIF_CASES': '/tmp/machdbg/cases.json'}, timeout=timeout)
    open('/tmp/machdbg/out.txt', 'w').write(r.stdout)
    print('violated', r.violated)
    os._exit(0)
pegcheck.run_machine = patched
ck = Check('C04', 'quick')
items = c04.universe('quick', ck.seed)
c04.machine_part(ck, items, 'quick')
