#!/bin/bash
# usage: dev/soak.sh "<seeds>" <ids...>   -- run quick checks under several seeds; print only alarms
seeds=$1; shift
for sd in $seeds; do
  for id in "$@"; do
    out=$(VERIF_SEED=$sd timeout 1500 /venv/bin/python -m harness.check $id 2>&1)
    rc=$?
    echo "seed=$sd $id rc=$rc $(echo "$out" | grep -E "^\[$id\]" | tail -1)"
    if [ $rc -ne 0 ]; then echo "$out" | grep -E "VIOLATION|MACHINERY|Error" | head -5; mkdir -p soakrep/$sd; cp -r replay/$id soakrep/$sd/ 2>/dev/null; fi
  done
done
