import random, sys, json, os, shutil, time
from harness.absgrammar import *
from harness.pegcheck import *
from harness.recorder import record_case
from harness import tlc
n = int(sys.argv[1]); seed=int(sys.argv[2])
rnd = random.Random(seed)
gen = Gen(rnd, full=('full' in sys.argv), cuts=True)
texts = [''.join(t) for t in all_texts(['a','b',' '], 3)] + ['a+b','abab','a b a','ba+a', 'b+b+b']
cases=[]
for i in range(n):
    g = gen.grammar(3)
    cases.append({'ebnf': to_ebnf(g), 'g': g, 'cfg': make_cfg(chars_of(g, [list(t) for t in texts])), 'texts': texts})
t0=time.time()
recs = [r for ch in pmap(record_case, cases, procs=16, chunk=4, recycle=100) for r in ch]
errs = [r for r in recs if 'error' in r]; recs = [r for r in recs if 'error' not in r]
print('recorded', len(recs), 'errors', len(errs), 'events', sum(len(r['ev']) for r in recs), round(time.time()-t0,1))
d = tlc.scratch_dir('tr'); p = os.path.join(d, 't.json'); json.dump(recs, open(p,'w'))
try:
    r = tlc.run_tlc('PegTrace', env={'VERIF_TRACES': p}, workers=1, timeout=1800)
finally:
    shutil.rmtree(d, ignore_errors=True)
acc = r.res.get('accepted')
print('tlc', round(r.wall,1), r.distinct, 'accepted', len(acc['accepted']) if acc else None, 'of', len(recs))
if acc:
    rej = sorted(set(range(1, len(recs)+1)) - set(acc['accepted']))
    for i in rej[:6]:
        t = recs[i-1]; reached = acc['reached'][i-1]
        print('--- rejected', i, to_ebnf(t['g']).strip().replace('\n',' ; '), repr(''.join(t['inp'])), 'reached', reached, 'of', len(t['ev']))
        print('   next events', t['ev'][max(0,reached-2):reached+1])
else:
    print(r.stdout[-3000:])
