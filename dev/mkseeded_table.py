#!/usr/bin/env python3
"""Regenerates the table of section 13 of DESIGN.md (between the markers) from seeded/*/meta.json and detection.json."""
import glob, json, os, re
rows = []
for d in sorted(glob.glob('/verif/seeded/*')):
    name = os.path.basename(d)
    try:
        meta = json.load(open(f'{d}/meta.json'))
    except Exception:
        continue
    det = json.load(open(f'{d}/detection.json')) if os.path.exists(f'{d}/detection.json') else {}
    summ = re.sub(r'\s+', ' ', meta.get('summary', ''))
    summ = summ[:230] + ('…' if len(summ) > 230 else '')
    files = ', '.join(os.path.basename(f) for f in meta.get('files', []))[:60]
    if det:
        fr = det.get('first_replay') or {}
        how = (fr.get('spec') or fr.get('why') or '') if isinstance(fr, dict) else ''
        verdict = f"**caught** by {det['property']} ({det.get('violations', '?')} violation(s); first: {fr.get('kind', '?') if isinstance(fr, dict) else '?'}{' – ' + str(how)[:70] if how else ''})" \
            if det.get('detected') else f"**MISSED** by {det.get('property')} (rc {det.get('rc')})"
    else:
        verdict = 'not run yet'
    rows.append(f"| {name} | {files} | {summ.replace('|', '/')} | {verdict.replace('|', '/')} |")
table = '| change | file(s) | what it does | detection (quick check of the property it breaks, run against the changed tree) |\n|---|---|---|---|\n' + '\n'.join(rows)
p = '/verif/DESIGN.md'
s = open(p).read()
a, b = '<!-- SEEDED-TABLE-BEGIN -->', '<!-- SEEDED-TABLE-END -->'
if a in s:
    s = s[:s.index(a) + len(a)] + '\n' + table + '\n' + s[s.index(b):]
else:
    s = s.rstrip('\n') + '\n\n' + a + '\n' + table + '\n' + b + '\n'
open(p, 'w').write(s)
print(len(rows), 'rows')
