"""Regenerates /verif/MANIFEST.json from the table below (dev tool; MANIFEST.json is the committed artefact)."""
import json
props = [json.loads(l)['id'] for l in open('/verif/properties.jsonl')]
MC = 'model_checking'
C = {}
def add(pid, text, note, technique, ref, level=MC, engine='tlc+replay'):
    C[pid] = {"property_id": pid, "quick_cmd": f"/venv/bin/python -m harness.check {pid} --tier quick",
              "thorough_cmd": f"/venv/bin/python -m harness.check {pid} --tier thorough",
              "evidence_file": f"/verif/evidence/{pid}.json", "replay_cmd_template": "/venv/bin/python -m harness.replay {path}",
              "engine": engine, "level_claimed": {"category": level, "text": text, "design_ref": ref},
              "level_note": note, "technique": technique}

add('C01', "TLC evaluates the TLA+ documented-semantics operator PegSem!Parse on every (grammar, text) of an exhaustive small universe "
    "(all expressions with <=2 operator nodes over 9 leaves) plus seeded random core-language grammars and the constructs the documentation "
    "defines by expansion (rule includes, based rules, @override) and a slice of the cut-placement universe of C05 x all texts up to a length bound; "
    "each expected outcome (accept/reject, end offset, AST) is replayed into the real compiled model. Exhaustive within the stated bounds, "
    "so a change to AST assembly, choice order, repetition, lookahead or whitespace placement that alters any case of the universe is reported. "
    "Code->spec: executions of the real engine recorded through the Tracer seam (enter/ok/fail/cut/match events) are validated by TLC against "
    "spec/PegTrace.tla (the implementation-shaped machine PegMachine); corrupted copies of the traces must be rejected in the same run. The parses "
    "the repository's own tests perform with the model interpreter (arbitrary real grammars, with and without semantics objects) are recorded by a "
    "pytest plugin and validated the same way (regexes and whitespace through oracle tables, actions through recorded act events).",
    "Trusted: TLC, Python re for catalogue patterns, the projection harness/absgrammar.py (to_ebnf/norm). Shapes the documents leave open "
    "(spec/UNSPECIFIED.md, predicate PegGrammar!Unspecified) are checked for accept/reject and end position only.",
    "TLA+ spec PegSem evaluated by TLC (exhaustive small universe + seeded random) with spec->code replay into tatsu.compile(...).parse; recorded engine traces validated against PegTrace/PegMachine", "5 C01, 3.2, 3.5")

add('C02', "For every grammar of the universe TLC evaluates PegSem!Parse and model-checks spec/PegMachine.tla in two flavours: the model interpreter and the "
    "generated parser (Cfg.backend = gen: names and overrides bind the frame's last node, define() only at sequences, grammar not optimized). The "
    "generated Python source is compiled (valid-Python claim), executed, and run on every text under the settings matrix {defaults, ignorecase, "
    "nameguard off, whitespace override, parseinfo}; the generated parser must follow its flavour of the machine on every shape (value included), and "
    "its outcome must equal the model's. A difference between the two back-ends is printed as a known finding (KF-C02-1 last-node binding, KF-C02-2 "
    "define only in sequences) only if the grammar is in the finding's scope AND the two flavours predict exactly the two observed outcomes; anything "
    "else is a violation. Executions of generated parsers (and of the model on the same cases) are recorded through the Tracer seam and validated by "
    "TLC against PegTrace in the matching flavour.",
    "Trusted: TLC, Python re, projections in harness/absgrammar.py. A departure common to both back-ends is C01's verdict, not C02's.",
    "TLA+ specs PegSem (oracle) and PegMachine in model and generated-parser flavours model-checked by TLC + spec->code replay into generated parsers and the model", "5 C02, 0.4")
add('C03', "TLC evaluates PegSem!Parse (seed growing with a dynamic head, docs/left_recursion.rst) on 18 families of layered left-recursive grammars "
    "(direct, aliased, mutual, optional-prefixed, named, right-recursive mixes, unary prefix, a cut scoped to an inline operator choice with a second "
    "left-recursive alternative, cycles entered after an optional / closure prefix, seed alternatives that build a list with @+:) "
    "under all 24 assignments of rule names x every operator/operand string up to the bound; every outcome (accept/reject, end, left-nested AST) "
    "is replayed into the real model under recursion-limit and wall-clock guards (RecursionError/timeout = violation). Exhaustive within bounds. "
    "Recorded traces of the real engine (seed hits, growth rounds, memo guards) are validated by TLC against PegTrace/PegMachine, and PegMachine "
    "itself is model-checked on a slice of the families under every memo schedule (Refines outside KF-C03-1, FramesBalanced, StepBound); the machine "
    "must equal the engine on every case.",
    "Trusted: TLC, projections. KF-C03-1 (static leader) is recognised by family + name order + direction of the mismatch.",
    "TLA+ spec PegSem (left-recursion seeds) evaluated by TLC, exhaustive family universe, spec->code replay; recorded traces validated against PegTrace/PegMachine", "5 C03, 3.3, 3.5")
add('C05', "21 skeletons (incl. an optional whose whole body is a closure / optional / join - the shapes Grammar.optimized() rewrites) x a cut inserted at every position of every sequence x every text up to the bound: TLC evaluates PegSem!Parse, whose cut scopes "
    "are exactly the docs' equivalences (A->[x] == B->x|e, {x} == B->xB|e, join == e {s ~ e}); each outcome is replayed into the real parser. "
    "A lost or leaked cut flag changes accept/reject or the end position of some enumerated case. Exhaustive within bounds. "
    "Recorded traces (cut events included) of the real engine are validated by TLC against PegTrace/PegMachine; PegMachine is model-checked on a "
    "third of the placements under every memo schedule with pruning on and off: CutContained (only the top frame, or the option frame under an "
    "isolate frame, ever changes its cut flag), FramesBalanced, Refines; the machine must equal the engine on every case.",
    "Trusted: TLC, projections. Groups are treated as transparent for cuts (as C05 lists the scopes).",
    "TLA+ spec PegSem (cut scopes) evaluated by TLC, exhaustive cut-placement universe, spec->code replay; recorded traces validated against PegTrace/PegMachine", "5 C05, 3.3, 3.5")

add('C04', "(1) spec/PegMachine.tla is the implementation-shaped small-step machine (frames, memo table, left-recursion seeds, cut flags); at every rule "
    "call with a memo entry TLC explores both the hit and a forced miss (every eviction schedule up to 2 forced misses), with pruning on cut on/off and "
    "memoization on/off, and checks Refines (outcome = PegSem!Parse), FramesBalanced, CutContained and StepBound on seeded random grammars with cuts, the "
    "left-recursion families and cuts inside left-recursive rules; the machine's outcome and value are compared with the real engine on every case. "
    "(2) Every (grammar, text) of the larger universe is parsed under 12 configurations (memoization off for non-left-recursive grammars, perlinememos "
    "0.01/0.5/1/default, prune_memos_on_cut on/off, trace with output discarded, colorize, parseinfo); all outcomes (ok/fail, AST modulo parseinfo, error "
    "class) must be equal. (3) Real executions under tiny memo capacities and with pruning off are recorded and validated by TLC against PegTrace: a memo "
    "hit is accepted only for a (position, rule) evaluated before with the same result. (4) spec/MemoCache.tla is the memo table itself as coded (a "
    "bounded dict in order of stores, no refresh on reads, pruning at cuts, left-recursion guards): TLC proves Bounded, NoDupKeys, Sound (a lookup answers "
    "with the last value stored under its key or with nothing), YoungestKept, NothingBeforeCut, UpdateIsStores, OnlyStoreAdds, LookupPure for every "
    "operation sequence, capacities 1..3, pruning and memoization on/off, and refutes a true LRU and a wrong-end eviction; every edge of its state graph "
    "is replayed onto a real BoundedDict through the real context methods (whole ordered table compared after each step), and the memo operations of real "
    "parses under capacities 1..3 are validated by TLC against spec/MemoTrace.tla (corrupted copies must be rejected). (5) Object-model parses with parse "
    "information (typed rules behind pass-through rules tried from several alternatives) must give the same nodes and parse information under every memo "
    "configuration.",
    "Trusted: TLC, projections. Grammars in the scope of KF-C03-1 (StaticLeaderDeviates) are outside Refines (the machine follows the code there; C03 reports it).",
    "TLA+ specs PegMachine (all memo schedules, Refines PegSem) and MemoCache (the memo table) model-checked by TLC + configuration-matrix replay + state-graph replay onto the real table + trace validation (PegTrace, MemoTrace)", "5 C04, 3.3, 3.5, 0.6")
add('C06', "PegSem carries the action family as a behaviour constant (identity, tagging, FailedSemantics on a predicate, raise); TLC evaluates it for "
    "every (grammar, text); model and generated parser are run with 16 concrete semantics objects (10 exception types, _default only, declared "
    "parameters) and compared: value flow, alternatives after FailedSemantics, exception type/object reaching the caller, identity == no semantics, "
    "@nomemo call counts == invocations (memoization-off count), memoized counts <= that; the tagging semantics is also supplied in objects that are falsy, unhashable, or equal to an object used before (through model.parse, generated parsers and tatsu.parse): the object's own truth value, hash and equality must play no part. spec/PegMachineObs.tla adds history counters per (position, rule) to the machine and TLC checks, under every memo schedule and with memoization on and off, ActionOncePerBody, NoMemoEvaluates, HitNeedsEvaluation (a self-test invariant must be refuted on the same job file). Code->spec: executions with the stateless members of the "
    "family are recorded and validated by TLC against PegTrace: a non-memoizable (@nomemo) rule must show a body evaluation after every entry, a "
    "memoized rule may replay only what an earlier evaluation at that (position, rule) produced, FailedSemantics included.",
    "Trusted: TLC, projections. Action call counts are compared with the memoization-off run of the same parser, not with a spec count.",
    "TLA+ spec PegSem (Act family) evaluated by TLC + replay with generated semantics objects + recorded executions validated against PegTrace/PegMachine", "5 C06, 3.5")
add('C09', "(A) PegSem's lexical level (Skip fixpoint over whitespace, eol comments, comments; where it is applied; nameguard/namechars; ignorecase) "
    "evaluated by TLC on 11 token grammars x 8 configurations x every layout (each gap kind in each slot) of token sequences; replayed into model and "
    "generated parser with comment patterns given as directives and as settings. (B) spec/ConfigLayers.tla (TLC: Precedence, NoLeak) enumerates every "
    "combination of compile/directive/parse layer for 8 settings; each point is replayed through compile+parse, tatsu.parse and generated parsers, "
    "including a later parse without settings on the same object.",
    "Trusted: TLC, projections, Python re. Comment regexes are written with (?m). Grammars whose patterns match whitespace are excluded as the property says.",
    "TLA+ specs PegSem (lexical level) and ConfigLayers checked/evaluated by TLC + replay", "5 C09, 3.7")
add('C11', "PegSem places the keyword check of @name rules after the body and before the action, as an ordinary failure; TLC evaluates 8 grammar "
    "shapes x 1-3 keywords x @name on/off x ignorecase {off, directive, parse setting} x all texts over {i,f,x,space} up to the bound plus case variants, "
    "a 13-keyword table and quoted keywords; replayed into model and generated parser with and without a tagging action. spec/PegMachineObs.tla: TLC checks the action property KeywordBeforeAction on the implementation-shaped machine (the step that rejects a keyword calls no action and leaves a failure in the memo table) under every memo schedule.",
    "Trusted: TLC, projections.", "TLA+ spec PegSem (IsKeyword before Act) evaluated by TLC, exhaustive family universe, replay", "5 C11")

add('C12', "(a) spec/LinePos.tla: TLC enumerates every text over {letter, space, LF, CR} up to the bound, checks the laws of the line table and prints "
    "(line, column, line text) for every offset 0..len; each entry is replayed into TextLinesCursor and BufferCursor (lineinfo, lineat, poscol). "
    "(b) PegSem attaches (rule, start after leading whitespace, end) of every rule that returned it to each dict-like value; TLC evaluates it on "
    "named-rule grammars (nested, aliases, token rules, lists, memo hits, left recursion) x texts with line breaks, and under both comment kinds x layouts "
    "mixing blanks, block comments and end-of-line comments in every order (the start offset is the offset after the whole skip fixpoint); the parseinfo of every dict AST "
    "of the real parse must be one of those triples with line = LinePos line of the start offset.",
    "Trusted: TLC, projections. End-of-text offset findings are listed as KF-C12-1. parseinfo.endline is not part of the claim.",
    "TLA+ specs LinePos (exhaustive table) and PegSem (parse information) evaluated by TLC + replay", "5 C12")
add('C18', "spec/ParProc.tla (one action per step of executor_pmap, environment action Complete(t) = the schedule) is checked exhaustively by TLC: "
    "every completion order x every raising subset, NT<=5(6), windows 2-4, modes window/all/seq/single; invariants NoDup, NoLoss, ExactlyOnce, "
    "SameAsSequential, WindowBound, CapturedNeverBlocks and liveness Finishes. The dumped state graphs are covered edge by edge with behaviours "
    "that are replayed through the real executor_pmap (non-forking ProcessPoolExecutor subclass, scheduled as_completed), comparing submitted set, "
    "as_completed snapshot, yielded result and captured exception after every step; parproc() is run with real pools in all modes, also after an interrupted run. "
    "The specification also carries the stop event of a call (the consumer cancelling after any result: Cancel / Resume; CancelledSound, "
    "NoSubmitAfterCancel; exactly-once is claimed for runs that are never cancelled). Code->spec: executions of parproc() / parallel_proc() over REAL thread and "
    "process pools (whatever completion order the OS produces; payloads as lists and generators; the consumer cancelling after its k-th result; a second loop "
    "alive and cancelled at the same time) are recorded through wrappers around the executor classes and as_completed and validated by TLC against "
    "spec/ParProcTrace.tla: every logged submit / snapshot / observe / yield / cancel must be the specification's next step, worker completions are inferred, "
    "ParProc's invariants are evaluated in every state of every observed execution, and corrupted copies of the traces must be rejected.",
    "Trusted: TLC, the deterministic executor (task functions run synchronously at Complete(t)). Worker-process crashes and KeyboardInterrupt inside the parallel loop are not modelled. "
    "KF-C18-1 (intermittent failure of the manager proxy of the stop event inside a pool worker) is printed when it occurs.",
    "TLA+ spec ParProc model-checked by TLC (safety + liveness, with cancellation) + state-graph behaviours replayed into the real loop + executions over real pools validated against ParProcTrace", "5 C18, 3.7, 0.5")

add('C19', "spec/PacketCodec.tla transcribes the pack/unpack layers (run-length, JSON string literal, class-key escape, tty escape) over the alphabet "
    "of the characters the encoding itself uses; TLC checks the run-length round-trip law for every string up to the bound and evaluates per-layer "
    "outputs plus whether the layers as coded round-trip (witnesses = listed known findings); every point is replayed into rle_encode/rle_decode/"
    "pack/unpack as string payload, dict key and list item. spec/PacketQueue.tla (chunked appends, reads racing the write at every visible length, "
    "one corrupted byte, two readers) is model-checked (InOrderOnce, NothingPartial, ToldSafe, NothingLost, ToldMonotone, liveness EventuallyAll); an "
    "edge-covering set of behaviours of its state graph is replayed on real PacketzQueue objects over real files comparing delivered ids, _told and "
    "_seen after every receive; the last record is also cut at every real byte offset. The codec specification also models the loader's sniffing of "
    "style-like strings (KF-C19-4); the queue specification states the packet-id assumption as a design switch (UniqueIds): TLC refutes NothingLost for ids "
    "drawn from a wrapping generator, and the ids of ~10^5 real packets created back to back must be distinct; a packet the codec cannot decode, sent "
    "between ordinary packets, must not disturb their delivery. Code->spec: a writer thread really calling send() while reader threads really call "
    "receive() on their own queue objects over the same file; each call is logged by its start and its end under one lock, the appends of the record in flight and "
    "the length a read saw are inferred by TLC (spec/PacketQueueTrace.tla), every receive must be explainable by PacketQueue!Receive for a visible length between the "
    "file's lengths at the start and at the end of the call, PacketQueue's invariants are evaluated in every state, corrupted traces must be rejected.",
    "Trusted: TLC, the abstract-to-real byte mapping of the replay rig. Uniqueness of ids is checked within one process; '__class__' dict keys are reserved.",
    "TLA+ specs PacketCodec (exhaustive strings) and PacketQueue (model-checked, state graph replayed on real files, concurrent executions validated against PacketQueueTrace)", "5 C19, 3.7")

add('C20', "spec/Sgr.tla models SGR parameter assembly, wrapping, the ANSI_RE stripping automaton, the attribute reader of Style.from_raw and the "
    "colour gate over an abstract alphabet; TLC checks StripLaw, LenLaw, ParseLaw, OffLaw for every style of the domain (modifier sets x 16/bright/"
    "256/RGB foregrounds and backgrounds) x every ESC-free text up to the bound x every gate combination (override x NO_COLOR x FORCE_COLOR x policy stream stdout/stderr x isatty of each stream), and prints the expected output of "
    "every point; each is concretised (wide, combining, brace, colon, backslash, quote) and replayed: exact escaped output, descape/len, 11 format "
    "specifications through Style(fmt=), apply(fmt=) and format(), colour-off output, repr/from_raw round trip, NO_COLOR/FORCE_COLOR/isatty gate (Color() on stdout, Color.stderr() on stderr), "
    "coloured-then-uncoloured error rendering, and tag markup rendered under an enabled, then a disabled, then an enabled policy.",
    "Trusted: TLC; Python's format(text, spec) as the oracle for the formatted text; character classes stand for all of Unicode (exploration beyond them).",
    "TLA+ spec Sgr checked by TLC (laws on the abstract alphabet) + every point replayed into Style", "5 C20, 3.7")

add('C17', "spec/SafeEval.tla states the property's policy over abstract expression trees (name classes x calls, attributes, subscripts, lambdas, "
    "comprehensions, f-string nesting, format-field traversal); TLC checks Policy => no effects on every tree up to the depth bound and prints each "
    "shape's verdict; each shape is concretised with EVERY member of each name class present in the running interpreter's builtins (all non-pure "
    "builtins count as capabilities) and evaluated through is_eval_safe/safe_eval and through a parser (constant and alert) under an audit hook, "
    "sentinel effects and patched interactive builtins; values of accepted expressions are compared with plain evaluation. spec/ConstLoop.tla models "
    "the interpolation loop of constants (NeverEvaluatesRejected, Bounded, Final, Terminates) and its input-text classes are replayed under a wall-clock guard.",
    "Trusted: TLC; the PURE allowlist in harness/sandbox.py as the reading of 'pure builtin functions'; plausible-argument tables for capabilities. "
    "Effects are observed through audit events for sentinel paths/modules and recorder functions, not through OS-level tracing.",
    "TLA+ specs SafeEval (policy, exhaustive trees) and ConstLoop (model-checked) + concretised replay over all builtins of the interpreter", "5 C17, 3.7")

add('C16', "spec/LeftRec.tla evaluates PegGrammar's left-call relation (Nullable, LeftCalls, OnLeftCycle, cycle components) on every rule graph of "
    "the universe (all 1-rule, a deterministic slice of the 2-rule and a sample of the 3-rule grammars whose bodies are 1-2 options [prefix] target, the prefix being none, an optional, "
    "a closure, a positive closure, a nullable rule call, or a positive join / gather with a nullable or a non-nullable element; a larger deterministic slice in the thorough tier) and TLC checks the laws of the relation; each grammar is compiled with left recursion off (GrammarError <=> "
    "some rule on a left cycle) and on (rules on no cycle memoized and unmarked; every cycle component has a leader, read back from the model), and a "
    "battery of short inputs is parsed under a recursion limit and wall-clock guard (RecursionError / timeout = violation). Cycles hidden behind a call to "
    "a rule that can match empty are bounded by a memo guard; `$` counts as able to match empty, and rule includes / based rules are analysed through their documented expansions: on a family of such grammars with a cut placed in an optional / closure / lookahead / group / "
    "called rule, PegMachine (whose guards survive the pruning done by a cut) is model-checked and must agree with the engine on every text.",
    "Trusted: TLC, projections. Grammars with a nullable rule call in a prefix (the property's proviso) are checked dynamically only.",
    "TLA+ spec LeftRec/PegGrammar (static relation, exhaustive rule graphs) evaluated by TLC + replay of verdicts, marks and input battery", "5 C16, 3.7")

add('C10', "spec/ApiHistory.tla models the compile cache, the shared grammar objects and the handles callers keep; TLC proves HistoryIndependent and "
    "ModelStable for the required design over all histories up to MaxCalls of the call pool (compile / tatsu.parse / to_python_sourcecode / Grammar.load / "
    "model.parse on earlier handles, valid and failing; three grammars, one of them with a rule type named like a grammar-model class) and refutes them for the former design (kept as configuration AsIs = TRUE to document KF-C10-1). "
    "The state graph is covered edge by edge with histories, each replayed in its own interpreter; every response is compared with the same call "
    "executed alone in a fresh interpreter. spec/SemIdentity.tla models the process-wide action cache against object identity (addresses are reused once an "
    "object is gone) and against the object's own __hash__/__eq__/truth value: TLC proves ActionsOfGivenObject for the cache keyed by the identity of the object "
    "(which it keeps alive) and refutes the by-address and the by-equality designs (equal objects with different actions, unhashable and falsy objects), whose behaviours "
    "(New / Drop / Parse; address reuse achieved by allocating until id() repeats) are replayed into the real code. spec/BuilderOptions.tla models the object-model options of compile() (basetype=) against the compile cache and the registry of synthesized classes: TLC proves the required design, refutes three others, and the histories of the design as coded are replayed in fresh interpreters (KF-C10-5). spec/ThreadShare.tla models what threads that parse with ONE "
    "freshly compiled asmodel model share, one action per critical section (the cached optimized grammar under its lock, the module registry of synthesized classes, the "
    "builder's constructor registry): TLC proves NoError, OneClassPerName, BuiltOnce, ThreadIndependent and liveness for the required design (get-or-create registry, serialized "
    "optimized()) and refutes the check-then-act and the unserialized designs; an edge cover of the required design's state graph - every interleaving of the steps of 2 (3) "
    "threads - is FORCED onto the real code through wrappers that block each thread at every step, with the abstract state (registries, class identities, optimized cache, "
    "program counters, classes returned) compared after every action. Generated parser objects are "
    "driven through every ordered pair of per-call settings; 4-8 threads also parse on one shared model free running under a 1 microsecond switch interval, in warm rounds "
    "and in cold-start rounds where every thread is held at the entry of Grammar.optimized() until the others are inside.",
    "Trusted: TLC; the fingerprint/abstraction of responses in harness/apireplay.py; the yield-point wrappers of harness/threadreplay.py (their single-thread point sequence is "
    "checked against the specification's sequential behaviour in every run). Free-running thread rounds are exploration. "
    "Compile-time settings are excluded from the pool (C09 / KF-C09-1).",
    "TLA+ specs ApiHistory, SemIdentity, BuilderOptions, ThreadShare model-checked by TLC (required designs proved, as-coded/racy designs refuted) + state-graph histories and forced thread interleavings replayed into the real code", "5 C10, 3.7, 0.5")

add('C07', "PegSem with the model-building action (Cfg.act = model): a rule annotated name::T::Base yields Obj(T, bases, attributes = named elements or "
    "the single attribute ast), builtin type names convert the value; TLC evaluates it on 11 typed grammars x all texts up to the bound; each case is "
    "replayed through asmodel=True, ModelBuilderSemantics(), the generated model module used as semantics, compile(typedefs=[module]) after the "
    "synthesized compilation, and hand-written Node subclasses that declare their attributes as class attributes (constructors=); compared on class name, declared bases in MRO order, attribute map (also against the plain AST of the same input), "
    "children()/parent against the nodes stored in attributes, DepthFirst/BreadthFirst/PostOrder walker visit sets, walker-method dispatch by class name "
    "(also in a walker subclass defined after its parent class walked the tree), and class identity for the module route.",
    "Trusted: TLC, projections (harness/objreplay.py). Attribute names that collide with Node methods are compared for values only (children() omits them).",
    "TLA+ spec PegSem (MkNode / ObjModel) evaluated by TLC + replay through four model-building routes", "5 C07, 3.7")

add('C13', "Grammar models obtained from the abstract-grammar universes (PegSem evaluated by TLC is the oracle of the ORIGINAL grammar for them), from a "
    "corpus of full-language grammar texts (meta expressions, $->, alerts, constants, patterns with slashes/quotes/backslashes, tokens with quotes and "
    "backslashes, decorators incl. aliases, parameters, typed and based rules, includes, @override, directives, keywords, joins), from JSON, translated from "
    "four ANTLR grammars (behaviour, fixpoint and railroads only: translated models hold placeholder nodes), and with "
    "token/pattern texts enumerated over {a, ', \", \\, /} up to length 3; each model is pretty-printed and recompiled: the text must compile, the "
    "recompiled model must equal the original (from_model projection), behave identically on the input battery and agree with the specification "
    "outcome of the original grammar; pretty-print fixpoint and railroads() completion are checked directly.",
    "Trusted: TLC, projections (harness/derived.py from_model modulo Option/one-element wrappers, @override resolution, the isname alias). The fixpoint "
    "and railroad side conditions are implementation-level equalities with no specification oracle (DESIGN 8).",
    "TLA+ spec PegSem as oracle of the original grammar + derivation replay (pretty -> recompile -> compare)", "5 C13")

add('C14', "spec/AsJson.tla: the depth-first walk of asjson (containers on the current path rendered as references) over every object graph with 3 "
    "containers (dict / list / object; shared and cyclic edges); TLC checks Terminates and CyclesCut and prints the expected output shape; every graph is "
    "rebuilt from real dicts, lists and Node objects and pushed through asjson + json.dumps under a recursion limit and wall-clock guard. Grammar models "
    "(full-language corpus, token/constant texts that look like style escapes, format specs or class markers, core grammars whose behaviour PegSem "
    "specifies) go through asjson->Grammar.load, asjsons, pickle (also the asmodel=True variant of every grammar), to_parsermodel_sourcecode->exec "
    "(GRAMMAR_MODEL and the generated parser class); each "
    "reloaded model must have the same rules/directives/keywords (from_model) and the same behaviour on the battery.",
    "Trusted: TLC, projections. Shared (acyclic) references may be expanded rather than referenced: the claim checked is termination, dumpability and cycle cutting.",
    "TLA+ spec AsJson (exhaustive object graphs) + PegSem as oracle of the original grammar + serialisation round-trip replay", "5 C14, 3.7")

add('C15', "(1) Four ways from a grammar text to a grammar model - the checked-in generated parser behind tatsu.compile, the parser compiled from "
    "tatsu/_tatsu.ebnf, a parser regenerated from that file, and the checked-in GRAMMAR_MODEL - are run on the full-language corpus, a syntax-variant "
    "corpus written to cover every production and option of the TatSu grammar (incl. deprecated forms), seeded random core grammars and their "
    "character-level mutants; they must make the same accept/reject decision and build equal models (from_model). (2) The executions of the checked-in "
    "bootstrap parser on that corpus (accepted and rejected texts) and in the repository's own tests are recorded through the Tracer seam and validated "
    "by TLC against spec/PegTrace.tla instantiated with tatsu/_tatsu.ebnf (generated-parser flavour of PegMachine): every option tried, every backtrack, "
    "cut and memo replay, and every node handed to a GrammarSemantics action must be what the grammar file prescribes; corrupted traces must be rejected.",
    "Trusted: the projection from_model; harness/frompeg.py (grammar file -> abstract grammar; regexes and whitespace/comment skipping tabulated with Python re); "
    "the corpus construction for production coverage. Texts longer than 400 characters are compared differentially only.",
    "differential execution of four routes + trace validation of the bootstrap parser against the TLA+ machine (PegTrace/PegMachine) instantiated with the grammar file",
    "5 C15, 0.3", level='translation_validation')

add('C08', "(1) PegSem's meta expressions (@int @uint @float @bool @name) evaluated by TLC on 10 meta grammars x every text over the characters the matchers "
    "are sensitive to (digits, signs, dot, exponent letter, underscore, letter, space); replayed on TextLines and the legacy Buffer with parseinfo on/off: "
    "accept/reject and value as specified. (2) full-language and seeded random grammars x texts with empty / control / CR-LF mixes / Unicode separators / "
    "non-ASCII / long inputs: every outcome must be a result or a FailedParse whose position lies in the text, whose line, column and source line are mutually "
    "consistent and equal to the LinePos line, identical for both input implementations, and whose message renders. (3) syntax corpus + character-level "
    "mutants as compile input: a model or a TatSu parse/grammar error; any other exception type, RecursionError or time-out is a violation. (4) a corpus "
    "of lexical directives and literals that stress the regex / escape / constant machinery (skip patterns that match the empty string, invalid regular "
    "expressions and escapes, constants whose evaluation raises), compiled and parsed under a wall-clock guard.",
    "Trusted: TLC, projections. The quantifier over all Unicode strings is sampled by class representatives and seeded random strings (exploration); "
    "texts whose treatment the documents leave open (digit run followed by a letter) are checked for the outcome domain only.",
    "TLA+ spec PegSem (meta expressions, outcome domain) evaluated by TLC + replay on both input implementations + fault-oriented text/grammar mutation",
    "5 C08")


# round 6 additions (appended to the level texts)
ROUND6 = {
 'C01': " Rules whose names differ only in underscores, tried at the same position, are in the universe; patterns with two groups (documented value: a tuple) are part of PegSem and PegMachine (KF-C01-2).",
 'C02': " Object-model building requested at parse time (asmodel=True, a model-builder semantics) is given to both back-ends in a fresh interpreter, also on one parser object that is then asked for a plain parse.",
 'C06': " A semantics object assigned to the model after a first parse, and then replaced, must be the one whose actions run.",
 'C07': " Grammars in which a typed node was also held by a node that backtracking discarded; one walker object used again after a complete and after an aborted walk.",
 'C09': " History independence over a pool of calls (harness/historypool.py: every ordered pair of calls adjacent, ideal response = the call alone in a fresh interpreter): lexical settings given at compile time, at parse time and through tatsu.parse() configure that call only.",
 'C10': " History independence over pools of public-API calls (harness/historypool.py; ApiHistory!HistoryIndependent): constants with {name} interpolation over several grammars, names that shadow builtins, overrides next to constants, typed rules with and without model building, generated parsers, compile() under settings that make the grammar text fail.",
 'C11': " A @name rule written as a based rule (name < base); one generated parser object across calls whose ignorecase setting changes.",
 'C12': " A rule that passes through the AST of an inner invocation of itself and is answered from the memo; line information of a pool of texts before and after other texts and a grammar with #include were handled.",
 'C13': " The pretty-printed text of grammars whose rule parameters are equal as Python values but differ in type (1 / True / 1.0), in every order in one interpreter.",
 'C15': " The accept / reject decision of compile() for a grammar text after calls with the same or another text under arguments that make it fail (history pool).",
 'C16': " spec/OptPublish.tla: the order copy / analyse / publish / release in Grammar.optimized(); TLC proves AnalysedBeforeUse for the code's order and refutes early publication; the refuting schedule (thread 1 inside the left-recursion analysis, thread 2 entering) is forced onto the real code. Interlocking cycles over three rules are enumerated exhaustively.",
 'C18': " Real-pool scenarios with a user exception that pickles but does not unpickle, and with TatSu's own VisualPayload class where the function raises a genuine TypeError for one payload (same worker, same run, a later run).",
 'C19': " Sends and receives around model-building parses of grammars whose rule types are named like the queue's own classes, in a fresh interpreter.",
 'C20': " Styles derived (fmt, bold) from a style that was rendered and measured before must equal freshly constructed ones; spaces of category Zs in the repr round trip.",
}
for _pid, _t in ROUND6.items():
    C[_pid]['level_claimed']['text'] += _t

import sys
checks = [C[p] for p in props if p in C]
na = [{"property_id": p, "reason": "check not built yet in this round (build in progress; DESIGN.md section 10 gives the order)"} for p in props if p not in C]
m = {"version": 1, "setup_cmd": "/venv/bin/python -m harness.setup",
     "hooks": {"guard": "TATSU_VERIF", "enable": "no source hooks so far: recorders are installed from the harness process through the public Tracer seam, only when TATSU_VERIF=1",
               "baseline_off_cmd": "/venv/bin/python /verif/harness/baseline_off.py", "source_commits": [], "add_only": True},
     "engines": [{"name": "tlc+replay", "path": "/verif/harness", "serves_properties": sorted(C), "kind_free_text": "TLA+ specifications in /verif/spec checked/evaluated by TLC 1.8; outcomes and behaviours replayed into the real code in worker processes; recorded traces validated by TLC"}],
     "checks": checks, "notes": "see DESIGN.md; fix: commits in /repo are listed in KNOWN_FINDINGS.json", "not_applicable": na}
json.dump(m, open('/verif/MANIFEST.json', 'w'), indent=1)
print(len(checks), 'checks', len(na), 'not applicable')
