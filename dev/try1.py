import random, sys, json, collections
from harness.absgrammar import *
from harness.pegcheck import *
n = int(sys.argv[1]); seed=int(sys.argv[2]) if len(sys.argv)>2 else 1
rnd = random.Random(seed)
gen = Gen(rnd, full=('full' in sys.argv))
jobs = Jobs(); cases=[]
texts = all_texts(['a','b',' '], 3) + [list(t) for t in ['a+b','a + b','aab','abab','a b a','ba+a']]
for i in range(n):
    g = gen.grammar(3)
    cfg = make_cfg(chars_of(g, texts))
    jobs.add(g, cfg, texts)
    cases.append(default_case(to_ebnf(g), texts))
import time; t=time.time()
r, spec = run_oracle(jobs)
print('tlc', r.wall, r.generated, r.distinct)
t=time.time()
impl = run_impl(cases)
print('impl', time.time()-t)
bad=collections.Counter(); shown=0; tot=0; uns=0; cerr=0
for j,(c,im) in enumerate(zip(cases,impl),1):
    if im['compile']['k']!='ok':
        cerr+=1
        if cerr<5: print('COMPILE', c['ebnf'], im['compile'])
        continue
    for t,(s,ir) in enumerate(zip(spec[j], im['res'])):
        so=spec_outcome(s); tot+=1; uns+=so['unspec']
        why=compare(so, ir)
        if why:
            bad[why]+=1
            if shown<int(sys.argv[3]) if len(sys.argv)>3 else 15:
                shown+=1
                print('---',why); print(c['ebnf'].strip()); print(repr(c['texts'][t])); print(' spec',so); print(' impl',ir)
print('total',tot,'unspec',uns,'cerr',cerr,'bad',sum(bad.values()), dict(bad))
