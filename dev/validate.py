import json, sys, glob, jsonschema
es = json.load(open('/root/.vp/EVIDENCE.schema.json')); ms = json.load(open('/root/.vp/MANIFEST.schema.json'))
jsonschema.validate(json.load(open('/verif/MANIFEST.json')), ms); print('manifest valid')
for f in sorted(glob.glob('/verif/evidence/*.json')):
    jsonschema.validate(json.load(open(f)), es); print('valid', f)
