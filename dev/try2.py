import random, sys, json, collections
from harness.absgrammar import *
from harness.pegcheck import *
from harness.impl import run_both_case
n = int(sys.argv[1]); seed=int(sys.argv[2])
rnd = random.Random(seed)
gen = Gen(rnd, full=True)
jobs = Jobs(); cases=[]
texts = all_texts(['a','b',' '], 3) + [list(t) for t in ['a+b','a + b','aab','abab','a b a','ba+a']]
for i in range(n):
    g = gen.grammar(3)
    jobs.add(g, make_cfg(chars_of(g, texts)), texts)
    cases.append(default_case(to_ebnf(g), texts))
r, spec = run_oracle(jobs)
impl = run_impl(cases, fn=run_both_case)
bad=collections.Counter(); shown=0; tot=0
for j,(c,im) in enumerate(zip(cases,impl),1):
    if im['gen']['compile']['k']!='ok':
        bad['gencompile '+im['gen']['compile'].get('cls','')]+=1
        if bad['gencompile '+im['gen']['compile'].get('cls','')]<3: print('GENCOMPILE', c['ebnf'], im['gen']['compile'])
        continue
    for t,(s,ir,gr) in enumerate(zip(spec[j], im['res'], im['gen']['res'])):
        so=spec_outcome(s); tot+=1
        why=compare(so, gr)
        agree = (ir['plain']==gr['plain'] and ir.get('wrapped')==gr.get('wrapped'))
        key=('spec:'+why.split(':')[0] if why else 'spec-ok')+(' model=gen' if agree else ' model!=gen')+(' unspec' if so['unspec'] else '')
        bad[key]+=1
        if (why or not agree) and shown<int(sys.argv[3]) and not so['unspec']:
            shown+=1
            print('---',key); print(c['ebnf'].strip()); print(repr(c['texts'][t])); print(' spec',so); print(' model',ir['plain']);print(' gen  ',gr['plain'], gr.get('wrapped'))
print('total',tot, dict(bad))
