#!/venv/bin/python
"""Confirm a candidate seeded change myself: in a scratch worktree of /repo HEAD (outside /repo and /verif) the patch applies, the
demonstration passes without it and fails with it, and the repository's passing tests still pass.  On success the change is kept
as /verif/seeded/<name>/ (patch.diff, demo.py, meta.json).  usage: vetmut.py <prop> <k> [...]"""
import json, os, shutil, subprocess, sys

OUT = __import__('os').environ.get('VET_OUT', '/tmp/wt/out')
VET = '/tmp/vet'
BASE = '/tmp/vet/base_pass.txt'


def sh(cmd, **kw):
    return subprocess.run(cmd, shell=True, text=True, stdout=subprocess.PIPE, stderr=subprocess.STDOUT, **kw)


def passing(wt, out):
    sh(f'/verif/dev/passing.py {wt} {out}')
    return set(open(out).read().split('\n')) - {''}


def main():
    os.makedirs(VET, exist_ok=True)
    head = sh('git -C /repo rev-parse --short HEAD').stdout.strip()
    if not os.path.exists(BASE) or open(BASE + '.head').read() != head:
        wt = f'{VET}/base'
        sh(f'git -C /repo worktree remove --force {wt}'); sh(f'git -C /repo worktree add --detach {wt} HEAD')
        passing(wt, BASE)
        open(BASE + '.head', 'w').write(head)
        sh(f'git -C /repo worktree remove --force {wt}')
    base = set(open(BASE).read().split('\n')) - {''}
    pinned = set(json.load(open('/root/.vp/BASELINE.json'))['stable_pass'])
    prop = sys.argv[1]
    for k in sys.argv[2:]:
        name = f'{prop}-m{k}'
        src = f'{OUT}/{prop}'
        wt = f'{VET}/{name}'
        sh(f'git -C /repo worktree remove --force {wt}')
        r = sh(f'git -C /repo worktree add --detach {wt} HEAD')
        res = {'name': name, 'head': head}
        try:
            d0 = sh(f'cd {wt} && PYTHONPATH={wt} timeout 300 /venv/bin/python {src}/demo{k}.py')
            res['demo_clean_rc'] = d0.returncode
            a = sh(f'git -C {wt} apply --3way {src}/m{k}.patch')
            sh(f'git -C {wt} reset -q')
            res['applies'] = a.returncode == 0
            if a.returncode:
                res['apply_msg'] = a.stdout[-300:]
            else:
                d1 = sh(f'cd {wt} && PYTHONPATH={wt} timeout 300 /venv/bin/python {src}/demo{k}.py')
                res['demo_mutant_rc'] = d1.returncode
                res['demo_mutant_tail'] = d1.stdout[-400:]
                after = passing(wt, f'{VET}/{name}.after.txt')
                res['lost_tests'] = sorted(base - after)[:20]
                res['lost_pinned'] = sorted(pinned - after)[:20]
                res['diff'] = sh(f'git -C {wt} diff').stdout
        finally:
            sh(f'git -C /repo worktree remove --force {wt}')
        ok = res.get('applies') and res.get('demo_clean_rc') == 0 and res.get('demo_mutant_rc') not in (0, None) and not res.get('lost_pinned')
        res['confirmed'] = bool(ok)
        print(json.dumps({k2: v for k2, v in res.items() if k2 not in ('diff', 'demo_mutant_tail')}))
        if ok:
            dst = f'/verif/seeded/{name}'
            os.makedirs(dst, exist_ok=True)
            open(f'{dst}/patch.diff', 'w').write(res['diff'])
            shutil.copy(f'{src}/demo{k}.py', f'{dst}/demo.py')
            meta = json.load(open(f'{src}/m{k}.json'))
            meta.update({'breaks_property': prop, 'confirmed_at_repo_head': head,
                         'what_i_ran': [f'git worktree add --detach {wt} HEAD', f'PYTHONPATH=<wt> python demo.py  (clean: rc {res["demo_clean_rc"]})',
                                        'git apply patch.diff', f'PYTHONPATH=<wt> python demo.py  (changed: rc {res["demo_mutant_rc"]})',
                                        f'/verif/dev/passing.py <wt>  (tests passing at HEAD that no longer pass: {len(res["lost_tests"])}; pinned baseline lost: 0)'],
                         'lost_nonpinned_tests': res['lost_tests'], 'demo_output_on_changed_tree': res['demo_mutant_tail']})
            json.dump(meta, open(f'{dst}/meta.json', 'w'), indent=1)


main()
