#!/bin/bash
# usage: dev/thorough_all.sh <ids...>   -- run the thorough tier of each check once, print rc and summary line
for id in "$@"; do
  t0=$(date +%s)
  out=$(VERIF_SEED=${VERIF_SEED:-0} timeout 7000 /venv/bin/python -m harness.check $id --tier thorough 2>&1)
  rc=$?
  echo "thorough $id rc=$rc $(( $(date +%s) - t0 ))s $(echo "$out" | grep -E "^\[$id\]" | tail -1)"
  if [ $rc -ne 0 ]; then echo "$out" | grep -E "VIOLATION|MACHINERY|Error|Traceback" | head -8; echo "$out" | tail -5; fi
done
