import sys
sys.path.insert(0, '/verif')
from harness.apireplay import run_threads
c = {'grammar': "start = e $ ; e = e '+' t | e '-' t | t ; t = /[0-9]+/ | '(' e ')' ;", 'threads': 4,
     'inputs': ['1', '1+2', '1+2-3', '(1+2)-3', '1+', '1+2+3+4+5', '9-(8-7)'], 'rounds': 30}
print(run_threads(c)[:3])
