"""History independence over a pool of public-API calls (spec/ApiHistory.tla: HistoryIndependent - the response to a call is the
response the same call gets alone in a fresh interpreter).

A pool is a list of calls; every call is first run ALONE in a fresh interpreter (its ideal response), then long histories - orders
in which every ordered pair of calls is adjacent at least once - are run, each in one fresh interpreter, and every response is
compared with the ideal one.  A difference is reported with the shortest history that still shows it (the pair, if the pair alone
reproduces it, else the whole prefix).

call = {'op': 'parse',    'g': ebnf, 'text': t, 'kw': {...}}                    tatsu.parse(g, t, **kw)
       {'op': 'cparse',   'g': ebnf, 'ckw': {...}, 'text': t, 'kw': {...}}      tatsu.compile(g, **ckw).parse(t, **kw)
       {'op': 'compile',  'g': ebnf, 'ckw': {...}}                              tatsu.compile(g, **ckw)  -> ok / error class
       {'op': 'pretty',   'g': ebnf}                                            tatsu.compile(g).pretty()
       {'op': 'genparse', 'g': ebnf, 'text': t, 'kw': {...}}                    generated parser class of g, fresh object, parse
       {'op': 'lineinfo', 'text': t, 'offsets': [...], 'impl': 'textlines'|'buffer'}   line / col / text of every offset
       {'op': 'include',  'g': ebnf with %INC%, 'included': ebnf, 'text': t}     a grammar with #include, compiled from files and used
"""
from __future__ import annotations

import json
import random
import signal
import sys


def _norm(v, d=0):
    if d > 30:
        return '...'
    try:
        from tatsu.objectmodel import Node
    except Exception:  # noqa: BLE001
        Node = ()
    if Node and isinstance(v, Node):
        return {'__node__': type(v).__name__, **{k: _norm(x, d + 1) for k, x in vars(v).items() if not k.startswith('_') and k not in ('ctx', 'parseinfo', 'comments')}}
    if isinstance(v, dict):
        return {str(k): _norm(x, d + 1) for k, x in v.items() if k not in ('parseinfo', '__parseinfo__')}
    if isinstance(v, (list, tuple)):
        return [_norm(x, d + 1) for x in v]
    if isinstance(v, (str, int, float, bool, type(None))):
        return v
    return type(v).__name__


def _mk(kw):
    kw = dict(kw or {})
    if kw.get('semantics') == 'builder':
        from tatsu.semantics import ModelBuilderSemantics
        kw['semantics'] = ModelBuilderSemantics()
    return kw


def do_call(c):
    import tatsu
    from tatsu.exceptions import FailedParse, ParseException
    try:
        op = c['op']
        if op == 'parse':
            return {'k': 'ok', 'v': _norm(tatsu.parse(c['g'], c['text'], **_mk(c.get('kw'))))}
        if op == 'cparse':
            return {'k': 'ok', 'v': _norm(tatsu.compile(c['g'], **_mk(c.get('ckw'))).parse(c['text'], **_mk(c.get('kw'))))}
        if op == 'compile':
            tatsu.compile(c['g'], **_mk(c.get('ckw')))
            return {'k': 'ok', 'v': 'model'}
        if op == 'pretty':
            return {'k': 'ok', 'v': tatsu.compile(c['g']).pretty()}
        if op == 'genparse':
            ns = {}
            exec(compile(tatsu.to_python_sourcecode(c['g'], name='HP'), '<gen>', 'exec'), ns)   # noqa: S102
            return {'k': 'ok', 'v': _norm(ns['HPParser']().parse(c['text'], **_mk(c.get('kw'))))}
        if op == 'include':
            # a grammar that pulls a second file in with #include (tatsu.boot.TatSuBuffer), compiled and used once
            import tempfile
            from pathlib import Path
            from tatsu.boot import TatSuBuffer
            with tempfile.TemporaryDirectory(dir=c.get('tmp')) as tmp:
                inc = Path(tmp) / 'inc.tatsu'
                inc.write_text(c['included'])
                main = Path(tmp) / 'main.tatsu'
                g = c['g'].replace('%INC%', str(inc))
                main.write_text(g)
                model = tatsu.compile(TatSuBuffer(g, filename=str(main)), name=c.get('name', 'Inc'))
                return {'k': 'ok', 'v': _norm(model.parse(c['text']))}
        if op == 'lineinfo':
            if c.get('impl') == 'buffer':
                from tatsu.input.buffer import Buffer
                cur = Buffer(c['text']).newcursor() if hasattr(Buffer(c['text']), 'newcursor') else Buffer(c['text'])
            else:
                from tatsu.input.textlines import TextLines
                cur = TextLines(text=c['text']).newcursor()
            out = []
            for off in c['offsets']:
                li = cur.lineinfo(off)
                out.append([li.line, li.col, li.text])
            return {'k': 'ok', 'v': out}
        raise ValueError(op)
    except FailedParse as e:
        if 'recursion limit exceeded' in str(getattr(e, 'msg', '')):
            return {'k': 'exc', 'cls': 'RecursionError'}
        return {'k': 'fail', 'cls': type(e).__name__}
    except ParseException as e:
        return {'k': 'err', 'cls': type(e).__name__}
    except RecursionError:
        return {'k': 'exc', 'cls': 'RecursionError'}
    except Exception as e:  # noqa: BLE001
        return {'k': 'exc', 'cls': type(e).__name__, 'msg': str(e)[:160]}


class _Timeout(Exception):
    pass


def _alarm(signum, frame):
    raise _Timeout()


def run_history(case):
    """{'calls': [...]} in THIS (fresh) interpreter -> list of responses"""
    from .impl import _Quiet
    sys.setrecursionlimit(3000)
    signal.signal(signal.SIGALRM, _alarm)
    out = []
    for c in case['calls']:
        signal.alarm(30)
        try:
            with _Quiet():
                out.append(do_call(c))
        except _Timeout:
            out.append({'k': 'exc', 'cls': 'Timeout'})
        finally:
            signal.alarm(0)
    return out


def pair_cover(n, rnd):
    """An order over range(n), as a list of indices, in which every ordered pair (i, j), i != j, and every (i, i) is adjacent once:
    an Eulerian circuit of the complete directed graph with loops (Hierholzer), started at a random vertex with shuffled edges."""
    out_edges = {i: [j for j in range(n)] for i in range(n)}
    for i in out_edges:
        rnd.shuffle(out_edges[i])
    stack, circuit = [rnd.randrange(n)], []
    while stack:
        v = stack[-1]
        if out_edges[v]:
            stack.append(out_edges[v].pop())
        else:
            circuit.append(stack.pop())
    return circuit[::-1]


def fresh_map(cases):
    """run_history for every case, each in its own fresh worker process (pmap runs short lists in-process: pad them)."""
    from .common import pmap
    pad = max(0, 8 - len(cases))
    return pmap(run_history, list(cases) + [{'calls': []}] * pad, procs=16, chunk=1, recycle=1)[:len(cases)]


def check_pool(ck, pool, label, spec='ApiHistory!HistoryIndependent', orders=3, known=None):
    """Run the pool; report every response that differs from the call's response alone in a fresh interpreter.
    known(call, got, want, history) -> True if the difference is a listed known finding (and has been counted by the caller)."""
    n = len(pool)
    alone = [r[0] for r in fresh_map([{'calls': [c]} for c in pool])]
    rnd = random.Random(7700 + ck.seed)
    hist = [pair_cover(n, rnd) for _ in range(orders)]
    res = fresh_map([{'calls': [pool[i] for i in h]} for h in hist])
    nbad = 0
    reported = set()
    for h, rs in zip(hist, res):
        for pos, (i, got) in enumerate(zip(h, rs)):
            ck.count(evaluations=1, traces=1, nontrivial=1 if alone[i]['k'] == 'ok' else 0)
            if got == alone[i]:
                continue
            prev = h[pos - 1] if pos else None
            # the shortest history that shows it: the pair alone, else the prefix
            shown = None
            if prev is not None:
                pr = fresh_map([{'calls': [pool[prev], pool[i]]}])[0]
                if pr[1] != alone[i]:
                    shown = {'history': [pool[prev], pool[i]], 'observed': pr[1]}
            if shown is None:
                shown = {'history_length': pos + 1, 'last_calls': [pool[k] for k in h[max(0, pos - 4):pos + 1]], 'observed': got}
            if known and known(pool[i], shown['observed'], alone[i], shown):
                continue
            key = label + json.dumps(pool[i], sort_keys=True)[:300]
            if key in reported:
                continue
            reported.add(key)
            nbad += 1
            ck.violation({'kind': 'history', 'inputs': {'pool': label, **{k: v for k, v in shown.items() if k != 'observed'}, 'call': pool[i]},
                          'expected': {'the same call alone in a fresh interpreter': alone[i]}, 'observed': shown['observed'],
                          'why': 'the response to a public-API call depends on the calls made before it in the same interpreter', 'spec': spec},
                         key=key)
    ck.notes.setdefault('history_pools', {})[label] = {'calls': n, 'histories': len(hist), 'responses_compared': sum(len(h) for h in hist),
                                                        'ideal_ok': sum(1 for a in alone if a['k'] == 'ok'), 'differences': nbad}
    return alone


# ------------------------------------------------------------------------------------------------ pools

def pool_c10():
    """Constants with {name} interpolation over several grammars, names that shadow builtins, overrides next to constants, typed rules
    with and without model building, the generated parser: what one call binds or builds must not be seen by another."""
    g1 = "@@grammar :: HA\nstart = name:/\\w+/ greet:`Hello {name}!` $ ;\n"
    g2 = "@@grammar :: HB\nstart = word:/\\w+/ tag:`<{name}>` $ ;\n"
    g3 = "@@grammar :: HC\nstart = @:inner $ ;\ninner = @:/\\w+/ `7` ;\n"
    g4 = "@@grammar :: HD\nstart = len:/\\w+/ n:`len('abc')` $ ;\n"
    g5 = "@@grammar :: HE\nstart = w:/\\w+/ n:`len('abcd')` m:`{w}{w}` $ ;\n"
    g6 = "@@grammar :: HF\nstart::Pair = l:item r:item $ ;\nitem::Item = v:/\\w/ ;\n"
    g7 = "@@grammar :: HG\nstart = secret:/\\w+/ ^`seen {secret}` | /\\d+/ t:`{secret}` $ ;\n"
    return [
        {'op': 'parse', 'g': g1, 'text': 'bob'}, {'op': 'parse', 'g': g2, 'text': 'x'}, {'op': 'cparse', 'g': g2, 'text': 'y'},
        {'op': 'parse', 'g': g3, 'text': 'q'}, {'op': 'parse', 'g': g4, 'text': 'zz'}, {'op': 'parse', 'g': g5, 'text': 'ab'},
        {'op': 'genparse', 'g': g1, 'text': 'amy'}, {'op': 'genparse', 'g': g2, 'text': 'x'}, {'op': 'genparse', 'g': g5, 'text': 'cd'},
        {'op': 'parse', 'g': g6, 'text': 'a b'}, {'op': 'parse', 'g': g6, 'text': 'a b', 'kw': {'asmodel': True}},
        {'op': 'cparse', 'g': g6, 'ckw': {'asmodel': True}, 'text': 'a b'}, {'op': 'parse', 'g': g6, 'text': 'a b', 'kw': {'semantics': 'builder'}},
        {'op': 'genparse', 'g': g6, 'text': 'a b', 'kw': {'asmodel': True}}, {'op': 'genparse', 'g': g6, 'text': 'a b'},
        {'op': 'parse', 'g': g7, 'text': '12'}, {'op': 'parse', 'g': g7, 'text': 'abc'},
    ]


def pool_c09():
    """The same grammar text with and without lexical settings, given at compile time, at parse time, through tatsu.parse(): a setting given to
    one call configures that call only."""
    g = "@@grammar :: LA\nstart = 'fun' name $ ;\nname = /\\w+/ ;\n"
    gc = "@@grammar :: LB\nstart = {'a'}+ $ ;\n"
    out = []
    for text in ('funky', 'fun ky', 'FUN ky'):
        for kw in ({}, {'nameguard': False}, {'whitespace': ''}, {'ignorecase': True}, {'namechars': 'k'}):
            out.append({'op': 'parse', 'g': g, 'text': text, 'kw': kw})
            out.append({'op': 'cparse', 'g': g, 'ckw': kw, 'text': text})
    for kw in ({}, {'comments': '/\\*.*?\\*/'}, {'eol_comments': '#.*?$'}):
        out.append({'op': 'parse', 'g': gc, 'text': 'a /* a */ a # a', 'kw': kw})
        out.append({'op': 'cparse', 'g': gc, 'ckw': kw, 'text': 'a /* a */ a # a'})
    return out


def pool_c12():
    """Line information of texts before and after other texts were handled - among them a grammar that includes a file."""
    texts = ['one\ntwo\nthree\n', 'one\rtwo\rthree', 'a\n\nb', 'k = 1\nl = 2\nm = 3\nn = 4\n', 'single line', 'x\ry\r\nz\nw\n', 'ab\ncd\nef']
    out = []
    for t in texts:
        for impl in ('textlines', 'buffer'):
            out.append({'op': 'lineinfo', 'text': t, 'offsets': list(range(len(t))), 'impl': impl})
    out.append({'op': 'include', 'g': "start = 'a' b c $ ;\n#include :: \"%INC%\"\nd = 'd' ;\n", 'included': "b = 'b' ;\n\nc = 'c' ;\n", 'text': 'a b c'})
    out.append({'op': 'include', 'g': "start = 'a' b $ ;\n\n#include :: \"%INC%\"\n", 'included': "b = 'b' ;\n", 'text': 'a b', 'name': 'Inc2'})
    out.append({'op': 'parse', 'g': "@@grammar :: EL\nstart = {'ok' ';'}+ $ ;\n", 'text': 'ok ;\nok ;\noops ;\n'})
    return out


def pool_c13():
    """Pretty-printed text of grammars whose rule parameters are equal as Python values but differ in type."""
    gs = ["@@grammar :: PA\nstart = x $ ;\nx[1] = 'a' ;\n", "@@grammar :: PB\nstart = x $ ;\nx[True] = 'a' ;\n",
          "@@grammar :: PC\nstart = x $ ;\nx[2.0] = 'a' ;\n", "@@grammar :: PD\nstart = x $ ;\nx[2] = 'a' ;\n",
          "@@grammar :: PE\nstart = x $ ;\nx[k=1] = 'a' ;\n", "@@grammar :: PF\nstart = x $ ;\nx[k=True, j=1.0] = 'a' ;\n",
          "@@grammar :: PG\nstart = x $ ;\nx[0] = 'a' ;\ny[False] = 'b' ;\n", "@@grammar :: PH\nstart = x $ ;\nx['1'] = 'a' ;\ny[A] = 'b' ;\n"]
    return [{'op': 'pretty', 'g': g} for g in gs]


def pool_c15():
    """The accept / reject decision for a grammar text, after the same text (or another) was given with arguments that make it fail."""
    ok1 = "@@grammar :: DA\nstart = expression $ ;\nexpression = /\\d+/ {'+' /\\d+/} ;\n"
    ok2 = "@@grammar :: DB\nstart = 'a' 'b' $ ;\n"
    bad = "@@grammar :: DC\nstart = 'a' | ;\n;"
    out = []
    for g in (ok1, ok2, bad):
        for ckw in ({}, {'start': 'expression'}, {'whitespace': ''}, {'nameguard': False}, {'start': 'rule'}):
            out.append({'op': 'compile', 'g': g, 'ckw': ckw})
    out.append({'op': 'cparse', 'g': ok1, 'text': '1 + 2'})
    out.append({'op': 'cparse', 'g': ok2, 'text': 'a b'})
    return out
