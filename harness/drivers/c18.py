"""C18 - parallel processing yields exactly one result per payload.
spec/ParProc.tla is checked exhaustively by TLC (every completion order, every raising subset, window sizes, all modes; safety
invariants + liveness); its state graph is dumped and an edge-covering set of behaviours is replayed step by step through the
real executor_pmap with a deterministic executor; parproc() itself is run in single/sequential/parallel mode with real pools."""
from __future__ import annotations

import os
import shutil

from .. import tlc
from ..common import Check, pmap
from ..dotgraph import Graph
from ..parreplay import replay_path

TRACE_INVS = ['TypeOK', 'NoDup', 'NoLoss', 'WindowBound', 'ExactlyOnce', 'SameAsSequential', 'CancelledSound']


def real_pool_cases(tier, seed):
    """Executions of parproc() over real pools to record: branch x payload count x workers x raising subset x task durations
    (the durations only make different completion orders likely; whichever order the OS produces is what gets validated)."""
    import random
    rr = random.Random(1000 + seed)
    cases = []
    reps = 1 if tier == 'quick' else 4
    for _ in range(reps):
        for branch, ns, wks in (('process', [2, 3, 4, 5, 6, 7] + ([9, 12] if tier == 'thorough' else []), [1, 2, 3]),
                                ('thread', [2, 3, 4, 5, 6] + ([9] if tier == 'thorough' else []), [1, 2, 4])):
            for n in ns:
                for wk in wks:
                    for style in ('none', 'some', 'all'):
                        if style == 'all' and (n + wk) % 2:
                            continue
                        raising = [] if style == 'none' else list(range(1, n + 1)) if style == 'all' else \
                            sorted(rr.sample(range(1, n + 1), rr.randint(1, max(1, n // 2))))
                        delays = {str(t): rr.choice([0, 0, 0, 1, 2, 5, 12]) for t in range(1, n + 1)}
                        cases.append({'n': n, 'raising': raising, 'workers': wk, 'branch': branch, 'delays': delays,
                                      'consumer_delay': rr.choice([0, 0, 3])})
        # the consumer cancels after its k-th result; payloads given as a generator; the legacy entry point; two loops alive at once
        for branch in ('process', 'thread', 'seq'):
            for n, k in ((5, 1), (5, 3), (4, 4), (6, 2)):
                cases.append({'n': n, 'raising': [2], 'workers': 2, 'branch': branch, 'delays': {str(t): rr.choice([0, 1, 4]) for t in range(1, n + 1)},
                              'cancel_after': k})
            cases.append({'n': 5, 'raising': [1, 4], 'workers': 2, 'branch': branch, 'delays': {}, 'iterable': 'generator'})
            cases.append({'n': 5, 'raising': [3], 'workers': 2, 'branch': branch, 'delays': {}, 'iterable': 'generator', 'entry': 'legacy'})
            cases.append({'n': 4, 'raising': [], 'workers': 1, 'branch': branch, 'delays': {}, 'entry': 'legacy'})
        for branch in ('process', 'thread'):
            cases.append({'n': 6, 'raising': [2], 'workers': 2, 'branch': branch, 'delays': {str(t): 3 for t in range(1, 7)}, 'second_loop': True})
        for branch in ('process', 'thread', 'seq'):
            cases.append({'n': 1, 'raising': rr.choice([[], [1]]), 'workers': 2, 'branch': branch, 'delays': {}})
            cases.append({'n': 0, 'raising': [], 'workers': 2, 'branch': branch, 'delays': {}})
        for n in (2, 4):
            cases.append({'n': n, 'raising': [2], 'workers': 2, 'branch': 'seq', 'delays': {}})
        # payloads of TatSu's own payload class; the function raises a genuine TypeError for ONE of them (taskproc() retries that payload
        # with its path): the payloads handled afterwards - by the same worker, in the same run, in a later run of this interpreter - must
        # still get the function's outcome
        for branch, wk in (('seq', 1), ('process', 1), ('process', 2), ('thread', 1), ('thread', 2)):
            cases.append({'n': 5, 'raising': [1], 'workers': wk, 'branch': branch, 'delays': {}, 'exc_kind': 'typeerror', 'payload_kind': 'visual'})
            cases.append({'n': 4, 'raising': [], 'workers': wk, 'branch': branch, 'delays': {}, 'exc_kind': 'typeerror', 'payload_kind': 'visual',
                          'prelude': 'typeerror'})
        # the function raises an ordinary user exception whose constructor takes two arguments (it pickles, but does not unpickle)
        for branch in ('process', 'thread', 'seq'):
            cases.append({'n': 5, 'raising': [3], 'workers': 2, 'branch': branch, 'delays': {}, 'exc_kind': 'twoarg'})
            cases.append({'n': 4, 'raising': [1, 4], 'workers': 3, 'branch': branch, 'delays': {'2': 3}, 'exc_kind': 'twoarg'})
    return cases


def record_real_pools(d, cases, shards=8):
    """parrecord runs in plain subprocesses (pool workers are daemonic and may not start process pools)."""
    import json
    import subprocess
    import sys
    procs, outs = [], []
    for i in range(shards):
        part = cases[i::shards]
        if not part:
            continue
        cin, cout = os.path.join(d, f'rc{i}.json'), os.path.join(d, f'ro{i}.json')
        json.dump(part, open(cin, 'w'))
        procs.append(subprocess.Popen([sys.executable, '-m', 'harness.parrecord', cin, cout], cwd=os.path.dirname(os.path.dirname(
            os.path.dirname(os.path.abspath(__file__)))), stdout=subprocess.PIPE, stderr=subprocess.STDOUT, text=True))
        outs.append(cout)
    recs = []
    for p, cout in zip(procs, outs):
        try:
            out, _ = p.communicate(timeout=900)
        except subprocess.TimeoutExpired:
            p.kill()
            raise tlc.MachineryError('recording real pools timed out')
        if p.returncode != 0 or not os.path.exists(cout):
            raise tlc.MachineryError('recording real pools failed:\n' + (out or '')[-2000:])
        recs += json.load(open(cout))
    return recs


def _corrupt(rec, k):
    """One logged field changed / one event dropped or repeated; every variant touches a field ParProcTrace binds."""
    import copy
    c = copy.deepcopy(rec)
    ev = c['ev']
    ys = [i for i, e in enumerate(ev) if e['ev'] == 'yield']
    subs = [i for i, e in enumerate(ev) if e['ev'] == 'submit']
    obs = [i for i, e in enumerate(ev) if e['ev'] == 'observe']
    kind = k % 5
    if kind == 0 and ys:
        ev[ys[k % len(ys)]]['exc'] ^= True
        what = 'exc flag of a yield'
    elif kind == 1 and subs:
        ev.pop(subs[-1])
        what = 'last submit dropped'
    elif kind == 2 and ys:
        ev.insert(ys[0], dict(ev[ys[0]]))
        what = 'a yield repeated'
    elif kind == 3 and len(ys) >= 2:
        ev[ys[0]]['t'], ev[ys[1]]['t'] = ev[ys[1]]['t'], ev[ys[0]]['t']
        what = 'tasks of two yields swapped'
    elif obs:
        ev.pop(obs[-1])
        what = 'an observe dropped'
    else:
        ev.pop()
        what = 'end dropped'
    c['_corrupt'] = what
    return c


def _tlc_group(arg):
    import json
    d, (nt, w), recs = arg
    path = os.path.join(d, f'tr_{nt}_{w}.json')
    json.dump([{k: v for k, v in r.items() if not k.startswith('_')} for r in recs], open(path, 'w'))
    cfg = os.path.join(d, f'tr_{nt}_{w}.cfg')
    open(cfg, 'w').write(f'CONSTANT NT = {nt}\nCONSTANT Window = {w}\nCONSTANT Modes = {{"window", "all", "seq", "single"}}\nCONSTANT Cancels = TRUE\n'
                         'INIT TraceInit\nNEXT TNext\n' + ''.join(f'INVARIANT {i}\n' for i in TRACE_INVS)
                         + 'CHECK_DEADLOCK FALSE\nPOSTCONDITION AllAccepted\n')
    return tlc.run_tlc('ParProcTrace', cfg=cfg, env={'VERIF_TRACES': path}, workers=1, timeout=600, heap='2g')


def validate_real_pools(ck, d, tier):
    """Code -> spec: every recorded execution over real pools must be a behaviour of ParProc (ParProcTrace), with ParProc's
    invariants holding in every state of it; corrupted copies of the traces must be rejected."""
    import concurrent.futures as cf
    cases = real_pool_cases(tier, ck.seed)
    recs = record_real_pools(d, cases)
    for r in recs:
        if '_error' in r:
            # KF-C18-1: only this exception, only from the stop test of taskproc on the manager proxy, only over a process pool
            tb = r.get('_traceback', '')
            if r['_case']['branch'] == 'process' and r['_error'].startswith("TypeError: 'NoneType' object cannot be interpreted as an integer") \
                    and 'task.stop.is_set()' in tb and 'managers.py' in tb and ck.known('KF-C18-1', f"{r['_case']}: {r['_error']}"):
                continue
            ck.violation({'kind': 'schedule', 'inputs': r['_case'], 'expected': 'parproc() yields one Result per payload',
                          'observed': r['_error'], 'why': 'parproc() over a real pool raised', 'spec': 'ParProcTrace'},
                         key='realraise' + r['_error'][:40])
    good = [r for r in recs if '_error' not in r]
    pool = [r for r in good if len(r['ev']) >= 6]
    corrupted = [_corrupt(r, k) for k, r in enumerate(pool[::max(1, len(pool) // 25)])]
    groups = {}
    for r in good + corrupted:
        groups.setdefault((r['nt'], r['window']), []).append(r)
    keys = sorted(groups)
    with cf.ThreadPoolExecutor(max_workers=16) as ex:
        results = list(ex.map(_tlc_group, [(d, k, groups[k]) for k in keys]))
    nacc = rejected = 0
    for k, r in zip(keys, results):
        ck.add_tlc(r, f'ParProcTrace NT={k[0]} Window={k[1]} ({len(groups[k])} executions)')
        if r.violated:
            ck.violation({'kind': 'schedule', 'inputs': {'spec': 'ParProcTrace', 'NT': k[0], 'Window': k[1],
                                                         'executions': [x['_case'] for x in groups[k] if '_case' in x][:6]},
                          'expected': 'ParProc invariants hold in every state of every observed execution', 'observed': r.violated,
                          'trace': r.trace[:60], 'spec': 'ParProc!' + str(r.violated)}, key=f'ptinv{k}{r.violated}')
            continue
        acc = r.res.get('accepted')
        if not acc:
            raise tlc.MachineryError('ParProcTrace produced no acceptance report:\n' + r.stdout[-1500:])
        accepted = set(acc['accepted']) if isinstance(acc['accepted'], list) else set()
        for i, rec in enumerate(groups[k], 1):
            reached = acc['reached'][i - 1] if isinstance(acc['reached'], list) else 0
            if '_corrupt' in rec:
                if i in accepted:
                    ck.notes.setdefault('pool_corruptions_not_rejected', []).append(rec['_corrupt'])
                else:
                    rejected += 1
                continue
            ck.count(evaluations=1, traces=1, nontrivial=1 if len(rec['ev']) > 8 else 0)
            if i in accepted:
                nacc += 1
                if len(ck.cov['samples']) < 5 and rec['mode'] == 'window' and rec['raises'] and rec['nt'] >= 5:
                    ck.sample({'real_pool_execution': rec['_case'], 'events': [e['ev'] + (str(e['t']) if e['t'] else '') for e in rec['ev']],
                               'ParProcTrace': 'accepted'})
                continue
            ck.violation({'kind': 'schedule', 'inputs': {'execution': rec['_case'], 'mode': rec['mode'], 'NT': rec['nt'], 'Window': rec['window'],
                                                         'raises': rec['raises'], 'events': rec['ev']},
                          'expected': 'the recorded execution is a behaviour of ParProc',
                          'observed': {'events_matched': max(0, reached - 1), 'of': len(rec['ev']),
                                       'around_rejection': rec['ev'][max(0, reached - 3):reached + 1]},
                          'why': 'execution over a real pool rejected by ParProcTrace', 'spec': 'ParProcTrace!TNext'},
                         key=f"ptrej{rec['mode']}{rec['nt']}{rec['ev'][max(0, reached - 1):reached + 1]}")
    ck.notes['real_pool_executions_validated'] = nacc
    ck.notes['real_pool_trace_events'] = sum(len(r['ev']) for r in good)
    ck.notes['pool_corruptions_rejected'] = f'{rejected}/{len(corrupted)}'
    if corrupted and rejected < len(corrupted):
        raise tlc.MachineryError(f'ParProcTrace binding self-test: only {rejected} of {len(corrupted)} corrupted traces were rejected: '
                                 f"{ck.notes.get('pool_corruptions_not_rejected')}")
    if not ck.violations and nacc < len(cases) * 0.9 - 3:
        raise tlc.MachineryError(f'only {nacc} of {len(cases)} real-pool executions were validated')


def write_cfg(path, nt, window, modes, live=True, cancels=False):
    open(path, 'w').write(
        f'CONSTANT NT = {nt}\nCONSTANT Window = {window}\nCONSTANT Modes = {{{", ".join(chr(34) + m + chr(34) for m in modes)}}}\n'
        f'CONSTANT Cancels = {"TRUE" if cancels else "FALSE"}\n'
        'SPECIFICATION Spec\nINVARIANT TypeOK\nINVARIANT NoDup\n' + 'INVARIANT NoLoss\nINVARIANT WindowBound\n'
        'INVARIANT ExactlyOnce\nINVARIANT SameAsSequential\nINVARIANT CapturedNeverBlocks\nINVARIANT CancelledSound\n'
        'PROPERTY NoSubmitAfterCancel\n' + ('PROPERTY Finishes\n' if live else '') + 'CHECK_DEADLOCK FALSE\n')


def run_real_parproc(case):
    """parproc() end to end with real pools: multiset of results in every mode == sequential map."""
    import collections
    from tatsu.parproc import parproc
    from ..parreplay import Payload
    n, raising = case['n'], set(case['raising'])
    payloads = [Payload(t, (LookupError,) if t % 2 == 0 else ()) for t in range(1, n + 1)]
    out = {}
    for modename, kw in (('sequential', {'parallel': False}), ('parallel', {'parallel': True, 'max_workers': case['workers']})):
        try:
            res = list(parproc(_work, payloads, raising, **kw))
            out[modename] = sorted((r.payload.tid, r.outcome, type(r.exception).__name__ if r.exception else None) for r in res)
        except Exception as e:  # noqa: BLE001
            out[modename] = f'raised {type(e).__name__}: {e}'
    want = sorted((t, None if t in raising else t * 10, ('KeyError' if t % 2 == 0 else 'ZeroDivisionError') if t in raising else None)
                  for t in range(1, n + 1))
    return {'want': want, 'got': out}


def run_after_interrupt(case):
    """History: a run whose function raises KeyboardInterrupt, then an ordinary run in the same process.  Every call of
    parproc() starts from ParProc!Init (its own stop flag, nothing submitted): the earlier interruption must be invisible."""
    from tatsu.parproc import parproc
    from ..parreplay import Payload
    payloads = [Payload(t, ()) for t in range(1, case['n'] + 1)]
    first = 'completed'
    try:
        list(parproc(_interrupting, payloads, parallel=case['first_parallel'], max_workers=2))
    except KeyboardInterrupt:
        first = 'KeyboardInterrupt'
    except Exception as e:  # noqa: BLE001
        first = f'{type(e).__name__}'
    out = {}
    for modename, kw in (('sequential', {'parallel': False}), ('single', {'parallel': False, 'single': True}),
                         ('parallel', {'parallel': True, 'max_workers': 2})):
        ps = payloads[:1] if kw.pop('single', False) else payloads
        try:
            res = list(parproc(_work, ps, [], **kw))
            out[modename] = sorted((r.payload.tid, r.outcome, type(r.exception).__name__ if r.exception else None) for r in res)
        except Exception as e:  # noqa: BLE001
            out[modename] = f'raised {type(e).__name__}: {e}'
    want = {m: sorted((t, t * 10, None) for t in range(1, (1 if m == 'single' else case['n']) + 1)) for m in out}
    return {'first': first, 'want': want, 'got': out}


def _interrupting(payload):
    if payload.tid == 2:
        raise KeyboardInterrupt()
    return payload.tid


def _work(payload, raising):
    import time
    time.sleep(0.001 * ((payload.tid * 7) % 5))
    if payload.tid in raising:
        raise (KeyError if payload.tid % 2 == 0 else ZeroDivisionError)('boom')
    return payload.tid * 10


def run(tier):
    ck = Check('C18', tier)
    d = tlc.scratch_dir('parproc')
    try:
        # (1) exhaustive model checking
        configs = [(5, 3, ['window', 'all', 'seq'], False), (4, 2, ['window'], False), (1, 2, ['single'], False), (0, 2, ['window', 'seq'], False),
                   (4, 2, ['window', 'seq'], True), (4, 3, ['window', 'all'], True)]            # ... with the consumer cancelling at any point
        if tier == 'thorough':
            configs += [(6, 3, ['window'], False), (6, 4, ['window', 'all'], False), (5, 2, ['window'], False), (5, 3, ['window', 'all', 'seq'], True)]
        for nt, w, modes, cancels in configs:
            cfg = os.path.join(d, f'pp_{nt}_{w}_{int(cancels)}.cfg')
            write_cfg(cfg, nt, w, modes, cancels=cancels)
            r = tlc.run_tlc('ParProc', cfg=cfg, timeout=1500, coverage=(nt in (4, 5) and w == 3))
            ck.add_tlc(r, f'ParProc NT={nt} Window={w} Modes={modes} Cancels={cancels}')
            if r.violated:
                ck.violation({'kind': 'schedule', 'inputs': {'spec': 'ParProc', 'NT': nt, 'Window': w, 'Modes': modes},
                              'expected': 'all invariants and Finishes', 'observed': r.violated, 'trace': r.trace[:80]},
                             key=f'ParProc{nt}{w}{r.violated}')
            if r.coverage:
                dead = [a for a in ('InitialSubmit', 'While', 'Complete', 'Observe', 'ForEnd', 'Refill', 'Yield', 'Resume')
                        + (('Cancel',) if cancels else ('SeqStep',)) if not r.coverage.get(a)]
                if dead:
                    raise tlc.MachineryError(f'vacuous ParProc run: actions never taken: {dead}')
        # (2) behaviours replayed into the real loop
        cases = []
        for nt, w, mode, cancels in ([(4, 2, 'window', False), (3, 2, 'window', False), (3, 3, 'all', False), (3, 2, 'window', True), (3, 3, 'all', True)]
                                     if tier == 'quick' else
                                     [(5, 3, 'window', False), (5, 2, 'window', False), (4, 2, 'window', False), (4, 3, 'all', False),
                                      (3, 2, 'window', False), (4, 2, 'window', True), (3, 3, 'all', True), (4, 3, 'window', True)]):
            cfg = os.path.join(d, f'dump_{nt}_{w}_{mode}_{int(cancels)}.cfg')
            write_cfg(cfg, nt, w, [mode], live=False, cancels=cancels)
            dot = os.path.join(d, f'g_{nt}_{w}_{mode}_{int(cancels)}')
            r = tlc.run_tlc('ParProc', cfg=cfg, workers=1, dump_dot=dot, timeout=1500)
            g = Graph(dot + '.dot')
            paths = g.edge_cover_paths(is_final=lambda n: g.states[n]['pc'] == 'Done')
            ck.notes.setdefault('graphs', []).append({'NT': nt, 'Window': w, 'mode': mode, 'Cancels': cancels, 'states': len(g.states),
                                                      'edges': sum(1 for _ in g.edges()), 'paths': len(paths)})
            for k, (start, path) in enumerate(paths):
                init = g.states[start]
                cases.append({'nt': nt, 'window': w, 'mode': mode, 'raises': sorted(init['raises']), 'init': init,
                              'path': [(a, g.states[n]) for a, n in path], 'variant': k % 2})
        res = pmap(replay_path, cases, procs=16, chunk=20, recycle=2000)
        for c, o in zip(cases, res):
            ck.count(evaluations=1, traces=1, nontrivial=1 if len(c['path']) > 6 else 0)
            if len(ck.cov['samples']) < 3 and len(c['raises']) == 1 and len(c['path']) > 12:
                ck.sample({'NT': c['nt'], 'Window': c['window'], 'mode': c['mode'], 'raises': c['raises'],
                           'behaviour': [a if a != 'Observe' else f"Observe({s['cur']})" for a, s in c['path']], 'replay': o})
            if not o['ok']:
                ck.violation({'kind': 'schedule', 'inputs': {'NT': c['nt'], 'Window': c['window'], 'mode': c['mode'], 'raises': c['raises'],
                                                             'behaviour': [[a, {k: (sorted(v) if isinstance(v, frozenset) else v) for k, v in s.items()}]
                                                                           for a, s in c['path']]},
                              'expected': 'the implementation follows the behaviour', 'observed': o, 'why': o['why'],
                              'spec': 'ParProc!Next'}, key=o['why'][:40] + c['mode'])
        # (3) parproc() with real pools
        real = [{'n': n, 'raising': rs, 'workers': wk} for n, rs, wk in
                [(0, [], 2), (1, [], 2), (1, [1], 2), (2, [2], 2), (6, [], 2), (6, [2, 3], 2), (9, [1, 2, 3, 4], 2), (9, [2, 4, 6, 8, 9], 3)]]
        if tier == 'thorough':
            real += [{'n': 17, 'raising': list(range(1, 17, 3)), 'workers': 3}, {'n': 12, 'raising': list(range(1, 13)), 'workers': 2}]
        for c in real:
            o = run_real_parproc(c)
            ck.count(evaluations=1, traces=1)
            for modename, got in o['got'].items():
                if got != o['want']:
                    # KF-C18-1: the manager-proxied stop event intermittently breaks worker processes after a captured failure
                    if isinstance(got, str) and 'NoneType' in got and ck.known('KF-C18-1', f"{c} {modename}: {got}"):
                        continue
                    ck.violation({'kind': 'schedule', 'inputs': {**c, 'mode': modename}, 'expected': o['want'], 'observed': got,
                                  'why': 'parproc() results differ from the sequential map', 'spec': 'ParProc!SameAsSequential'},
                                 key=f"real{modename}{c['n']}")
        # (4) code -> spec: executions over real pools validated against ParProcTrace
        validate_real_pools(ck, d, tier)
        for c in [{'n': 4, 'first_parallel': False}] + ([{'n': 4, 'first_parallel': True}] if tier == 'thorough' else []):
            o = run_after_interrupt(c)
            ck.count(evaluations=3, traces=3)
            for modename, got in o['got'].items():
                if got != o['want'][modename]:
                    ck.violation({'kind': 'history', 'inputs': {**c, 'mode': modename, 'history': 'run interrupted by KeyboardInterrupt, then this run'},
                                  'expected': o['want'][modename], 'observed': got,
                                  'why': 'a run after an interrupted run does not yield one result per payload', 'spec': 'ParProc!Init (per call)'},
                                 key=f'afterint{modename}')
    finally:
        shutil.rmtree(d, ignore_errors=True)
    ck.cov['rule'] = ('TLC: all completion orders x all raising subsets for NT<=5(6), Window 2-4, modes window/all/seq/single, safety + '
                      'liveness; replay: an edge-covering set of behaviours of the dumped state graphs (NT 3-5) driven through the real '
                      'executor_pmap with a non-forking executor and a scheduled as_completed; real pools: parproc() sequential vs parallel '
                      'multisets; code -> spec: executions of parproc() over real thread and process pools (free OS schedules) recorded through '
                      'wrappers around the executor classes and as_completed and validated by TLC against ParProcTrace (ParProc invariants in '
                      'every state of every observed execution; corrupted copies must be rejected); non-trivial = behaviour longer than 6 steps')
    ck.cov['exhaustive'] = True
    ck.assumptions += ['the deterministic executor runs task functions synchronously at Complete(t); worker-side crashes are not modelled']
    return ck.finish()
