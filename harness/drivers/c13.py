"""C13 - pretty-printed grammars recompile to the same parser and are a fixpoint.
Models are obtained from the abstract-grammar universes (core language; PegSem is the oracle of the ORIGINAL grammar for them) and from
a corpus of full-language grammar texts (meta, $->, alerts, constants, patterns with slashes/quotes, tokens with quotes/backslashes,
decorators, parameters, based rules, includes, directives, keywords, joins, typed rules), from JSON, and with token/pattern texts
enumerated over {a, ', ", \\, /}; each model is pretty-printed, recompiled and compared: same model (from_model, modulo Option/one-element
wrappers), same behaviour, fixpoint, railroads complete."""
from __future__ import annotations

import itertools
import random
import re

from ..absgrammar import LEAVES_SMALL, Gen, all_texts, chars_of, enum_exprs, grammar, make_cfg, rule, tok, to_ebnf
from ..common import Check, pmap
from ..derived import FULL, run_pretty_case
from ..pegcheck import Jobs, run_oracle, spec_outcome
from .c01 import with_helpers


def token_grammars():
    """tokens and patterns whose text ranges over the characters the printers must quote"""
    out = []
    alpha = ['a', "'", '"', '\\', '/']
    for n in (1, 2, 3):
        for t in itertools.product(alpha, repeat=n):
            s = ''.join(t)
            if "'" in s and '"' in s:
                continue        # the grammar language has no escape for a quote inside a token of the same quote kind
            body = s.replace('\\', '\\\\')
            q = ('"' + body + '"') if "'" in s else ("'" + body + "'")
            out.append((f'token {s!r}', f"start = {q} 'z' ;\n", [s + ' z', s, 'z']))
            try:
                re.compile(s)
            except re.error:
                continue
            if s.endswith('\\') or "'" in s and '"' in s:
                continue
            pq = '?"' + s + '"' if '"' not in s else "?'" + s + "'"
            if '\\' in s:
                continue
            out.append((f'pattern {s!r}', f"start = {pq} 'z' ;\n", [s + 'z', s + ' z', 'z']))
    return out


def run(tier):
    ck = Check('C13', tier)
    rnd = random.Random(13000 + ck.seed)
    cases = []
    for name, ebnf, texts in FULL:
        cases.append({'label': 'full/' + name, 'ebnf': ebnf, 'texts': texts})
        cases.append({'label': 'json/' + name, 'ebnf': ebnf, 'texts': texts, 'json': 'roundtrip'})
    # string parameters that look like other literals of the grammar language keep their type through pretty()
    cases.append({'label': 'string-params-like-literals', 'texts': ['x', 'y'],
                  'ebnf': "start = a b $ ;\na['123', 'True', 'null', 'x y', plain, k='0x10', j='false'] = 'x' ;\nb['None', '1.5', 7, True] = ['y'] ;\n"})
    from ..derived import ANTLR
    for name, g4, texts in ANTLR:          # "however obtained": models translated from ANTLR grammars
        cases.append({'label': 'antlr/' + name, 'antlr': g4, 'name': name.capitalize(), 'ebnf': '', 'texts': texts,
                      'compare_model': False})     # translated models hold Synth placeholders where the recompiled text has calls
    toks = token_grammars()
    if tier == 'quick':
        toks = toks[ck.seed % 2::2]
    for name, ebnf, texts in toks:
        cases.append({'label': name, 'ebnf': ebnf, 'texts': texts})
    core_texts = all_texts(['a', 'b', ' '], 3) + [list('abab'), list('a b a')]
    gen = Gen(rnd, full=True, cuts=True)
    core = [with_helpers(e) for n in (0, 1) for e in enum_exprs(n, LEAVES_SMALL)]
    core += [gen.grammar(rnd.choice([2, 3])) for _ in range(250 if tier == 'quick' else 4000)]
    jobs = Jobs()
    for g in core:
        cases.append({'label': 'core', 'ebnf': to_ebnf(g), 'texts': [''.join(t) for t in core_texts], 'core': len(jobs.jobs)})
        jobs.add(g, make_cfg(chars_of(g, core_texts)), core_texts)
    r, spec = run_oracle(jobs)
    ck.add_tlc(r, 'PegSemBatch (oracle of the original grammar)')
    res = pmap(run_pretty_case, cases, procs=16, chunk=4, recycle=200)
    nn = 0
    for c, o in zip(cases, res):
        ck.count(evaluations=1, traces=len(c['texts']))
        if 'skip' in o:
            ck.notes.setdefault('skipped', []).append(f"{c['label']}: {o['skip']}"[:160])
            continue
        nn += 1
        for p in o['problems']:
            what = f"{c['label']}: {p}"
            # KF-C13-5: the pretty-printed text ends rules with a blank line only; the () inside the grammar's own empty_closure rule
            # skips those line breaks, so a rule whose text ends in {} swallows the header of the next rule as a named element
            import re as _re
            if _re.search(r'\{\}[ \t]*\n\n+\S', o.get('pretty') or '') and ('does not compile' in p or 'recompiled model differs' in p
                                                                            or 'behaviour differs' in p or 'not a fixpoint' in p) \
                    and ck.known('KF-C13-5', what[:200]):
                continue
            # KF-C13-11: a constant whose evaluated text has a line break is written between single back-quotes over two lines
            if _re.search(r'`[^`\n]*\n[^`]*`', o.get('pretty') or '') and 'does not compile' in p and ck.known('KF-C13-11', what[:200]):
                continue
            ck.violation({'kind': 'parse', 'inputs': {'grammar': c['ebnf'], 'label': c['label'], 'pretty': o.get('pretty')},
                          'expected': 'pretty() recompiles to the same parser and is a fixpoint', 'observed': p, 'spec': 'C13'},
                         key=c['label'].split(' ')[0] + p.split(':')[0][:40])
        # the recompiled model is bound to the specification outcome of the ORIGINAL abstract grammar through its behaviour
        if 'core' in c and o.get('behaviour') and not o['problems']:
            for t, (s, bh) in enumerate(zip(spec[c['core'] + 1], o['behaviour'])):
                so = spec_outcome(s)
                if so['k'] == 'fuel':
                    continue
                if (so['k'] == 'ok') != (bh[0] == 'ok'):
                    ck.violation({'kind': 'parse', 'inputs': {'grammar': c['ebnf'], 'text': c['texts'][t]}, 'expected': so, 'observed': bh,
                                  'why': 'behaviour of the original/recompiled model differs from the specification of the original grammar'},
                                 key='corespec' + c['ebnf'])
                    break
        if len(ck.cov['samples']) < 4 and c['label'].startswith('full/') and o.get('pretty'):
            ck.sample({'label': c['label'], 'grammar': c['ebnf'], 'pretty': o['pretty']})
    ck.cov['distinct_nontrivial'] = nn
    ck.cov['rule'] = (f'{len(FULL)} full-language grammar texts (each also through JSON), tokens and patterns over {{a, single quote, double quote, '
                      'backslash, slash}} up to length 3, every core expression with <=1 operator node and seeded random core grammars with cuts; '
                      'per model: pretty, recompile, from_model equality, behaviour on texts, fixpoint, railroads')
    ck.assumptions += ['from_model equality is modulo Option wrappers, one-element sequences/choices and groups around a single element',
                       'pretty-print fixpoint and railroad completion are implementation-level equalities checked directly (no spec oracle)']
    # history independence over a pool of public-API calls: every response must be the one the call gets alone in a fresh interpreter
    from .. import historypool as _hp
    _hp.check_pool(ck, _hp.pool_c13(), 'pretty-printed parameters of equal value and different type', spec='C13 (the pretty-printed text is a function of the model)', orders=2 if tier == 'quick' else 6)
    return ck.finish()
