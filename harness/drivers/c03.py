"""C03 - left-recursive rules parse, terminate and associate to the left.
Layered expression grammars (direct, aliased, mutual, optional-prefixed, named left recursion, mixed with right recursion and a
unary prefix) under every assignment of rule names from {a,e,t,x} x every operator/operand string up to a bound.
Oracle: PegSem (seed growing with a dynamic head); additionally LeftAssoc is stated directly for pure binary chains."""
from __future__ import annotations

import itertools

from ..absgrammar import alt, call, cut, eof, grammar, group, named, opt, ovrlist, rule, seq, star, tok
from ..common import Check
from ..pegcheck import conformance


def families(E, A, T):
    n, p, m, u = tok('n'), tok('+'), tok('*'), tok('-')
    return {
        'direct': [('s', seq(call(E), eof())), (E, alt(seq(call(E), p, call(T)), call(T))), (T, n)],
        'direct-noeof': [('s', call(E)), (E, alt(seq(call(E), p, call(T)), call(T))), (T, n)],
        'aliased': [('s', seq(call(E), eof())), (E, alt(seq(call(A), p, call(T)), call(T))), (A, call(E)), (T, n)],
        'aliased-entry-alias': [('s', seq(call(A), eof())), (E, alt(seq(call(A), p, call(T)), call(T))), (A, call(E)), (T, n)],
        'mutual': [('s', seq(call(E), eof())), (E, alt(seq(call(A), call(T)), call(T))), (A, seq(call(E), p)), (T, n)],
        'optprefix': [('s', seq(call(E), eof())), (E, seq(opt(seq(call(E), p)), call(T))), (T, n)],
        'named': [('s', seq(call(E), eof())), (E, alt(seq(named('l', call(E)), p, named('r', call(T))), call(T))), (T, n)],
        'rightrec': [('s', seq(call(E), eof())), (E, alt(seq(call(E), p, call(E)), call(T))), (T, n)],
        'twolevel': [('s', seq(call(E), eof())), (E, alt(seq(call(E), p, call(A)), call(A))),
                     (A, alt(seq(call(A), m, call(T)), call(T))), (T, n)],
        'direct+mutual': [('s', seq(call(E), eof())), (E, alt(seq(call(E), p, call(T)), call(A), call(T))),
                          (A, seq(call(E), m, call(T))), (T, n)],
        'unary': [('s', seq(call(E), eof())), (E, alt(seq(call(E), p, call(A)), call(A))),
                  (A, alt(seq(u, call(A)), call(T))), (T, n)],
        'rightpow': [('s', seq(call(E), eof())), (E, alt(seq(call(E), p, call(A)), call(A))),
                     (A, alt(seq(call(T), m, call(A)), call(T))), (T, n)],
        # a cut scoped to an inline operator choice of a left-recursive alternative, plus a second left-recursive alternative:
        # inputs that fail after the cut re-invoke the growing leader at its own position
        'cut-op': [('s', seq(call(E), eof())), (E, alt(seq(call(E), group(alt(seq(p, cut()), seq(u, cut()))), call(T)), seq(call(E), m), call(T))),
                   (T, n)],
        'cut-op-noeof': [('s', call(E)), (E, alt(seq(call(E), group(alt(seq(p, cut()), seq(u, cut()))), call(T)), seq(call(E), m), call(T))), (T, n)],
        # a cycle that passes through the element AFTER an inline optional / closure prefix (hidden behind a nullable non-call prefix)
        'prefix-indirect': [('s', seq(call(A), eof())), (A, seq(opt(u), call(E))), (E, alt(seq(call(A), m), call(T))), (T, n)],
        'closure-prefix-indirect': [('s', seq(call(A), eof())), (A, seq(star(u), call(E))), (E, alt(seq(call(A), m), call(T))), (T, n)],
        # the seed alternative builds its value with @+: (a list): every growth round must nest the previous seed as ONE element
        'ovrlist-seed': [('s', seq(call(E), eof())), (E, alt(seq(call(E), p, call(T)), ovrlist(call(T)))), (T, n)],
        'ovrlist-seed-indirect': [('s', seq(call(E), eof())), (E, alt(seq(call(A), p, call(T)), ovrlist(call(T)))), (A, call(E)), (T, n)],
    }


def universe(tier):
    items = []
    maxlen = 5 if tier == 'quick' else 7
    names = ['a', 'e', 't', 'x']
    for (E, A, T) in itertools.permutations(names, 3):
        for fam, rules in families(E, A, T).items():
            if fam in ('prefix-indirect', 'closure-prefix-indirect'):
                alpha = 'n-*'
            elif fam.startswith('cut-op'):
                alpha = 'n+-*'
            else:
                alpha = 'n+' + ('*' if fam in ('twolevel', 'rightpow', 'direct+mutual') else '') + ('-' if fam == 'unary' else '')
            ml = maxlen if len(alpha) == 2 else maxlen - (1 if tier == 'quick' else 2) - (1 if len(alpha) == 4 else 0)
            texts = [list(t) for k in range(ml + 1) for t in itertools.product(alpha, repeat=k)]
            g = grammar(*[rule(nm, e) for nm, e in rules])
            items.append({'g': g, 'texts': texts, 'label': f'{fam}[{E},{A},{T}]', 'fam': fam, 'names': (E, A, T),
                          'cfg': {'nameguard': False}, 'settings': {'nameguard': False}, 'case': {'timeout': 20}})
    return items


def left_nested(k):
    """AST of n (+ n)^k under  e = e '+' t | t ."""
    v = 'n'
    for _ in range(k):
        v = [v, '+', 'n']
    return v


def classify(it, text, so, ir, why):
    E, A, T = it['names']
    # KF-C03-1 (Dev_StaticLeader): the recursion leader is chosen statically as min(rule name) over the cycle; when the cycle is
    # entered through another rule of the cycle (alias sorting before the recursive rule, or entry through the alias) the seed
    # is grown for the wrong rule and the parse fails or stops after one operator.
    if it['fam'] in ('aliased', 'ovrlist-seed-indirect') and A < E and why.startswith('spec accepts, impl fail'):
        return 'KF-C03-1'
    # the same static leader seen through another shape: the cycle a = ['-'] e ; e = a '*' | t is entered, at the position after the
    # prefix, through e, but seeds are grown for min(name) = a: depending on the names the parse stops early (spec accepts, engine
    # fails) or the non-growing rule gives a shorter match that lets the caller continue (spec rejects, engine accepts)
    if it['fam'] in ('prefix-indirect', 'closure-prefix-indirect') and A < E and \
            (why.startswith('spec accepts, impl fail') or why.startswith('spec rejects, impl accepts') or why.startswith('value')):
        return 'KF-C03-1'
    return None


def run(tier):
    ck = Check('C03', tier)
    items = universe(tier)
    mism = conformance(ck, items, classify=classify, also_generated=True)
    from ..pegcheck import trace_validate
    from ..absgrammar import chars_of, make_cfg, to_ebnf
    step = 5 if tier == 'quick' else 1
    tcases = [{'ebnf': to_ebnf(it['g']), 'g': it['g'], 'cfg': make_cfg(chars_of(it['g'], it['texts']), **(it.get('cfg') or {})),
               'texts': [''.join(t) for t in it['texts'] if len(t) <= 4][:30], 'settings': it.get('settings')} for it in items[ck.seed % step::step]]
    trace_validate(ck, tcases, label='C03 left recursion')
    # TLC on the implementation-shaped machine: seeds, growth rounds and guards under every memo schedule (Refines outside KF-C03-1)
    from ..pegcheck import machine_check
    mstep = 6 if tier == 'quick' else 1
    machine_check(ck, items[ck.seed % mstep::mstep], 'C03 left recursion', maxlen=3 if tier == 'quick' else 4, maxtexts=40 if tier == 'quick' else 150)
    ck.cov['rule'] = (f'{len(items)} grammars = 18 families (seed built with @+:, cut in an inline operator choice, cycles after an optional / closure prefix, direct, aliased, aliased entered through the alias, mutual, '
                      'optional-prefixed, named, direct plus mutual, right-recursive mix, two precedence levels, unary prefix, right-recursive power) x all 24 '
                      'assignments of rule names from {a,e,t,x} x all strings over the operator/operand alphabet up to length '
                      f'{5 if tier == "quick" else 7}; non-trivial = accepted with distinct (grammar, AST)')
    ck.cov['exhaustive'] = True
    ck.notes['mismatch_summary'] = {}
    for it, text, so, ir, why in mism:
        k = f"{it['fam']}: {why.split(':')[0]}"
        ck.notes['mismatch_summary'][k] = ck.notes['mismatch_summary'].get(k, 0) + 1
    return ck.finish()
