"""C12 - source positions and parse information are exact.
(a) spec/LinePos.tla: TLC enumerates every text over {letter, space, LF, CR} up to the bound, checks the laws of the line table
    (lines partition the text, columns count from the line start) and prints (line, col, line text) for every offset 0..len;
    each entry is replayed into TextLinesCursor and BufferCursor (lineinfo, lineat, poscol).
(b) PegSem attaches to every dict-like rule value the (rule, start after leading whitespace, end) of each rule that returned it;
    TLC evaluates it on named-rule grammars x texts with line breaks; the parseinfo of every dict AST of the real parse (model and
    object-model nodes) must be one of those triples, with line = LinePos line of the start offset."""
from __future__ import annotations

import itertools
import json
import random

from .. import tlc
from ..absgrammar import (all_texts, alt, call, chars_of, eof, grammar, make_cfg, named, namedlist, opt, ovr, pat, rule, seq, star, tok,
                          to_ebnf, unval)
from ..common import Check, pmap
from ..pegcheck import Jobs, default_case, run_impl, run_oracle

CH = {'x': 'x', 's': ' ', 'n': '\n', 'r': '\r'}


def run_linepos_case(case):
    """{'text': str, 'info': [{line, col, text}]} -> list of mismatches for both cursor implementations."""
    from tatsu.input.buffer import Buffer
    from tatsu.input.textlines import TextLines
    text, infos = case['text'], case['info']
    bad = []
    for cls, moved in ((TextLines, False), (Buffer, False), (TextLines, True), (Buffer, True)):
        try:
            c = cls(text).newcursor()
            if moved:
                c.goto(len(text))          # the answers are about the offset asked, not about where the cursor is
        except Exception as e:  # noqa: BLE001
            bad.append({'cursor': cls.__name__, 'offset': None, 'observed': f'constructor raised {type(e).__name__}: {e}'})
            continue
        for o, inf in enumerate(infos):
            want = {'line': inf['line'], 'col': inf['col'], 'text': inf['text'], 'lineat': inf['line'], 'poscol': inf['col']}
            got = {}
            try:
                li = c.lineinfo(o)
                got.update(line=li.line, col=li.col, text=li.text)
            except Exception as e:  # noqa: BLE001
                got['lineinfo'] = f'{type(e).__name__}: {e}'
            try:
                got['lineat'] = c.lineat(o)
            except Exception as e:  # noqa: BLE001
                got['lineat'] = f'{type(e).__name__}: {e}'
            try:
                got['poscol'] = c.poscol(o)
            except Exception as e:  # noqa: BLE001
                got['poscol'] = f'{type(e).__name__}: {e}'
            diff = {k: (got.get(k), want[k]) for k in want if got.get(k) != want[k]}
            if diff:
                bad.append({'cursor': cls.__name__ + (' (cursor moved to the end)' if moved else ''), 'offset': o, 'eot': o == len(text), 'diff': diff})
    return bad


def part_a(ck, tier):
    import os, shutil
    maxlen = 5 if tier == 'quick' else 7
    d = tlc.scratch_dir('linepos')
    try:
        cfg = os.path.join(d, 'LinePos.cfg')
        open(cfg, 'w').write(f'CONSTANT Alphabet = {{"x", "s", "n", "r"}}\nCONSTANT MaxLen = {maxlen}\nINIT Init\nNEXT Next\n'
                             'INVARIANT Laws\nCHECK_DEADLOCK FALSE\n')
        r = tlc.run_tlc('LinePos', cfg=cfg, timeout=1500)
    finally:
        shutil.rmtree(d, ignore_errors=True)
    ck.add_tlc(r, 'LinePos')
    if r.violated:
        ck.violation({'kind': 'point', 'inputs': {'spec': 'LinePos'}, 'expected': 'Laws', 'observed': r.violated,
                      'trace': r.trace[:40]}, key='LinePosLaws')
    cases = []
    for key, v in r.res.items():
        t = v['t'] if isinstance(v['t'], list) else []
        text = ''.join(CH[c] for c in t)
        infos = v['info'] if isinstance(v['info'], list) else [v['info']]
        cases.append({'text': text, 'info': [{'line': i['line'], 'col': i['col'],
                                              'text': ''.join(CH[c] for c in (i['text'] if isinstance(i['text'], list) else []))}
                                             for i in infos]})
    # random longer texts are checked against the same definition evaluated in Python only in the thorough tier (TLC owns <= bound)
    res = pmap(run_linepos_case, cases, procs=16, chunk=100, recycle=100000)
    npoints = 0
    for c, bad in zip(cases, res):
        npoints += len(c['info']) * 4
        if len(ck.cov['samples']) < 2 and len(c['text']) == 4 and '\n' in c['text']:
            ck.sample({'text': c['text'], 'table': c['info']})
        for b in bad:
            what = f"{b['cursor']} text={c['text']!r} offset={b['offset']}: {b.get('diff') or b.get('observed')}"
            if b.get('eot') and not any(isinstance(v[0], str) and 'Error' in v[0] for v in b['diff'].values()) \
                    and ck.known('KF-C12-1', what):
                continue
            ck.violation({'kind': 'point', 'inputs': {'text': c['text'], 'cursor': b['cursor'], 'offset': b['offset']},
                          'expected': c['info'][b['offset']] if b['offset'] is not None else 'a cursor', 'observed': b,
                          'spec': 'LinePos!Info'}, key=f"{b['cursor']}{'eot' if b.get('eot') else ''}{sorted(b.get('diff', {}))}{len(c['text']) < 2}")
    ck.count(evaluations=npoints, traces=npoints, nontrivial=len(cases))
    ck.notes['linepos_texts'] = len(cases)
    ck.notes['linepos_points'] = npoints


def line_of(text, pos):
    """LinePos!Info(text, pos).line"""
    n, i = 0, 0
    while i < pos and i < len(text):
        if text[i] == '\n' or (text[i] == '\r' and not (i + 1 < len(text) and text[i + 1] == '\n')):
            n += 1
        i += 1
    return n


def run_pi_case(case):
    import tatsu
    from ..impl import clear_caches, outcome
    clear_caches()
    out = {'res': []}
    try:
        model = tatsu.compile(case['ebnf'])
    except Exception as e:  # noqa: BLE001
        return {'compile': {'k': 'exc', 'cls': type(e).__name__, 'msg': str(e)[:200]}, 'res': []}
    out['compile'] = {'k': 'ok'}

    def proj(x):
        if isinstance(x, dict):
            pi = x.get('parseinfo') if hasattr(x, 'get') else None
            d = {k: proj(v) for k, v in x.items() if k not in ('parseinfo', '__parseinfo__')}
            d['__pi__'] = None if pi is None else [pi.rule, pi.pos, pi.endpos, pi.line, pi.endline]
            return d
        if isinstance(x, (list, tuple)):
            return [proj(v) for v in x]
        return x if isinstance(x, (str, int, float, bool)) or x is None else repr(x)
    for text in case['texts']:
        try:
            inp = text
            if case.get('buffer'):
                from tatsu.input.buffer import Buffer
                inp = Buffer(text, **(case.get('settings') or {}))        # the Buffer carries its own comment patterns
            v = model.parse(inp, parseinfo=True, **(case.get('settings') or {}))
            out['res'].append({'k': 'ok', 'v': proj(v)})
        except Exception as e:  # noqa: BLE001
            out['res'].append({'k': 'fail', 'cls': type(e).__name__})
    return out


def spec_pi(v):
    """tagged spec value -> same projection as proj() with '__pis__' = admissible (rule, pos, end) triples."""
    t = v['t']
    if t == 'd':
        d = {k: spec_pi(x) for k, x in v['v']}
        d['__pis__'] = [[p['rule'], p['pos'], p['end']] for p in (v.get('pi') or [])]
        return d
    if t == 'l':
        return [spec_pi(x) for x in v['v']]
    return unval(v)


def cmp_pi(s, i, text, path='$'):
    """-> reason or None"""
    if isinstance(s, dict) and '__pis__' in s:
        if not isinstance(i, dict):
            return f'{path}: spec dict, impl {type(i).__name__}'
        pi = i.get('__pi__')
        if pi is None:
            return f'{path}: dict-like AST without parseinfo'
        if pi[:3] not in s['__pis__']:
            return f'{path}: parseinfo {pi[:3]} is not a (rule, start, end) of a rule that returned this AST: {s["__pis__"]}'
        if pi[3] != line_of(text, pi[1]):
            return f'{path}: parseinfo.line {pi[3]} but offset {pi[1]} is on line {line_of(text, pi[1])}'
        for k, sv in s.items():
            if k == '__pis__':
                continue
            if k not in i:
                return f'{path}.{k}: missing'
            r = cmp_pi(sv, i[k], text, f'{path}.{k}')
            if r:
                return r
        return None
    if isinstance(s, list):
        if not isinstance(i, list) or len(i) != len(s):
            return f'{path}: list shape'
        for n, (a, b) in enumerate(zip(s, i)):
            r = cmp_pi(a, b, text, f'{path}[{n}]')
            if r:
                return r
        return None
    return None if s == i else f'{path}: {i!r} != {s!r}'


def part_b(ck, tier):
    a, b, p = tok('a'), tok('b'), tok('+')
    gs = {
        'flat': grammar(rule('s', seq(named('x', a), named('y', opt(b))))),
        'nested': grammar(rule('s', seq(named('l', call('y')), named('r', star(call('y'))), eof())), rule('y', seq(named('v', alt(a, b)), opt(p)))),
        'alias': grammar(rule('s', call('y')), rule('y', named('v', a))),                      # the same AST returned by two rules
        'token-rule': grammar(rule('s', seq(named('h', a), named('t', call('Z')))), rule('Z', named('z', pat(['b'], 1, True)))),
        'list': grammar(rule('s', star(call('y'))), rule('y', seq(named('k', alt(a, b)), namedlist('m', opt(p))))),
        'backtrack': grammar(rule('s', alt(seq(call('y'), p), seq(call('y'), b), call('y'))), rule('y', named('v', a))),   # memo hits
        'leftrec': grammar(rule('s', seq(call('e'), eof())), rule('e', alt(seq(named('l', call('e')), p, named('r', a)), named('r', a)))),
        # a rule that passes the AST of an inner invocation OF ITSELF through (a = 'a' @:a 'b' | x:'+'), abandoned in the first option and asked for
        # again - from the memo - at the inner offset by the second: the inner AST keeps the inner invocation's offsets
        'self-pass-through': grammar(rule('s', alt(seq(call('y'), a), seq(call('z'), eof()))), rule('y', alt(seq(a, ovr(call('y')), b), named('x', p))),
                                     rule('z', seq(a, named('inner', call('y')), b, named('mark', p)))),
        'self-pass-through-2': grammar(rule('s', alt(seq(call('y'), a), seq(a, named('inner', call('y')), b, named('k', star(p)), eof()))),
                                       rule('y', alt(seq(a, ovr(call('y')), b), seq(a, ovr(call('y'))), named('x', p)))),
    }
    base = all_texts(['a', 'b', ' ', '\n'], 4 if tier == 'quick' else 5)
    extra = [list(t) for t in [' a\n b', 'a\r\nb', '\n\na b', 'a +\nb', 'a+a+a', ' a + a', 'a\rb', '\r\n a b +',
                               'a+b+', 'a +\nb +', 'aa+bb+', '\na\n+b+', 'a+b', 'aa+b+', 'a\n a + b\n b +', 'a+b++']]
    texts = base + extra
    jobs, cases = Jobs(), []
    for name, g in gs.items():
        cfg = make_cfg(chars_of(g, texts))
        cfg['parseinfo'] = True
        jobs.add(g, cfg, texts)
        cases.append(default_case(to_ebnf(g), texts, label=name))
    # the start offset of a rule is the offset after ALL leading whitespace and comments (the skip is a fixpoint over whitespace,
    # end-of-line comments and block comments, whatever their order)
    pieces = [' ', '\n', '(*c*)', '#d\n', '(*c*)#d\n', '#d\n(*c*)', ' (*c*) #d\n ', '(*c*)(*e*)', '#d\n#f\n',
              '(**) ', '#\n ', '(**)\n#\n ']              # comments with an empty body
    ctexts = []
    for g1 in pieces:
        for g2 in pieces[:7] + pieces[9:10]:
            ctexts += [list(g1 + 'a' + g2 + 'b'), list('a' + g1 + 'b' + g2 + '+'), list(g1 + 'a')]
    ctexts = [list(x) for x in dict.fromkeys(''.join(t) for t in ctexts)]
    for name in ('flat', 'nested', 'list', 'token-rule'):
        g = gs[name]
        cfg = make_cfg(chars_of(g, ctexts), eolc='#', cmt=('(*', '*)'))
        cfg['parseinfo'] = True
        jobs.add(g, cfg, ctexts)
        cases.append(default_case(to_ebnf(g), ctexts, label=name + '/comments',
                                  settings={'eol_comments': r'(?m)#.*?$', 'comments': r'\(\*.*?\*\)'}))
        # the legacy Buffer input has its own token-skipping loop
        jobs.add(g, cfg, ctexts)
        cases.append(default_case(to_ebnf(g), ctexts, label=name + '/comments/buffer', buffer=True,
                                  settings={'eol_comments': r'(?m)#.*?$', 'comments': r'\(\*.*?\*\)'}))
        # comment patterns written with a capture group around the comment's text, as TatSu's own grammar writes them
        for buf in (False, True):
            jobs.add(g, cfg, ctexts)
            cases.append(default_case(to_ebnf(g), ctexts, label=name + '/comments-captured' + ('/buffer' if buf else ''), buffer=buf,
                                      settings={'eol_comments': r'(?m)#([^\n]*?)$', 'comments': r'\(\*((?:.|\n)*?)\*\)'}))
    r, spec = run_oracle(jobs)
    ck.add_tlc(r, 'PegSemBatch(parseinfo)')
    impl = run_impl(cases, fn=run_pi_case, chunk=1)
    nd = 0
    for j, (c, im) in enumerate(zip(cases, impl), 1):
        if im['compile']['k'] != 'ok':
            ck.violation({'kind': 'parse', 'inputs': {'grammar': c['ebnf']}, 'expected': 'compiles', 'observed': im['compile']},
                         key='compile' + c['ebnf'])
            continue
        for t, (s, o) in enumerate(zip(spec[j], im['res'])):
            ck.count(evaluations=1, traces=1)
            sr = s['r']
            if sr['k'] != 'ok' or o['k'] != 'ok':
                if (sr['k'] == 'ok') != (o['k'] == 'ok') and sr['k'] != 'fuel':
                    ck.violation({'kind': 'parse', 'inputs': {'grammar': c['ebnf'], 'text': c['texts'][t]}, 'expected': sr, 'observed': o,
                                  'why': 'accept/reject'}, key=c['ebnf'] + 'acc')
                continue
            sv = spec_pi(sr['v'])
            if isinstance(sv, dict):
                nd += 1
            why = cmp_pi(sv, o['v'], c['texts'][t])
            if t == 40 or (why and len(ck.cov['samples']) < 4):
                ck.sample({'grammar': c['ebnf'], 'text': c['texts'][t], 'spec': sv, 'impl': o['v']})
            if why:
                ck.violation({'kind': 'parse', 'inputs': {'grammar': c['ebnf'], 'text': c['texts'][t], 'settings': {'parseinfo': True}},
                              'expected': sv, 'observed': o['v'], 'why': why, 'spec': 'PegSem!Body (parse information)'},
                             key=c['ebnf'] + why.split(':')[1][:30])
    ck.cov['distinct_nontrivial'] += nd
    ck.notes['parseinfo_dict_results'] = nd


def spec_nodes(v, out):
    """collect (class, admissible (rule,pos,end) triples) of every object node of a tagged spec value, in traversal order"""
    t = v['t']
    if t == 'o':
        out.append((v['cls'], [[p['rule'], p['pos'], p['end']] for p in (v.get('pi') or [])]))
        for _k, x in v['v']:
            spec_nodes(x, out)
    elif t == 'd':
        for _k, x in v['v']:
            spec_nodes(x, out)
    elif t == 'l':
        for x in v['v']:
            spec_nodes(x, out)
    return out


def impl_nodes(v, out):
    if isinstance(v, dict) and '__node__' in v:
        out.append((v['__node__'], v.get('pi')))
        for _k, x in v['attrs'].items():
            impl_nodes(x, out)
    elif isinstance(v, dict):
        for k, x in v.items():
            if k != '__pi__':
                impl_nodes(x, out)
    elif isinstance(v, list):
        for x in v:
            impl_nodes(x, out)
    return out


def part_c(ck, tier):
    """model nodes carry the name of a rule that returned them and the offsets of that rule's match"""
    from ..absgrammar import ovr
    from ..objreplay import run_obj_case
    a, b, p = tok('a'), tok('b'), tok('+')
    gs = {
        'nodes': grammar(rule('s', seq(named('l', call('y')), named('r', star(call('y')))), typ=['Root']), rule('y', named('v', alt(a, b)), typ=['Leaf'])),
        'override-of-untyped': grammar(rule('s', seq(ovr(call('m')), opt(p)), typ=['Simple']), rule('m', seq(named('k', a), named('w', opt(b))))),
        'override-of-typed': grammar(rule('s', seq(opt(p), ovr(call('y')), opt(p)), typ=['Wrap']), rule('y', named('v', alt(a, b)), typ=['Leaf'])),
        'ast-node': grammar(rule('s', seq(call('y'), opt(call('y'))), typ=['Pair']), rule('y', alt(a, b), typ=['Leaf'])),
    }
    texts = all_texts(['a', 'b', '+', ' ', '\n'], 3 if tier == 'quick' else 4) + [list(t) for t in [' a b+', 'a\nb', '\n a +', '+ab+']]
    jobs, cases = Jobs(), []
    for name, g in gs.items():
        cfg = make_cfg(chars_of(g, texts), act='model')
        cfg['parseinfo'] = True
        jobs.add(g, cfg, texts)
        cases.append(default_case(to_ebnf(g), texts, label=name, settings={'parseinfo': True}))
    r, spec = run_oracle(jobs)
    ck.add_tlc(r, 'PegSemBatch(act=model, parseinfo)')
    impl = run_impl(cases, fn=run_obj_case, chunk=1)
    n = 0
    for j, (c, im) in enumerate(zip(cases, impl), 1):
        if im['compile']['k'] != 'ok':
            ck.violation({'kind': 'parse', 'inputs': {'grammar': c['ebnf']}, 'expected': 'compiles', 'observed': im['compile']}, key='c-compile' + c['ebnf'])
            continue
        for t, (s, o) in enumerate(zip(spec[j], im['res'])):
            if s['r']['k'] != 'ok':
                continue
            want = spec_nodes(s['r']['v'], [])
            for how in ('asmodel', 'builder'):
                got = o[how]
                ck.count(evaluations=1, traces=1)
                if got['k'] != 'ok':
                    continue
                have = impl_nodes(got['v'], [])
                n += len(have)
                why = None
                if sorted(x[0] for x in want) != sorted(x[0] for x in have):
                    continue            # tree shape is C07's verdict
                pool = list(want)       # attribute order is free: match every real node with an unused specification node
                for cls, pi in have:
                    if pi is None:
                        why = f'node {cls} carries no parseinfo'
                        break
                    k = next((i for i, (c2, pis) in enumerate(pool) if c2 == cls and pi[:3] in pis), None)
                    if k is None:
                        why = (f'node {cls}: parseinfo {pi[:3]} is not (rule, start, end) of a rule that returned such a node: '
                               f'{[p for c2, p in pool if c2 == cls]}')
                        break
                    pool.pop(k)
                    if pi[3] != line_of(c['texts'][t], pi[1]):
                        why = f'node {cls}: parseinfo.line {pi[3]}, offset {pi[1]} is on line {line_of(c["texts"][t], pi[1])}'
                        break
                if why:
                    ck.violation({'kind': 'parse', 'inputs': {'grammar': c['ebnf'], 'text': c['texts'][t], 'how': how, 'settings': {'parseinfo': True}},
                                  'expected': want, 'observed': have, 'why': why, 'spec': 'PegSem!WithInfo (model nodes)'},
                                 key=c['ebnf'] + how + why.split(':')[0][:24])
    ck.cov['distinct_nontrivial'] += n
    ck.notes['model_nodes_with_parseinfo'] = n


def run(tier):
    ck = Check('C12', tier)
    part_a(ck, tier)
    part_b(ck, tier)
    part_c(ck, tier)
    ck.cov['rule'] = ('(a) every text over {x, space, LF, CR} up to length 5 (quick) / 7 (thorough) x every offset 0..len x '
                      '{TextLinesCursor, BufferCursor} x {lineinfo, lineat, poscol}; (b) 7 named-rule grammars (flat, nested, alias, token rule, '
                      'lists, backtracking/memo hits, left recursion) x all texts over {a,b,space,LF} up to 4/5 (+8 with CR/CRLF) with parseinfo on')
    ck.cov['exhaustive'] = True
    # history independence over a pool of public-API calls: every response must be the one the call gets alone in a fresh interpreter
    from .. import historypool as _hp
    _hp.check_pool(ck, _hp.pool_c12(), 'line information after other texts and an #include', spec='LinePos!Laws (whatever was handled before)', orders=2 if tier == 'quick' else 6)
    return ck.finish()
