"""C19 - the packet queue is lossless and delivers each packet once, in order.
spec/PacketCodec.tla: the pack/unpack layers as functions on character sequences; TLC checks the run-length law and evaluates, for
every payload string over the critical alphabet, the per-layer outputs (replayed into rle_encode/rle_decode/pack/unpack) and whether
the layers AS CODED round-trip (the witnesses are the listed known findings).  spec/PacketQueue.tla: chunked appends, reads racing the
write at every visible length, one corrupted byte, two readers; invariants + liveness by TLC; an edge-covering set of behaviours of
its state graph is replayed on real PacketzQueue objects over real files; the last record is also cut at every real byte offset."""
from __future__ import annotations

import os
import shutil

from .. import tlc
from ..common import Check, pmap
from ..dotgraph import Graph
from ..pktreplay import conc, replay_queue_path, run_codec_points, truncation_sweep

PAYLOADS = ['plain', 'aaaaaa~~1111', '~a1~', {'k': ['x', 'yyyyy']}, 'tab\tnl\n"quoted"', 'é世 ~~', ['~', '~~', ''], 12, None]


def _tlc_queue_traces(arg):
    import json
    d, key, recs = arg
    np_, readers = key
    tag = f'{np_}_{len(readers)}'
    path = os.path.join(d, f'qt_{tag}.json')
    json.dump([{k: v for k, v in r.items() if not k.startswith('_')} for r in recs], open(path, 'w'))
    cfg = os.path.join(d, f'qt_{tag}.cfg')
    rs = ', '.join(f'"{r}"' for r in readers)
    open(cfg, 'w').write(f'CONSTANTS NP = {np_}\nRL = 2\nReaders = {{{rs}}}\nMaxCorrupt = 0\nIds = {{1}}\nUniqueIds = TRUE\nINIT TraceInit\nNEXT TNext\n'
                         'INVARIANT InOrderOnce\nINVARIANT NothingPartial\nINVARIANT ToldSafe\nINVARIANT NothingLost\nCHECK_DEADLOCK FALSE\n'
                         'POSTCONDITION AllAccepted\n')
    return tlc.run_tlc('PacketQueueTrace', cfg=cfg, env={'VERIF_TRACES': path}, workers=1, timeout=900, heap='2g')


def queue_traces(ck, d, tier):
    """Code -> spec: a writer thread really sending while reader threads really receive; every recorded execution must be a behaviour of
    PacketQueue (PacketQueueTrace), its invariants holding in every state; corrupted copies must be rejected."""
    import concurrent.futures as cf
    import copy
    from ..pktrecord import record_queue_run
    cases = []
    for seed in range(ck.seed * 100, ck.seed * 100 + (24 if tier == 'quick' else 120)):
        cases.append({'np': 4 + 2 * (seed % 2), 'readers': ['r1'] if seed % 3 == 0 else ['r1', 'r2'], 'seed': seed, 'big': seed % 4 == 1})
    recs = pmap(record_queue_run, cases, procs=8, chunk=1, recycle=100)
    good = []
    for r in recs:
        if 'error' in r:
            ck.violation({'kind': 'schedule', 'inputs': r['_case'], 'expected': 'send() and receive() running concurrently complete', 'observed': r['error'],
                          'why': 'a concurrent send / receive raised', 'spec': 'PacketQueueTrace'}, key='qtraise' + r['error'][:30])
        else:
            good.append(r)
    corrupted = []
    for k, r in enumerate(good[::3]):
        c = copy.deepcopy(r)
        ends = [e for e in c['ev'] if e['ev'] == 'recvend' and e['got']]
        if not ends:
            continue
        e = ends[-1] if k % 3 else ends[0]
        if k % 3 == 0:
            e['got'] = e['got'][1:] if len(e['got']) > 1 else e['got'] + [e['got'][0]]
            what = 'a delivered packet dropped / repeated'
        elif k % 3 == 1 and len(e['got']) > 1:
            e['got'] = [e['got'][1], e['got'][0]] + e['got'][2:]
            what = 'two deliveries swapped'
        else:
            e['told'] = e['told'] + 1
            what = 'offset moved by one record'
        c['_corrupt'] = what
        corrupted.append(c)
    groups = {}
    for r in good + corrupted:
        groups.setdefault((r['np'], tuple(r['readers'])), []).append(r)
    keys = sorted(groups)
    with cf.ThreadPoolExecutor(max_workers=8) as ex:
        results = list(ex.map(_tlc_queue_traces, [(d, k, groups[k]) for k in keys]))
    nacc = rejected = 0
    for k, r in zip(keys, results):
        ck.add_tlc(r, f'PacketQueueTrace NP={k[0]} readers={len(k[1])} ({len(groups[k])} executions)')
        if r.violated:
            ck.violation({'kind': 'schedule', 'inputs': {'spec': 'PacketQueueTrace', 'NP': k[0], 'readers': list(k[1])},
                          'expected': 'PacketQueue invariants hold in every state of every observed execution', 'observed': r.violated,
                          'trace': r.trace[:60], 'spec': 'PacketQueue!' + str(r.violated)}, key=f'qtinv{k}{r.violated}')
            continue
        acc = r.res.get('accepted')
        if not acc:
            raise tlc.MachineryError('PacketQueueTrace produced no acceptance report:\n' + r.stdout[-1500:])
        accepted = set(acc['accepted']) if isinstance(acc['accepted'], list) else set()
        for i, rec in enumerate(groups[k], 1):
            reached = acc['reached'][i - 1] if isinstance(acc['reached'], list) else 0
            if '_corrupt' in rec:
                if i in accepted:
                    ck.notes.setdefault('queue_corruptions_not_rejected', []).append(rec['_corrupt'])
                else:
                    rejected += 1
                continue
            ck.count(evaluations=1, traces=1, nontrivial=1 if len(rec['ev']) > 20 else 0)
            if i in accepted:
                nacc += 1
                continue
            ck.violation({'kind': 'schedule', 'inputs': {'execution': rec['_case'], 'events': rec['ev']},
                          'expected': 'the recorded execution is a behaviour of PacketQueue',
                          'observed': {'events_matched': max(0, reached - 1), 'of': len(rec['ev']), 'around_rejection': rec['ev'][max(0, reached - 3):reached + 1]},
                          'why': 'concurrent send / receive execution rejected by PacketQueueTrace', 'spec': 'PacketQueueTrace!TNext'},
                         key=f"qtrej{rec['ev'][max(0, reached - 1):reached + 1]}")
    ck.notes['concurrent_queue_executions_validated'] = nacc
    ck.notes['concurrent_queue_trace_events'] = sum(len(r['ev']) for r in good)
    ck.notes['queue_corruptions_rejected'] = f'{rejected}/{len(corrupted)}'
    if corrupted and rejected < len(corrupted):
        raise tlc.MachineryError(f'PacketQueueTrace binding self-test: only {rejected} of {len(corrupted)} corrupted traces were rejected: '
                                 f"{ck.notes.get('queue_corruptions_not_rejected')}")


def long_runs(_case):
    """RleLaw beyond the lengths TLC enumerates: run counts with 1-6 digits (the count is written in decimal, any length), alone and
    next to the characters the encoding uses; as rle round trip and as packet payload / recipient."""
    from tatsu.packetz.compact import rle_decode, rle_encode
    from tatsu.packetz.packet import Packet, pack, unpack
    bad = []
    for n in (4, 9, 10, 99, 100, 999, 1000, 9999, 10000, 99999, 100000, 250000):
        for ch in (' ', 'a', '7', '\n'):
            for s in (ch * n, '~' + ch * n + '~1~', 'x' + ch * n + ch.upper() * 5 + 'y'):
                try:
                    d = rle_decode(rle_encode(s))
                    if d != s:
                        bad.append({'what': 'rle_decode(rle_encode(s)) != s', 'run': [ch, n], 'len': len(s), 'observed': d[:40] + ('...' if len(d) > 40 else '')})
                        continue
                    u = unpack(pack(Packet(to=s[:50], data={'k': [s]})))
                    if u.data != {'k': [s]} or u.to != s[:50]:
                        bad.append({'what': 'unpack(pack(p)) != p', 'run': [ch, n], 'len': len(s), 'observed': repr(u.data)[:60]})
                except Exception as e:  # noqa: BLE001
                    bad.append({'what': f'raised {type(e).__name__}: {str(e)[:60]}', 'run': [ch, n], 'len': len(s)})
    return bad


def id_uniqueness(case):
    """Create packets back to back for `seconds` and, through a real queue file, send and receive a sample of them."""
    import time
    from tatsu.packetz.packet import Packet
    ids, t0 = [], time.monotonic()
    while time.monotonic() - t0 < case['seconds']:
        for _ in range(200):
            ids.append(Packet(to='r', data=1).id)
    seen, dup, example = set(), 0, None
    for k, i in enumerate(ids):
        if i in seen:
            dup += 1
            example = example or {'packet number': k, 'id': i}
        seen.add(i)
    return {'n': len(ids), 'duplicates': dup, 'example': example, 'seconds': case['seconds']}


def undecodable_between(_case):
    """A packet the codec itself cannot decode (a KF-C19-2 payload, written by send()) between ordinary packets: whatever happens to
    that packet, the others must be delivered once and in order, and receive() must not raise."""
    import os
    import tempfile
    d = tempfile.mkdtemp(prefix='pktz-u-', dir=os.environ.get('VERIF_SCRATCH'))
    cwd = os.getcwd()
    os.chdir(d)
    try:
        from tatsu.packetz.queue import PacketzQueue
        w, r = PacketzQueue('q.jsonl'), PacketzQueue('q.jsonl')
        sent = ['one', 'back\\e slash', 'three', '\\e[1m', 'five']
        for x in sent:
            w.send(to='a', data=x)
        out = {'sent': sent, 'rounds': []}
        for _ in range(3):
            got = []
            try:
                for p in r.receive():
                    got.append(p.data)
                out['rounds'].append(got)
            except Exception as e:  # noqa: BLE001
                out['rounds'].append(got)
                out['rounds'].append(f'raised {type(e).__name__}: {str(e)[:80]}')
        return out
    finally:
        os.chdir(cwd)


REGISTRY_PROBE = r'''
import json, os, sys, tempfile
import tatsu
from tatsu.semantics import ModelBuilderSemantics
from tatsu.packetz.packet import Packet
from tatsu.packetz.queue import PacketzQueue
d = tempfile.mkdtemp(dir=os.environ.get("VERIF_SCRATCH") or None)
path = os.path.join(d, "q.jsonl")
w, r = PacketzQueue(path), PacketzQueue(path)
out = {}
try:
    for x in ("one", "two"):
        w.send(to="r", data=x)
    out["before"] = [p.data for p in r.receive()]
    # elsewhere in the same process: object models for grammars whose rule types are named like the queue's own classes
    tatsu.compile("start::Packet = w:/[a-z]+/ ;", name="PK1").parse("ab", semantics=ModelBuilderSemantics())
    tatsu.parse("start::Packet = w:/[a-z]+/ q:sub ;\nsub::PacketzQueue = /[0-9]+/ ;", "ab 12", asmodel=True)
    for x in ("three", "four"):
        w.send(to="r", data=x)
    out["after"] = [p.data for p in r.receive()]
    out["late_reader"] = [p.data for p in PacketzQueue(path).receive()]
except Exception as e:
    out["error"] = f"{type(e).__name__}: {e}"[:200]
print(json.dumps(out))
'''


def registry_probe(ck):
    """Sends and receives around model-building parses of grammars whose rule types are named like the queue's own classes (Packet,
    PacketzQueue), in a fresh interpreter: every completed send is still received exactly once, in order."""
    import json
    import subprocess
    import sys
    p = subprocess.run([sys.executable, '-c', REGISTRY_PROBE], env=dict(os.environ), capture_output=True, text=True, timeout=300)
    try:
        out = json.loads(p.stdout.strip().splitlines()[-1])
    except Exception:  # noqa: BLE001
        raise tlc.MachineryError('C19 registry probe did not run: ' + (p.stdout + p.stderr)[-500:])
    ck.count(evaluations=3, traces=3, nontrivial=3)
    want = {'before': ['one', 'two'], 'after': ['three', 'four'], 'late_reader': ['one', 'two', 'three', 'four']}
    if out != want:
        ck.violation({'kind': 'history', 'inputs': {'history': 'send one, two ; receive ; model-building parses of start::Packet / sub::PacketzQueue ; send three, four ; receive ; '
                                                               'a new reader receives'},
                      'expected': want, 'observed': out,
                      'why': 'packets are not delivered once and in order after object models were built for rule types named like the queue classes',
                      'spec': 'PacketQueue!InOrderOnce (whatever else the process does)'}, key='registryprobe')
    ck.notes['registry_probe'] = out


def run(tier):
    ck = Check('C19', tier)
    registry_probe(ck)
    d = tlc.scratch_dir('pktz')
    os.environ['VERIF_SCRATCH'] = d
    try:
        # ---- codec
        maxlen = 4 if tier == 'quick' else 5
        cfg = os.path.join(d, 'codec.cfg')
        open(cfg, 'w').write('CONSTANT Alphabet = {"~", "a", "1", "B", "e", "E", "q", "@"}\n'
                             f'CONSTANT MaxLen = {maxlen}\nINIT Init\nNEXT Next\nINVARIANT RleLaw\nCHECK_DEADLOCK FALSE\n')
        r = tlc.run_tlc('PacketCodec', cfg=cfg, timeout=2400)
        ck.add_tlc(r, 'PacketCodec')
        if r.violated:
            ck.violation({'kind': 'point', 'inputs': {'spec': 'PacketCodec'}, 'expected': 'RleLaw', 'observed': r.violated,
                          'trace': r.trace[:30]}, key='RleLaw')
        pts = list(r.res.values())
        # longer run-length cases (counts with two digits, runs of digits and of tildes) over a 3-letter alphabet
        cfg2 = os.path.join(d, 'codec2.cfg')
        open(cfg2, 'w').write('CONSTANT Alphabet = {"~", "a", "1", "n"}\n'
                              f'CONSTANT MaxLen = {6 if tier == "quick" else 8}\nINIT Init\nNEXT Next\nINVARIANT RleLaw\nCHECK_DEADLOCK FALSE\n')
        r2 = tlc.run_tlc('PacketCodec', cfg=cfg2, timeout=2400)
        ck.add_tlc(r2, 'PacketCodec(rle alphabet)')
        if r2.violated:
            ck.violation({'kind': 'point', 'inputs': {'spec': 'PacketCodec'}, 'expected': 'RleLaw', 'observed': r2.violated,
                          'trace': r2.trace[:30]}, key='RleLaw2')
        pts += list(r2.res.values())
        # strings that look like the written form of styled text (the loader's sniffing): f{ , backslash-e-[
        cfg3 = os.path.join(d, 'codec3.cfg')
        open(cfg3, 'w').write('CONSTANT Alphabet = {"f", "{", "a", "B", "e", "["}\n'
                              f'CONSTANT MaxLen = {3 if tier == "quick" else 4}\nINIT Init\nNEXT Next\nINVARIANT RleLaw\nCHECK_DEADLOCK FALSE\n')
        r3 = tlc.run_tlc('PacketCodec', cfg=cfg3, timeout=2400)
        ck.add_tlc(r3, 'PacketCodec(style-like strings)')
        if r3.violated:
            ck.violation({'kind': 'point', 'inputs': {'spec': 'PacketCodec'}, 'expected': 'RleLaw', 'observed': r3.violated,
                          'trace': r3.trace[:30]}, key='RleLaw3')
        pts += list(r3.res.values())
        chunks = [{'points': pts[i:i + 200]} for i in range(0, len(pts), 200)]
        res = pmap(run_codec_points, chunks, procs=16, chunk=1, recycle=10000)
        ncoded_bad = sum(1 for p in pts if not (p['str'] and p['key'] and p['item']))
        ck.notes['codec_points'] = len(pts)
        ck.notes['as_coded_roundtrip_failures_in_spec'] = ncoded_bad
        ck.count(evaluations=len(pts) * 5, traces=len(pts) * 5, nontrivial=len(pts))
        for bad in res:
            for b in bad:
                what = f"{b['layer']} {b.get('kind', '')} {b['s']!r}: {b['observed']}"
                if b['layer'] == 'pack/unpack' and not b['as_coded_ok']:
                    s = b['s']
                    if '\\e' in s or '\\x1b' in s:
                        if ck.known('KF-C19-2', what):
                            continue
                    if b.get('kind') == 'key' and (s == '@' or s.endswith('"@')) and ck.known('KF-C19-3', what):
                        continue
                    if b.get('kind') in ('str', 'item') and (s.startswith('f{') or s.startswith('\\e[')) \
                            and ck.known('KF-C19-4', what):
                        continue
                ck.violation({'kind': 'point', 'inputs': {k: v for k, v in b.items() if k not in ('expected', 'observed')},
                              'expected': b.get('expected'), 'observed': b.get('observed'), 'spec': 'PacketCodec'},
                             key=b['layer'] + b.get('kind', '') + str(b.get('as_coded_ok')))
        if pts:
            ck.sample({'codec point': {'s': conc(pts[len(pts) // 2]['s']), 'spec': pts[len(pts) // 2]}})
        # ---- queue: exhaustive model checking
        qcfgs = [(3, 3, ['r1', 'r2'], 1, True)] + ([(4, 3, ['r1'], 1, True), (3, 4, ['r1', 'r2'], 1, False)] if tier == 'thorough' else [])
        for np_, rl, readers, mc, live in qcfgs:
            cfgq = os.path.join(d, f'q_{np_}_{rl}.cfg')
            open(cfgq, 'w').write(f'CONSTANTS NP = {np_}\nRL = {rl}\nReaders = {{{", ".join(readers)}}}\nMaxCorrupt = {mc}\nIds = {{1}}\nUniqueIds = TRUE\nSPECIFICATION Spec\n'
                                  'INVARIANT InOrderOnce\nINVARIANT NothingPartial\nINVARIANT ToldSafe\nINVARIANT NothingLost\n'
                                  'PROPERTY ToldMonotone\n' + ('PROPERTY EventuallyAll\n' if live else '') + 'CHECK_DEADLOCK FALSE\n')
            rq = tlc.run_tlc('PacketQueue', cfg=cfgq, timeout=2400, coverage=True)
            ck.add_tlc(rq, f'PacketQueue NP={np_} RL={rl} readers={len(readers)}')
            if rq.violated:
                ck.violation({'kind': 'schedule', 'inputs': {'spec': 'PacketQueue'}, 'expected': 'invariants + liveness',
                              'observed': rq.violated, 'trace': rq.trace[:60]}, key='PQ' + rq.violated)
            dead = [a for a in ('SendBegin', 'SendChunk', 'Corrupt', 'Receive') if not rq.coverage.get(a)]
            if dead:
                raise tlc.MachineryError(f'vacuous PacketQueue run: {dead}')
        # ---- packet ids: the design with an id generator that wraps around is refuted by TLC (a completed packet is lost) ...
        cfgw = os.path.join(d, 'q_wrap.cfg')
        open(cfgw, 'w').write('CONSTANTS NP = 3\nRL = 2\nReaders = {r1}\nMaxCorrupt = 0\nIds = {1, 2}\nUniqueIds = FALSE\nSPECIFICATION Spec\n'
                              'INVARIANT NothingLost\nCHECK_DEADLOCK FALSE\n')
        rw = tlc.run_tlc('PacketQueue', cfg=cfgw, timeout=600)
        ck.notes['wrapping_id_design_refuted'] = rw.violated
        if rw.violated != 'NothingLost':
            raise tlc.MachineryError(f'PacketQueue: the design with wrapping ids is not refuted by NothingLost (got {rw.violated})')
        # ... so the ids of the real packets must be unique: packets created over several periods of any short clock cycle
        o = pmap(id_uniqueness, [{'seconds': 0.45 if tier == 'quick' else 2.0}], procs=1)[0]
        ck.count(evaluations=o['n'], traces=1, nontrivial=1)
        ck.notes['packet_ids_created'] = o['n']
        if o['duplicates']:
            ck.violation({'kind': 'history', 'inputs': {'packets created back to back': o['n'], 'over_seconds': o['seconds']},
                          'expected': 'every packet has an id of its own (PacketQueue with UniqueIds; with repeating ids a completed send is never delivered)',
                          'observed': {'distinct ids': o['n'] - o['duplicates'], 'repeated': o['duplicates'], 'example': o['example']},
                          'why': 'packet ids repeat: the reader drops a later packet whose id it has seen', 'spec': 'PacketQueue!NothingLost (UniqueIds)'},
                         key='idrepeat')
        for b in pmap(long_runs, [0], procs=1)[0][:5]:
            ck.violation({'kind': 'point', 'inputs': {'run of': b['run'][0], 'length': b['run'][1], 'string length': b['len']},
                          'expected': 'round trip', 'observed': b.get('observed'), 'why': b['what'], 'spec': 'PacketCodec!RleLaw (long runs)'},
                         key='longrun' + b['what'][:20])
        ck.count(evaluations=144, traces=144)
        o = pmap(undecodable_between, [0], procs=1)[0]
        ck.count(evaluations=1, traces=1)
        flat = [x for rd in o['rounds'] if isinstance(rd, list) for x in rd]
        raised = [rd for rd in o['rounds'] if isinstance(rd, str)]
        if raised or [x for x in flat if x in ('one', 'three', 'five')] != ['one', 'three', 'five']:
            ck.violation({'kind': 'history', 'inputs': {'sent': o['sent']}, 'expected': "receive() delivers 'one', 'three', 'five' once, in order, and does not raise",
                          'observed': o['rounds'], 'why': 'a packet that cannot be decoded disturbs the delivery of the others',
                          'spec': 'PacketQueue!InOrderOnce / NothingLost (a bad line is skipped)'}, key='undecodable')
        elif len(flat) < len(o['sent']):
            ck.known('KF-C19-2', f"sent {o['sent']}, received {flat}: the packets containing backslash-e are never delivered")
        # ---- queue: behaviours replayed on real files
        cases = []
        for np_, rl, readers in ([(2, 3, ['r1', 'r2']), (3, 3, ['r1'])] if tier == 'quick' else [(3, 3, ['r1', 'r2']), (3, 4, ['r1']), (2, 3, ['r1', 'r2'])]):
            cfgq = os.path.join(d, f'dq_{np_}_{rl}_{len(readers)}.cfg')
            open(cfgq, 'w').write(f'CONSTANTS NP = {np_}\nRL = {rl}\nReaders = {{{", ".join(readers)}}}\nMaxCorrupt = 1\nIds = {{1}}\nUniqueIds = TRUE\nSPECIFICATION Spec\n'
                                  'INVARIANT ToldSafe\nCHECK_DEADLOCK FALSE\n')
            dot = os.path.join(d, f'gq_{np_}_{rl}_{len(readers)}')
            tlc.run_tlc('PacketQueue', cfg=cfgq, workers=1, dump_dot=dot, timeout=2400)
            g = Graph(dot + '.dot')
            paths = g.edge_cover_paths(is_final=lambda n: True)       # every state is a possible end; paths end at the covered edge
            ck.notes.setdefault('graphs', []).append({'NP': np_, 'RL': rl, 'readers': len(readers), 'states': len(g.states),
                                                      'edges': sum(1 for _ in g.edges()), 'paths': len(paths)})
            for k, (start, path) in enumerate(paths):
                cases.append({'np': np_, 'rl': rl, 'readers': readers, 'init': g.states[start],
                              'path': [(a, g.states[n]) for a, n in path], 'payloads': PAYLOADS[k % 3:] + PAYLOADS[:k % 3],
                              'corrupt_kind': k // 3})
        res = pmap(replay_queue_path, cases, procs=16, chunk=10, recycle=400)
        for c, o in zip(cases, res):
            ck.count(evaluations=1, traces=1, nontrivial=1 if len(c['path']) > 4 else 0)
            if len(ck.cov['samples']) < 4 and len(c['path']) > 8:
                ck.sample({'NP': c['np'], 'RL': c['rl'], 'behaviour': [a for a, _ in c['path']], 'replay': o})
            if not o['ok']:
                ck.violation({'kind': 'schedule', 'inputs': {'NP': c['np'], 'RL': c['rl'], 'readers': c['readers'],
                                                             'behaviour': [a for a, _ in c['path']], 'payloads': repr(c['payloads'])},
                              'expected': 'the queue follows the behaviour', 'observed': o, 'why': o['why'], 'spec': 'PacketQueue!Next'},
                             key=o['why'][:30])
        # ---- code -> spec: concurrent send / receive executions validated against PacketQueueTrace
        queue_traces(ck, d, tier)
        # ---- the file cut at every real byte offset of the last record
        sweeps = [{'payloads': PAYLOADS[i:i + 3] or PAYLOADS[:3]} for i in range(0, len(PAYLOADS), 2)]
        res = pmap(truncation_sweep, sweeps, procs=8, chunk=1, recycle=1000)
        for c, o in zip(sweeps, res):
            ck.count(evaluations=o['n'], traces=o['n'], nontrivial=o['n'])
            for b in o['bad']:
                ck.violation({'kind': 'schedule', 'inputs': {'payloads': repr(c['payloads']), 'cut': b.get('cut')},
                              'expected': 'a truncated last record is not delivered, earlier ones once, the rest after the write completes',
                              'observed': b, 'spec': 'PacketQueue!Receive (vis inside the last record)'}, key='trunc' + str(b.get('cut', 0) > 0))
    finally:
        shutil.rmtree(d, ignore_errors=True)
    ck.cov['rule'] = ('codec: every string over {~,a,1,\\\\,e,ESC,",@} up to length 4/5 and over {~,a,1} up to 7/9 as string payload, dict key and '
                      'list item; queue: TLC exhaustive (3 sends, 3-byte records, 2 readers, chunked appends, reads at every visible length, one '
                      'corrupted byte; invariants + liveness), edge-covering behaviours replayed on real files, last record cut at every real byte; code -> spec: '
                      'a writer thread sending while reader threads receive, each call logged by start and end, validated by TLC against PacketQueueTrace')
    ck.cov['exhaustive'] = True
    ck.assumptions += ['dict keys named __class__ are reserved by the JSON class-marker convention',
                       'uniqueness of packet ids is checked on packets created back to back in one process, not across processes']
    return ck.finish()
