"""C17 - constant expressions in grammars are evaluated in a sandbox.
spec/SafeEval.tla: the property's policy over abstract expression trees (name classes x calls, attributes, subscripts, lambdas,
comprehensions, f-string nesting, format-field traversal); TLC checks Policy => no effects on every tree up to the depth bound and prints
each shape's verdict; every shape is concretised with EVERY member of each name class present in the running interpreter's builtins and
evaluated through is_eval_safe/safe_eval and through a parser (`constant`, ^`alert`) under an audit hook and sentinel effects.
spec/ConstLoop.tla: the interpolation loop of ParserEngine.constant (termination, no evaluation of rejected text)."""
from __future__ import annotations

import os
import shutil

from .. import tlc
from ..common import Check, pmap
from ..sandbox import classify_builtins, run_sandbox_points


LOOP_INPUTS = {
    'inert': ['ab', 'hello world', 'a-b'],
    'quoted': ["'ab'", '"x y"'],
    'number': ['12', '1.5', '[1, 2]'],
    'safe': ["len('ab')", '1+1', "ord('a')"],
    'unsafe': ["open('f')", '().__class__', "getattr('a', 'b')", '__import__("os")', "eval('1')"],
    'selfref': ['{x}a', 'a{x}', '{x}{x}'],
}


def run_const_loop(case):
    """grammar  s = x:/.*/ v:`{x}` ;  on an input text of a given class, under a wall-clock guard."""
    import signal
    import tatsu

    class TO(BaseException):
        pass

    def h(*a):
        raise TO()
    signal.signal(signal.SIGALRM, h)
    model = tatsu.compile('s = x:/.*/ v:`{x}` ;')
    signal.alarm(5)
    try:
        r = model.parse(case['text'])
        return {'k': 'ok', 'v': repr(r.get('v')), 'type': type(r.get('v')).__name__}
    except TO:
        return {'k': 'hang'}
    except tatsu.exceptions.FailedParse as e:
        return {'k': 'hang' if 'TO' in str(e) or not str(e).strip() else 'fail', 'msg': str(e)[:120]}
    except BaseException as e:  # noqa: BLE001
        return {'k': 'hang' if isinstance(e.__cause__, TO) or isinstance(e, TO) else 'exc', 'cls': type(e).__name__, 'msg': str(e)[:120]}
    finally:
        signal.alarm(0)


def const_loop(ck, d):
    for cfg, must in (('ConstLoop', True), ('ConstLoopSelfRef', False)):
        r = tlc.run_tlc('ConstLoop', cfg=cfg, workers=2, timeout=600)
        ck.add_tlc(r, cfg)
        if must and r.violated:
            ck.violation({'kind': 'point', 'inputs': {'spec': 'ConstLoop'}, 'expected': 'NeverEvaluatesRejected, Bounded, Final, Terminates',
                          'observed': r.violated, 'trace': r.trace[:40]}, key='ConstLoop' + r.violated)
        if not must:
            ck.notes['ConstLoop_selfref_refuted'] = r.violated        # the design-level witness of KF-C17-3
    cases = [{'cls': c, 'text': t} for c, ts in LOOP_INPUTS.items() for t in ts]
    res = pmap(run_const_loop, cases, procs=8, chunk=1, recycle=1000)
    for c, o in zip(cases, res):
        ck.count(evaluations=1, traces=1)
        want_type = {'inert': 'str', 'quoted': 'str', 'number': None, 'safe': None, 'unsafe': 'str'}.get(c['cls'])
        what = f"constant `{{x}}` with x = {c['text']!r} ({c['cls']}): {o}"
        if o['k'] == 'hang' or (o['k'] == 'fail' and 'Error evaluating constant' in o.get('msg', '') and c['cls'] == 'selfref'):
            if c['cls'] == 'selfref' and ck.known('KF-C17-3', what):
                continue
            ck.violation({'kind': 'parse', 'inputs': {'grammar': 's = x:/.*/ v:`{x}` ;', 'text': c['text']}, 'expected': 'the loop terminates',
                          'observed': o, 'spec': 'ConstLoop!Terminates'}, key='loop-hang' + c['cls'])
        elif o['k'] != 'ok':
            ck.violation({'kind': 'parse', 'inputs': {'grammar': 's = x:/.*/ v:`{x}` ;', 'text': c['text']}, 'expected': 'a value',
                          'observed': o, 'spec': 'ConstLoop!Final'}, key='loop-exc' + c['cls'])
        elif c['cls'] == 'unsafe' and o['v'] != repr(c['text']):
            ck.violation({'kind': 'parse', 'inputs': {'grammar': 's = x:/.*/ v:`{x}` ;', 'text': c['text']},
                          'expected': 'rejected text is left uninterpreted', 'observed': o, 'spec': 'ConstLoop!NeverEvaluatesRejected'},
                         key='loop-unsafe')
        elif want_type == 'str' and o['type'] != 'str':
            ck.violation({'kind': 'parse', 'inputs': {'grammar': 's = x:/.*/ v:`{x}` ;', 'text': c['text']}, 'expected': 'text', 'observed': o,
                          'spec': 'ConstLoop!Final'}, key='loop-type' + c['cls'])
        elif c['cls'] in ('number', 'safe') and o['type'] == 'str':
            ck.violation({'kind': 'parse', 'inputs': {'grammar': 's = x:/.*/ v:`{x}` ;', 'text': c['text']}, 'expected': 'the evaluated value',
                          'observed': o, 'spec': 'ConstLoop!Final'}, key='loop-val' + c['cls'])


def run(tier):
    ck = Check('C17', tier)
    d = tlc.scratch_dir('sandbox')
    try:
        cfg = os.path.join(d, 'se.cfg')
        open(cfg, 'w').write(f'CONSTANT Depth = {2 if tier == "quick" else 3}\nINIT Init\nNEXT Next\nINVARIANT Sandbox\nCHECK_DEADLOCK FALSE\n')
        r = tlc.run_tlc('SafeEval', cfg=cfg, timeout=3000)
        ck.add_tlc(r, 'SafeEval')
        if r.violated:
            ck.violation({'kind': 'point', 'inputs': {'spec': 'SafeEval'}, 'expected': 'Sandbox', 'observed': r.violated, 'trace': r.trace[:30]},
                         key='Sandbox')
        pts = sorted(r.res.values(), key=lambda p: p['show'])
        if tier == 'thorough':
            pts = [p for i, p in enumerate(pts) if len(p['show']) < 40 or i % 7 == ck.seed % 7]
        classes = classify_builtins()
        ck.notes['name_classes'] = {k: len(v) for k, v in classes.items()}
        ck.notes['capability_builtins'] = classes['cap']
        chunks = [{'points': pts[i:i + 12], 'classes': classes, 'sentinel_dir': d} for i in range(0, len(pts), 12)]
        res = pmap(run_sandbox_points, chunks, procs=16, chunk=1, recycle=100000)
        n = 0
        for o in res:
            n += o['n']
            for b in o['bad']:
                what = f"{b['route']}: {b['expr']} -> {b['observed']}"
                if 'FMT__' in '' or ('.format' in b['expr'] and '__' in b['expr']):
                    if ck.known('KF-C17-2', what):
                        continue
                ck.violation({'kind': 'point', 'inputs': {'expression': b['expr'], 'route': b['route'], 'grammar': b.get('grammar')},
                              'expected': ('evaluates like plain Python' if b['allowed'] else 'rejected: left as text or a semantic failure, no effect')
                              + (': ' + b['expected'] if b.get('expected') else ''),
                              'observed': b['observed'], 'spec': 'SafeEval!Policy'},
                             key=b['route'] + str(b['allowed']) + str(b.get('effect')) + str(sorted((b.get('chosen') or {}).items())))
        ck.count(evaluations=n, traces=n, nontrivial=len(pts))
        ck.sample({'shape': pts[len(pts) // 2], 'classes': {k: v[:6] for k, v in classes.items()}})
        ck.sample({'shape': pts[7]})
        const_loop(ck, d)
    finally:
        shutil.rmtree(d, ignore_errors=True)
    ck.cov['rule'] = ('every expression tree of SafeEval.tla up to depth 2 (quick) / a slice of depth 3 (thorough) x every member of each name '
                      'class in this interpreter (pure builtins with plausible arguments, all capability builtins, all types, all exceptions, '
                      'private names, unknown names, AST keys, AST keys shadowing capabilities); helper route for all, parser routes for a third')
    ck.cov['exhaustive'] = True
    ck.assumptions += ['the classification of builtins into pure / capability is the table in harness/sandbox.py (PURE); every other non-type, '
                       'non-exception builtin counts as a capability']
    return ck.finish()
