"""C01 - grammar models parse exactly as the documented PEG semantics prescribe.
TLC evaluates PegSem!Parse (layer 1) on an exhaustive small universe + seeded random grammars x all short texts;
the real compiled model is run on every case (plain parse and parse through an end-position wrapper)."""
from __future__ import annotations

import random

from .. import tlc
from ..absgrammar import (LEAVES_SMALL, Gen, all_texts, call, calls, chars_of, cut, enum_exprs, grammar, make_cfg, named, opt, pat, plus,
                          rule, seq, star,
                          alt, tok, to_ebnf)
from ..common import Check
from ..pegcheck import Jobs, compare, default_case, run_impl, run_oracle, spec_outcome

HELPERS = {'y': lambda: rule('y', seq(tok('a'), tok('b'))), 'Z': lambda: rule('Z', pat(['b'], 1, True))}


def with_helpers(e):
    used = calls(e)
    return grammar(rule('s', e), *[HELPERS[n]() for n in ('y', 'Z') if n in used])


def classify(grammars):
    """TLC pre-pass: Unspecified / left-recursive per grammar."""
    import json, os, shutil
    d = tlc.scratch_dir('unspec')
    try:
        p = os.path.join(d, 'g.json')
        json.dump(grammars, open(p, 'w'))
        r = tlc.run_tlc('PegUnspec', env={'VERIF_CASES': p}, timeout=900)
    finally:
        shutil.rmtree(d, ignore_errors=True)
    return r, [r.res[str(i + 1)] for i in range(len(grammars))]


def wrapper_chains(maxdepth=3):
    """Chains of enclosing constructs over small bodies, alone and followed by a token: the shapes Model.optimized() rewrites
    ([[e]], [{e}], ({e}), ...) and those with bodies that consume nothing yet can fail (lookaheads)."""
    import itertools
    from ..absgrammar import and_, not_, void
    bodies = [tok('a'), and_(tok('a')), not_(tok('a')), seq(tok('a'), tok('b'))]
    wraps = ['opt', 'star', 'plus', 'group', 'and', 'not']
    out = []
    for d in range(1, maxdepth + 1):
        for chain in itertools.product(wraps, repeat=d):
            if any(chain[i] == 'group' and chain[i + 1] == 'group' for i in range(d - 1)):
                continue
            for b in bodies:
                e = b
                for w in reversed(chain):
                    e = {'op': w, 'e': e}
                out.append(grammar(rule('s', seq(e, tok('b')))))
                if d < maxdepth:
                    out.append(grammar(rule('s', e)))
    return out


def universe(tier, seed):
    rnd = random.Random(1000 + seed)
    gs = wrapper_chains(3)
    for n in (0, 1):
        gs += [with_helpers(e) for e in enum_exprs(n, LEAVES_SMALL)]
    two = [with_helpers(e) for e in enum_exprs(2, LEAVES_SMALL)]
    if tier == 'quick':
        k = 9
        two = two[seed % k::k]
    gs += two
    exhaustive_n = len(gs)
    gen = Gen(rnd, full=True)
    nrand = 700 if tier == 'quick' else 12000
    cand = [gen.grammar(rnd.choice([2, 3, 3, 4] if tier == 'thorough' else [2, 3, 3])) for _ in range(nrand * 2)]
    return gs, cand, exhaustive_n, nrand


def in_override_list_scope(g):
    """KF-C01-1: a called rule whose value is a list built by an override (@+:e, or @:e with e a sequence/closure-free group of several
    items): the engine keeps that list open and splices it into the caller's sequence."""
    from ..absgrammar import subexps
    from .c02 import simple_operand
    called = set()
    for r in g['rules']:
        called |= calls(r['exp'])
    for r in g['rules']:
        if r['name'] not in called:
            continue
        for e in subexps(r['exp']):
            if e['op'] == 'ovrlist' or (e['op'] == 'ovr' and not simple_operand(e['e'])):
                return True
    return False


def expansions():
    """Grammar constructs that docs/syntax.rst defines by expansion: `>rule` (the right-hand side of the rule at this point), `x < base`
    (the base rule's right-hand side followed by the new one), `@override` (a later definition replaces the earlier one).
    -> [(source text, the expanded abstract grammar PegSem evaluates)]"""
    from ..absgrammar import ovr, ovrlist
    a, b, c = tok('a'), tok('b'), tok('c')
    out = []
    inc = seq(named('x', a), named('y', opt(b)))
    out.append(("inc = x:'a' y:['b'] ;\ns = >inc 'c' ;\n", grammar(rule('inc', inc), rule('s', seq(inc, c)))))
    out.append(("inc = 'a' | 'b' 'b' ;\ns = {>inc}+ 'c' ;\n", grammar(rule('inc', alt(a, seq(b, b))), rule('s', seq(plus(alt(a, seq(b, b))), c)))))
    out.append(("inc = 'a' ~ 'b' ;\ns = >inc 'c' | 'a' ;\n", grammar(rule('inc', seq(a, cut(), b)), rule('s', alt(seq(seq(a, cut(), b), c), a)))))
    # the cut of an included right-hand side is a cut at the place of the include: in the closure iteration, which the optional around the closure absorbs
    out.append(("inc = 'a' ~ 'b' ;\ns = [{>inc}] 'a' 'c' ;\n", grammar(rule('inc', seq(a, cut(), b)), rule('s', seq(opt(star(seq(a, cut(), b))), a, c)))))
    out.append(("inc = 'a' ~ 'b' ;\ns = [[>inc]] 'a' 'c' ;\n", grammar(rule('inc', seq(a, cut(), b)), rule('s', seq(opt(opt(seq(a, cut(), b))), a, c)))))
    out.append(("inc = @:'a' ;\ns = 'b' >inc 'c' ;\n", grammar(rule('inc', ovr(a)), rule('s', seq(b, ovr(a), c)))))
    out.append(("base = x:'a' ;\ns < base = y:'b' ;\n", grammar(rule('base', named('x', a)), rule('s', seq(named('x', a), named('y', b))))))
    out.append(("base = 'a' | 'c' ;\ns < base = {'b'} ;\n", grammar(rule('base', alt(a, c)), rule('s', seq(alt(a, c), star(b))))))
    out.append(("base = 'a' ['b'] ;\nmid < base = 'c' ;\ns = mid | base ;\n",
                grammar(rule('base', seq(a, opt(b))), rule('mid', seq(seq(a, opt(b)), c)), rule('s', alt(call('mid'), call('base'))))))
    out.append(("s = y 'c' ;\ny = 'a' ;\n@override\ny = @:'b' {@:'b'} ;\n", grammar(rule('s', seq(call('y'), c)), rule('y', seq(ovr(b), star(ovr(b)))))))
    out.append(("y = 'a' ;\n@override\ny = 'b' | 'a' 'a' ;\ns = {y} ;\n", grammar(rule('y', alt(b, seq(a, a))), rule('s', star(call('y'))))))
    return out


def run(tier):
    ck = Check('C01', tier)
    seed = ck.seed
    gs, cand, nexh, nrand = universe(tier, seed)
    # keep all specified random grammars first, then fill with unspecified ones (accept/position still checked)
    rcls, cls = classify(cand)
    ck.add_tlc(rcls, 'PegUnspec')
    spec_first = [g for g, c in zip(cand, cls) if not c['u'] and not c['lr']]
    rest = [g for g, c in zip(cand, cls) if c['u'] and not c['lr']]
    rnds = (spec_first + rest)[:nrand]
    short = all_texts(['a', 'b', ' '], 3)
    extra = [list(t) for t in ['abab', 'a b a', 'aab ', ' ab', 'bbbb', 'a  b', 'aaab', 'baba']]
    texts = short + extra
    texts_long = all_texts(['a', 'b', ' '], 4 if tier == 'quick' else 5)
    jobs, cases, allg = Jobs(), [], []
    for i, g in enumerate(gs + rnds):
        ts = texts_long if (i < nexh and len(g['rules']) == 1 and tier == 'thorough') else texts
        starts = ['s'] + ([r['name'] for r in g['rules'][1:]] if i % 3 == 0 else [])
        for st in starts:
            jobs.add(g, make_cfg(chars_of(g, ts)), ts, start=st)
            cases.append(default_case(to_ebnf(g), ts, start=st))
            allg.append(g)
    ctexts = all_texts(['a', 'b', 'c', ' '], 3) + [list(t) for t in ['a b c', 'abbc', 'a c', 'bbbc', 'aabb', 'b a c', 'a bc']]
    for src, g in expansions():
        jobs.add(g, make_cfg(chars_of(g, ctexts)), ctexts, start='s')
        cases.append(default_case(src, ctexts, start='s'))
        allg.append(g)
    # rules whose names differ only in leading / trailing underscores are different rules: tried at the same position (a later option, a
    # lookahead, a closure element) each keeps its own result
    from ..absgrammar import alt, call, grammar, opt, rule, seq, star, tok
    _a, _b = tok('a'), tok('b')
    for sib in [grammar(rule('s', alt(seq(call('y_'), _b), seq(call('y'), _a), call('y__'))),
                        rule('y', seq(_a, _a)), rule('y_', seq(_a, _b)), rule('y__', seq(_a, opt(_a)))),
                grammar(rule('s', seq(alt(call('_y'), call('y_')), star(call('y')))),
                        rule('y', alt(_a, _b)), rule('y_', seq(_b, _a)), rule('_y', seq(_a, _b, _b))),
                grammar(rule('s', alt(seq(call('y'), _b, _b), seq(call('y_'), _b), call('_y'))),
                        rule('y', _a), rule('y_', seq(_a, opt(_a))), rule('_y', star(alt(_a, _b)))),
                grammar(rule('s', seq({'op': 'and', 'e': call('y_')}, call('y'), star(call('_y')))),
                        rule('y', seq(_a, opt(_b))), rule('y_', _a), rule('_y', alt(_a, _b)))]:
        jobs.add(sib, make_cfg(chars_of(sib, texts)), texts, start='s')
        cases.append(default_case(to_ebnf(sib), texts, start='s'))
        allg.append(sib)
    # patterns with two groups: docs/syntax.rst gives the AST "the semantics of re.findall(pattern, text)[0] (a tuple if there is more than
    # one group)"
    from ..absgrammar import named, pat
    two = pat(['a'], 1, True, cls2=['b'], mn2=0, many2=True)          # /(a+)([b]*)/
    two1 = pat(['a'], 1, False, cls2=['b'], mn2=1, many2=False)       # /(a)(b)/
    for pg in [grammar(rule('s', two)), grammar(rule('s', seq(two1, opt(_a)))), grammar(rule('s', seq(named('x', two), star(_b)))),
               grammar(rule('s', star(two1))), grammar(rule('s', alt(seq(two, _a), two1)))]:
        jobs.add(pg, make_cfg(chars_of(pg, texts)), texts, start='s')
        cases.append(default_case(to_ebnf(pg), texts, start='s', twogroups=True))
        allg.append(pg)
    # the cut is part of the core language: a slice of C05's placement universe (a cut at every position of every sequence of
    # choice / optional / closure / join skeletons), with the texts that fail right after each cut
    from .c05 import universe as cut_universe
    cutitems = cut_universe('quick')
    kcut = 3 if tier == 'quick' else 1
    ncut = 0
    for it in cutitems[seed % kcut::kcut]:
        ts = [t for t in it['texts'] if len(t) <= 4]
        jobs.add(it['g'], make_cfg(chars_of(it['g'], ts), nameguard=False), ts, start='s')
        cases.append(default_case(to_ebnf(it['g']), ts, start='s', settings={'nameguard': False}))
        allg.append(it['g'])
        ncut += 1
    r, spec = run_oracle(jobs, timeout=3000)
    ck.add_tlc(r, 'PegSemBatch')
    impl = run_impl(cases)
    nontrivial = set()
    nvalue = 0
    for j, (c, im) in enumerate(zip(cases, impl), 1):
        if im['compile']['k'] != 'ok':
            ck.violation({'kind': 'parse', 'inputs': {'grammar': c['ebnf']}, 'expected': 'grammar compiles',
                          'observed': im['compile'], 'spec': 'PegGrammar (every enumerated grammar is well formed)'},
                         key='compile' + c['ebnf'])
            continue
        for t, (s, ir) in enumerate(zip(spec[j], im['res'])):
            so = spec_outcome(s)
            ck.count(evaluations=1, traces=1)
            if so['k'] == 'ok' and not so['unspec']:
                nvalue += 1
                nontrivial.add((j, repr(so['v'])))
            why = compare(so, ir)
            if t == 7 and j % 400 == 1:
                ck.sample({'grammar': c['ebnf'], 'start': c['start'], 'text': c['texts'][t], 'spec': so, 'impl': ir})
            if why and why.startswith('value') and in_override_list_scope(allg[j - 1]) \
                    and ck.known('KF-C01-1', f"{c['ebnf'].strip()} on {c['texts'][t]!r}"):
                continue
            if why and why.startswith('value') and c.get('twogroups') \
                    and ck.known('KF-C01-2', f"{c['ebnf'].strip()} on {c['texts'][t]!r}"):
                continue
            if why:
                ck.violation({'kind': 'parse', 'inputs': {'grammar': c['ebnf'], 'text': c['texts'][t], 'start': c['start']},
                              'expected': so, 'observed': ir, 'why': why, 'spec': 'PegSem!Parse'},
                             key=c['ebnf'] + why.split(':')[0])
    # code -> spec: executions of the real engine on a slice of the same universe, validated event by event against PegMachine
    from ..pegcheck import trace_validate
    tcases = []
    step = 9 if tier == 'quick' else 2
    for i, g in enumerate((gs + rnds)[seed % step::step]):
        ts = [''.join(t) for t in texts][:: (3 if tier == 'quick' else 1)]
        tcases.append({'ebnf': to_ebnf(g), 'g': g, 'cfg': make_cfg(chars_of(g, texts)), 'texts': ts})
    trace_validate(ck, tcases, label='C01 universe')
    # ... and the executions the repository's own tests perform (arbitrary real grammars: regexes and whitespace through oracle tables,
    # semantic actions through recorded act events)
    from ..suitetraces import suite_part
    suite_part(ck, tier, 'model', 'test-suite parses (model interpreter)')
    ck.cov['distinct_nontrivial'] = len(nontrivial)
    ck.cov['exhaustive'] = tier == 'thorough'
    ck.cov['rule'] = ('grammars: every expression with <=1 operator node over 9 leaves, '
                      + ('every' if tier == 'thorough' else 'every 9th') + ' expression with 2 operator nodes, plus '
                      f'{len(rnds)} seeded random grammars (depth<=3-4, full core language); texts: all strings over '
                      '{a,b,space} up to length 3 (+8 longer; up to 5 for one-rule grammars in thorough); a slice of the cut-placement universe of C05; '
                      'non-trivial = accepted case on a specified shape with a distinct (grammar, AST)')
    ck.notes.update({'cut_placement_grammars': ncut, 'grammars': len(gs) + len(rnds), 'exhaustive_grammars': nexh, 'random_grammars': len(rnds),
                     'value_checked_cases': nvalue, 'jobs': len(cases)})
    ck.assumptions += ['Python re is trusted for catalogue patterns', 'shapes listed in spec/UNSPECIFIED.md: accept/reject and '
                       'end position are checked, the AST value is not']
    return ck.finish()
