"""C16 - left recursion is detected exactly, and never causes unbounded recursion.
spec/LeftRec.tla evaluates the left-call relation of PegGrammar (Nullable, LeftCalls, OnLeftCycle) on EVERY rule graph whose bodies are
one or two options of the form [prefix] target (prefix in {none, ['x'], {'x'}}, target a token or a rule call): all 2-rule grammars in
the quick tier, 3-rule grammars in the thorough tier.  Each grammar is compiled with @@left_recursion :: False (GrammarError <=> some
rule on a left cycle), and with left recursion on the marks are read back (rules on no cycle stay memoized and unmarked; every cycle has
a leader) and a battery of short inputs is parsed under a recursion limit and a wall-clock guard."""
from __future__ import annotations

import itertools
import json
import os
import shutil

from .. import tlc
from ..absgrammar import alt, call, eof, grammar, join, opt, plus, rule, seq, star, subexps, tok, to_ebnf, zwpat
from ..common import Check, pmap


def options(names):
    prefixes = [None, opt(tok('x')), star(tok('x')), plus(tok('x')), call('n'),      # n = ['x'] : a rule that can match empty
                # positive joins / gathers: able to match empty exactly when their ELEMENT is (the separator plays no part)
                join(tok(','), opt(tok('x')), True, True), join(tok(','), tok('x'), True, True), join(opt(tok(',')), tok('x'), True, False),
                join(tok(','), opt(tok('x')), True, False), plus(opt(tok('x'))),
                eof(),                                  # $ consumes nothing: what follows it is still at the rule's own start position
                # patterns that can only match the empty string - and do not match it on the EMPTY text, which is what the analysis asked
                zwpat('\\b'), zwpat('(?=y)')]
    targets = [tok('y')] + [call(n) for n in names]
    out = []
    for p in prefixes:
        for t in targets:
            out.append(seq(p, t) if p else seq(t))
    return out


def bodies(names):
    opts = options(names)
    out = [o for o in opts]
    for a, b in itertools.product(opts, repeat=2):
        if a is not b:
            out.append(alt(a, b))
    return out


def with_n(*rules):
    used = any(e['op'] == 'call' and e['name'] == 'n' for r in rules for e in subexps(r['exp']))
    return grammar(*rules, *([rule('n', opt(tok('x')))] if used else []))


def universe(tier, seed):
    gs = []
    names = ['a', 'b']
    B = bodies(names)
    for x, y in itertools.product(B, repeat=2):
        gs.append(with_n(rule('a', x), rule('b', y)))
    # (10 prefixes x 3 targets -> 900 bodies -> 810 000 two-rule grammars: a deterministic slice in both tiers, 1/45 of them in thorough)
    k2 = max(28, len(gs) // 2600) if tier == 'quick' else max(1, len(gs) // 120000)
    gs = gs[seed % k2::k2]
    # one-rule grammars: exhaustive in both tiers
    for x in bodies(['a']):
        gs.append(with_n(rule('a', x)))
    # name sensitivity (KF-C03-1 shows names matter): the same graphs with the names swapped are in the universe by construction;
    # three-rule graphs: a deterministic sample in quick, a large one in thorough
    names3 = ['a', 'b', 'c']
    B3 = bodies(names3)
    n3 = len(B3) ** 3
    step = n3 // 640 + 1 if tier == 'quick' else n3 // 32000 + 1
    for k in range(seed % step, n3, step):
        i, r = divmod(k, len(B3) ** 2)
        j, l = divmod(r, len(B3))
        gs.append(with_n(rule('a', B3[i]), rule('b', B3[j]), rule('c', B3[l])))
    # interlocking cycles, exhaustively: every rule of a, b, c starts alternatives with any subset of {a, b, c} (itself included) and ends
    # with the terminal alternative - among them the components in which no rule lies on every cycle (each of the three starts with the
    # other two), where one leader cannot guard all cycles
    subsets = [[n for n, bit in zip(names3, (4, 2, 1)) if m & bit] for m in range(8)]
    for sa, sb, sc in itertools.product(subsets, repeat=3):
        if not (sa or sb or sc):
            continue
        mk = lambda ns, post: alt(*[seq(call(n), tok(post)) if post else seq(call(n)) for n in ns], seq(tok('y')))     # noqa: E731
        gs.append(with_n(rule('a', mk(sa, None)), rule('b', mk(sb, None)), rule('c', mk(sc, None))))
        if len(sa) + len(sb) + len(sc) >= 4 and tier != 'quick' or (len(sa), len(sb), len(sc)) == (2, 2, 2):
            gs.append(with_n(rule('a', mk(sa, 'x')), rule('b', mk(sb, ',')), rule('c', mk(sc, 'y'))))
    return gs


def run_lr_case(case):
    import signal
    import sys
    import tatsu
    from tatsu.exceptions import FailedParse, GrammarError
    from ..impl import clear_caches
    sys.setrecursionlimit(2000)
    out = []

    class TO(BaseException):
        pass

    def h(*a):
        raise TO()
    signal.signal(signal.SIGALRM, h)
    for ebnf in case['ebnfs']:
        clear_caches()
        r = {}
        try:
            tatsu.compile('@@left_recursion :: False\n' + ebnf)
            r['off'] = 'compiled'
        except GrammarError:
            r['off'] = 'GrammarError'
        except Exception as e:  # noqa: BLE001
            r['off'] = f'{type(e).__name__}: {e}'[:120]
        try:
            m = tatsu.compile(ebnf)
            r['marks'] = {x.name: [bool(x.is_lrec), bool(x.is_memo)] for x in m.rules}
            res = {}
            for text in case['battery']:
                signal.alarm(10)
                try:
                    m.parse(text)
                    res[text] = 'ok'
                except FailedParse as e:
                    # (a parse that ran out of stack is reported by the engine as a parse failure: here it is what it is)
                    res[text] = 'RecursionError' if 'recursion limit exceeded' in str(getattr(e, 'msg', '')) else 'fail'
                except RecursionError:
                    res[text] = 'RecursionError'
                except TO:
                    res[text] = 'timeout'
                except Exception as e:  # noqa: BLE001
                    res[text] = f'{type(e).__name__}'
                finally:
                    signal.alarm(0)
            r['battery'] = res
        except Exception as e:  # noqa: BLE001
            r['on'] = f'{type(e).__name__}: {e}'[:120]
        out.append(r)
    return out


BATTERY = ['', 'y', 'xy', 'yy', 'x y y', 'y x y', 'x', 'y y y', 'x x y', ', y', 'x , x y', 'x , y', ',', 'x x , y']


def guard_family(ck, tier):
    """Cycles hidden behind a call to a rule that can match empty are bounded at run time by a guard entry in the memo table.  A cut
    prunes memo entries: the guards must survive it.  PegMachine keeps them (Leaf "cut": guard entries are not pruned); the real engine
    must agree with the machine on grammars where a cut that does not commit the rule's own choice is reached before the hidden cycle."""
    import itertools
    from ..absgrammar import all_texts, alt, and_, call, chars_of, cut, grammar, group, make_cfg, opt, rule, seq, star, to_ebnf, tok
    from ..impl import run_model_case
    from ..pegcheck import Jobs, default_case, machine_vs_impl, run_impl, run_machine, with_marks
    x, q, z, y, w = tok('x'), tok('q'), tok('z'), tok('y'), tok('w')
    variants = {
        'cut in optional': (seq(opt(seq(x, cut(), q)), z), []),
        'cut in closure': (seq(star(seq(x, cut(), q)), z), []),
        'cut in lookahead': (seq(and_(seq(x, cut())), q), []),
        'cut in group choice': (seq(group(alt(seq(x, cut(), q), q)), z), []),
        'cut in called rule': (seq(call('b'), z), [rule('b', seq(x, cut(), q))]),
        'cut in optional call': (seq(opt(call('b')), z), [rule('b', seq(x, cut(), q))]),
    }
    texts = all_texts(['x', 'q', 'z', 'y', 'w'], 2 if tier == 'quick' else 3) + [list('xqz'), list('xy'), list('wxy'), list('xqzy')]
    gs, labels = [], []
    for (name, (first, extra)), hidden in itertools.product(variants.items(), ('seq', 'opt')):
        e_rule = rule('e', opt(w)) if hidden == 'opt' else rule('e', star(w))
        g = grammar(rule('a', alt(first, seq(call('e'), call('a'), y), x)), e_rule, *extra)
        gs.append(g)
        labels.append(f'{name} / nullable rule by {hidden}')
    marked = with_marks(gs)
    jobs, cases = Jobs(), []
    for g0, g in zip(gs, marked):
        cfg = make_cfg(chars_of(g, texts), nameguard=False)
        cfg.update({'maxmiss': 1, 'prune': True, 'memoize': True})
        jobs.add(g, cfg, texts, start='a')
        cases.append(default_case(to_ebnf(g0), texts, settings={'nameguard': False}, start='a', wrap=False, timeout=20, reclimit=1500))
    r, mach = run_machine(jobs)
    ck.add_tlc(r, 'PegMachineMC (left-recursion guards under cuts)')
    if r.violated:
        ck.violation({'kind': 'schedule', 'inputs': {'spec': 'PegMachineMC'}, 'expected': 'Refines, FramesBalanced, StepBound, CutContained',
                      'observed': r.violated, 'trace': r.trace[:60]}, key='machine' + str(r.violated))
        return
    impl = run_impl(cases, fn=run_model_case, chunk=1)
    n = 0
    for j, (c, im, lab) in enumerate(zip(cases, impl, labels), 1):
        if im['compile']['k'] != 'ok':
            ck.violation({'kind': 'parse', 'inputs': {'grammar': c['ebnf']}, 'expected': 'compiles', 'observed': im['compile']}, key='gcomp' + c['ebnf'])
            continue
        for t, ir in enumerate(im['res'], 1):
            n += 1
            why = machine_vs_impl(mach[j][t], ir['plain'])
            if why or ir['plain'].get('k') == 'exc':
                ck.violation({'kind': 'parse', 'inputs': {'grammar': c['ebnf'], 'text': ''.join(c['texts'][t - 1]), 'family': lab},
                              'expected': mach[j][t]['r'], 'observed': ir['plain'],
                              'why': why or 'foreign exception (unbounded recursion?)', 'spec': 'PegMachine (guard entries survive cuts)'},
                             key='guard' + c['ebnf'])
    ck.count(evaluations=n, traces=n)
    ck.notes['guard_family_cases'] = n


def expansion_part(ck):
    """Constructs the documentation defines by expansion (`>rule`, `name < base`): the left-call relation is that of the EXPANDED
    grammar (PegGrammar evaluates the expansion; the real analysis gets the source text)."""
    x, y, z, q = tok('x'), tok('y'), tok('z'), tok('q')
    items = [
        # a reaches itself through the included body of b
        ("start = a $ ;\nb = a 'y' | 'z' ;\na = >b 'x' ;\n",
         grammar(rule('start', seq(call('a'), eof())), rule('b', alt(seq(call('a'), y), z)), rule('a', seq(alt(seq(call('a'), y), z), x)))),
        ("start = a $ ;\nb = 'z' | 'y' ;\na = >b 'x' ;\n",
         grammar(rule('start', seq(call('a'), eof())), rule('b', alt(z, y)), rule('a', seq(alt(z, y), x)))),
        # d = (d 'x' | 'q') 'y' through its base rule
        ("start = d $ ;\nbase = d 'x' | 'q' ;\nd < base = 'y' ;\n",
         grammar(rule('start', seq(call('d'), eof())), rule('base', alt(seq(call('d'), x), q)), rule('d', seq(alt(seq(call('d'), x), q), y)))),
        ("start = d $ ;\nbase = 'x' | 'q' ;\nd < base = 'y' ;\n",
         grammar(rule('start', seq(call('d'), eof())), rule('base', alt(x, q)), rule('d', seq(alt(x, q), y)))),
    ]
    d = tlc.scratch_dir('leftrecx')
    try:
        p = os.path.join(d, 'g.json')
        json.dump([g for _src, g in items], open(p, 'w'))
        r = tlc.run_tlc('LeftRec', env={'VERIF_CASES': p}, timeout=600)
    finally:
        shutil.rmtree(d, ignore_errors=True)
    ck.add_tlc(r, 'LeftRec (expansions)')
    battery = ['', 'z x', 'z y x', 'z x y x', 'q y', 'q x y', 'q y x y', 'x y']
    res = pmap(run_lr_case, [{'ebnfs': ['@@nameguard :: False\n' + src for src, _g in items], 'battery': battery}], procs=1)[0]
    for k, ((src, _g), o) in enumerate(zip(items, res), 1):
        lr = set(r.res[str(k)]['lr'] if isinstance(r.res[str(k)]['lr'], list) else [])
        ck.count(evaluations=1 + len(battery), traces=1 + len(battery), nontrivial=1 if lr else 0)
        want_off = 'GrammarError' if lr else 'compiled'
        if o.get('off') != want_off:
            ck.violation({'kind': 'parse', 'inputs': {'grammar': src}, 'expected': want_off, 'observed': o.get('off'),
                          'why': 'compile with left recursion off (the left-call relation of the expanded grammar: ' + str(sorted(lr)) + ')',
                          'spec': 'LeftRec / PegGrammar!OnLeftCycle over the documented expansion'}, key='xoff' + src)
        for text, out in (o.get('battery') or {}).items():
            if out not in ('ok', 'fail'):
                ck.violation({'kind': 'parse', 'inputs': {'grammar': src, 'text': text}, 'expected': 'a result or a parse failure', 'observed': out,
                              'why': f'parsing {text!r}: {out}', 'spec': 'LeftRec (expansions)'}, key='xbat' + src + out)


OPT_PUBLISH_PROBE = r'''
import json, sys, threading
sys.setrecursionlimit(1500)
import tatsu
import tatsu.peg.base as base
GS = {'expr': ("start = e $ ;\ne = e '+' t | t ;\nt = t '*' f | f ;\nf = /\\d+/ ;\n", '1+2*3+4'),
      'indirect': ("start = x $ ;\nx = s | n ;\ns = x '+' n ;\nn = /\\d+/ ;\n", '1+2+3'),
      'plain': ("start = {n}+ $ ;\nn = /\\d+/ ;\n", '1 2 3')}
out = []
for gname, (g, text) in GS.items():
    in_analysis, resume = threading.Event(), threading.Event()
    tl = threading.local()
    real_init = base.Grammar.initialize

    def initialize(self, *a, **k):
        if getattr(tl, 'pause', False):
            tl.pause = False
            in_analysis.set()
            resume.wait(6)
        return real_init(self, *a, **k)
    base.Grammar.initialize = initialize
    try:
        model = tatsu.compile(g, name='OP' + gname)
        want = repr(tatsu.compile(g, name='OPref' + gname).parse(text))
        res = {}

        def run(name, pause):
            tl.pause = pause
            try:
                res[name] = repr(model.parse(text))
            except BaseException as e:
                res[name] = type(e).__name__
        t1 = threading.Thread(target=run, args=('t1', True))
        t1.start()
        reached = in_analysis.wait(6)
        t2 = threading.Thread(target=run, args=('t2', False))
        t2.start()
        t2.join(1.2)
        t2_left_during_analysis = not t2.is_alive()
        resume.set()
        t1.join(30)
        t2.join(30)
        run('later', False)
        out.append({'g': gname, 'grammar': g, 'text': text, 'want': want, 'thread1_reached_analysis': reached,
                    'thread2_returned_while_thread1_analysed': t2_left_during_analysis, 'res': res})
    finally:
        base.Grammar.initialize = real_init
print(json.dumps(out))
'''


def opt_publish(ck):
    """spec/OptPublish.tla: the order of copy / analyse / publish / release in Grammar.optimized().  TLC proves AnalysedBeforeUse for the order
    of the code and refutes it for 'publish and release, then analyse'; the refuting behaviour (thread 1 inside the analysis, thread 2 entering
    optimized()) is forced onto the real code in a fresh interpreter: thread 2 must not come back before the analysis has finished, and every
    parse - both threads', and a later one - gives the sequential result."""
    import json
    import os
    import subprocess
    import sys
    r1 = tlc.run_tlc('OptPublish', cfg='OptPublish', workers=2, timeout=300)
    ck.add_tlc(r1, 'OptPublish (copy, analyse, publish, release: the order of the code)')
    if r1.violated:
        ck.violation({'kind': 'schedule', 'inputs': {'spec': 'OptPublish'}, 'expected': 'AnalysedBeforeUse, BuiltOnce, Finishes', 'observed': r1.violated,
                      'trace': r1.trace[:30], 'spec': 'OptPublish!' + str(r1.violated)}, key='optpublish' + str(r1.violated))
    r2 = tlc.run_tlc('OptPublish', cfg='OptPublishEarly', workers=2, timeout=300)
    ck.notes['publish_before_analysis_refuted_by'] = r2.violated
    if r2.violated != 'AnalysedBeforeUse':
        raise tlc.MachineryError(f'OptPublish: the early-publication order is not refuted by AnalysedBeforeUse ({r2.violated})')
    p = subprocess.run([sys.executable, '-c', OPT_PUBLISH_PROBE], env=dict(os.environ), capture_output=True, text=True, timeout=600)
    try:
        rows = json.loads(p.stdout.strip().splitlines()[-1])
    except Exception:  # noqa: BLE001
        raise tlc.MachineryError('OptPublish probe did not run: ' + (p.stdout + p.stderr)[-600:])
    for r in rows:
        ck.count(evaluations=3, traces=3, nontrivial=1)
        if not r['thread1_reached_analysis']:
            raise tlc.MachineryError(f"OptPublish probe: thread 1 never reached the analysis of the optimized copy ({r['g']})")
        why = None
        if r['thread2_returned_while_thread1_analysed']:
            why = 'thread 2 left optimized() - and parsed - while thread 1 was still inside the analysis of the optimized copy (OptPublish: got = "raw")'
        elif any(v != r['want'] for v in r['res'].values()):
            why = 'a parse with the model whose first two parses overlapped does not give the sequential result'
        if why:
            ck.violation({'kind': 'schedule', 'inputs': {'grammar': r['grammar'], 'text': r['text'],
                                                         'schedule': 'Read(1) Lock(1) Copy(1) [thread 1 held at the start of the analysis] Read(2) ...'},
                          'expected': {'every parse': r['want'], 'thread 2 waits for the analysis': True},
                          'observed': {'results': r['res'], 'thread 2 returned during the analysis': r['thread2_returned_while_thread1_analysed']},
                          'why': why, 'spec': 'OptPublish!AnalysedBeforeUse'}, key='optpublish' + r['g'])
    ck.notes['opt_publish_forced_schedules'] = len(rows)


def run(tier):
    ck = Check('C16', tier)
    opt_publish(ck)
    expansion_part(ck)
    gs = universe(tier, ck.seed)
    d = tlc.scratch_dir('leftrec')
    try:
        p = os.path.join(d, 'g.json')
        json.dump(gs, open(p, 'w'))
        r = tlc.run_tlc('LeftRec', env={'VERIF_CASES': p}, timeout=3000)
    finally:
        shutil.rmtree(d, ignore_errors=True)
    ck.add_tlc(r, 'LeftRec')
    if r.violated:
        ck.violation({'kind': 'point', 'inputs': {'spec': 'LeftRec'}, 'expected': 'Laws', 'observed': r.violated, 'trace': r.trace[:30]}, key='Laws')
    spec = [r.res[str(i + 1)] for i in range(len(gs))]
    ebnfs = [to_ebnf(g) for g in gs]
    chunks = [{'ebnfs': ebnfs[i:i + 40], 'battery': BATTERY} for i in range(0, len(ebnfs), 40)]
    res = [x for ch in pmap(run_lr_case, chunks, procs=16, chunk=1, recycle=6) for x in ch]
    nlr = 0
    for g, e, s, o in zip(gs, ebnfs, spec, res):
        lr = set(s['lr'] if isinstance(s['lr'], list) else [])
        ck.count(evaluations=1 + len(BATTERY), traces=1 + len(BATTERY), nontrivial=1 if lr else 0)
        nlr += bool(lr)
        if len(ck.cov['samples']) < 4 and len(lr) == 2 and 'marks' in o:
            ck.sample({'grammar': e, 'spec': s, 'impl': o})

        def bad(why, expected, observed, key):
            ck.violation({'kind': 'parse', 'inputs': {'grammar': e}, 'expected': expected, 'observed': observed, 'why': why,
                          'spec': 'LeftRec / PegGrammar!OnLeftCycle'}, key=key)
        want_off = 'GrammarError' if lr else 'compiled'
        proviso = any(r_['name'] == 'n' for r_ in g['rules'])      # a call to a rule that can match empty sits in a prefix
        if o.get('off') != want_off and not proviso:
            bad('compile with left recursion off', want_off, o.get('off'), 'off' + want_off)
        if 'marks' not in o:
            bad('compile with left recursion on', 'compiles', o.get('on'), 'on')
            continue
        for name, (is_lrec, is_memo) in o['marks'].items():
            if name not in lr and (is_lrec or not is_memo) and not proviso:
                bad(f'rule {name} lies on no left cycle but is_lrec={is_lrec} is_memo={is_memo}', 'memoized, not left recursive',
                    o['marks'], 'marks-nolr')
        sccs = [set(c) for c in (s['sccs'] if isinstance(s['sccs'], list) else [])]
        for comp in sccs:
            if not any(o['marks'][n][0] for n in comp):
                bad(f'left cycle component {sorted(comp)} has no recursion leader', 'some rule marked', o['marks'], 'marks-noleader')
        for text, out in o['battery'].items():
            if out in ('RecursionError', 'timeout') or out not in ('ok', 'fail'):
                what = f"{e.strip()} on {text!r}: {out}"
                # KF-C16-1: a component with several cycles that share no rule gets a single leader; the other cycles recurse unguarded
                edges = s['edges']
                selfloops = [n for n in lr if n in (edges.get(n) or [])]
                multi = any(len(c) > 1 for c in sccs) and len(selfloops) >= 1
                if multi and out == 'RecursionError' and ck.known('KF-C16-1', what):
                    continue
                if proviso and lr and out == 'RecursionError' and ck.known('KF-C16-2', what):
                    continue
                bad(f'parsing {text!r}: {out}', 'a result or a parse failure', out, 'battery' + out)
    guard_family(ck, tier)
    ck.notes['grammars'] = len(gs)
    ck.notes['left_recursive_grammars'] = nlr
    ck.cov['rule'] = (f'{len(gs)} rule graphs: ' + 'all 1-rule grammars, ' + ('every 28th' if tier == 'quick' else 'all') + ' 2-rule grammars whose bodies are 1-2 options '
                      '[prefix] target (prefix none / optional / closure / positive closure / call of a nullable rule, target token or call) plus a deterministic sample of the 3-rule '
                      'grammars; each with left recursion off and on, marks read back, battery of 8 short inputs; non-trivial = grammar with a left cycle')
    ck.cov['exhaustive'] = tier == 'thorough'
    return ck.finish()
