"""C06 - semantic actions receive each rule's AST and their result replaces it.
PegSem carries the action family as the behaviour constant Cfg.act (identity, tagging, failing on a predicate -> FailedSemantics,
raising -> Raise(X)); TLC evaluates it for every (grammar, text); the real model and the generated parser are run with concrete
semantics objects of the same family and compared (value flow, alternatives after FailedSemantics, exception identity,
declared parameters, @nomemo call counts)."""
from __future__ import annotations

import itertools
import random

from ..absgrammar import (Gen, all_texts, alt, call, calls, chars_of, dot, grammar, group, make_cfg, named, opt, pat, rule, seq,
                          star, tok, to_ebnf)
from ..common import Check
from ..impl import SEM_KINDS, run_sem_case
from ..pegcheck import Jobs, default_case, run_impl, run_oracle, spec_outcome

# the tagging semantics in objects whose own truth value / hashability / equality must play no part (SemIdentity: the actions that
# run are those of the object given to the call); '/api' = through tatsu.parse(grammar, text, semantics=...)
OBJECT_SHAPES = ['tag/falsy', 'tag/unhashable', 'tag/equal', 'tag/falsy/api']
# an action that returns its argument as a plain Python list (when it is a list) is indistinguishable from no semantics
LISTY = ['tolist']

SPEC_ACT = {'none': 'none', 'id': 'id', 'tag': 'tag', 'tagdefault': 'tag', 'failb': 'failb'}


def untag_names(v):
    """tagdefault cannot know rule names: compare modulo the tag's name."""
    if isinstance(v, dict):
        if '__tag__' in v:
            return {'__tag__': '?', 'v': untag_names(v['v'])}
        return {k: untag_names(x) for k, x in v.items()}
    if isinstance(v, list):
        return [untag_names(x) for x in v]
    return v


def universe(tier, seed):
    rnd = random.Random(6000 + seed)
    items = []
    ry = lambda nomemo=False: rule('y', alt(tok('b'), seq(tok('a'), tok('b'))), nomemo=nomemo)   # noqa: E731
    rz = lambda nomemo=False: rule('Z', named('z', pat(['a', 'b'], 1, False)), nomemo=nomemo)    # noqa: E731
    pool = [call('y'), call('Z'), tok('a'), tok('b'), pat(['a', 'b'], 1, False), dot()]
    fam = []
    for X, Y in itertools.permutations(pool, 2):
        if 'call' not in (X['op'], Y['op']):
            continue
        fam.append(star(alt(X, Y)))
        fam.append(seq(group(alt(X, Y)), opt(call('y'))))
        fam.append(alt(seq(X, tok('a')), seq(X, tok('b')), Y))        # the same rule retried at the same position
    sg = Gen(rnd, toks=('a', 'b'), rules=('y', 'Z', 'y', 'Z'), full=False)
    fam += [sg.exp(rnd.choice([2, 3])) for _ in range(60 if tier == 'quick' else 1500)]
    texts = all_texts(['a', 'b'], 3 if tier == 'quick' else 4)
    for i, e in enumerate(fam):
        used = calls(e)
        for nomemo in ((False, True) if i % 2 == 0 else (False,)):
            g = grammar(rule('s', e), *([ry(nomemo)] if 'y' in used else []), *([rz(nomemo)] if 'Z' in used else []))
            items.append({'g': g, 'texts': texts, 'label': 'nomemo' if nomemo else 'plain', 'nomemo': nomemo})
    # declared parameters reach the action
    gp = grammar(rule('s', seq(call('y'), opt(call('y')))), rule('y', alt(tok('a'), tok('b')), params=['T', '1']))
    items.append({'g': gp, 'texts': texts, 'label': 'params', 'nomemo': False, 'params': {'y': ['T', '1']}})
    # a left-recursive rule: the value an action returns (also a plain list) is the seed of the next growth round, as ONE element
    from ..absgrammar import eof
    glr = grammar(rule('s', seq(call('y'), eof())), rule('y', alt(seq(call('y'), tok('b'), call('Z')), call('Z'))), rule('Z', tok('a')))
    items.append({'g': glr, 'texts': all_texts(['a', 'b'], 5), 'label': 'leftrec', 'nomemo': False})
    # a rule (and its action) named like a Python builtin: the declared parameters reach the action all the same
    gp3 = grammar(rule('s', seq(call('hex'), opt(call('hex')))), rule('hex', alt(tok('a'), tok('b')), params=['T', '16']))
    items.append({'g': gp3, 'texts': texts, 'label': 'params', 'nomemo': False, 'params': {'hex': ['T', '16']}})
    # a rule's type and base classes ARE its declared parameter (name::Type::Base is the parameter 'Type::Base')
    gp2 = grammar(rule('s', seq(call('y'), opt(call('y')))), rule('y', alt(tok('a'), tok('b')), typ=['Foo', 'Bar']))
    items.append({'g': gp2, 'texts': texts, 'label': 'params', 'nomemo': False, 'params': {'y': ['Foo::Bar']}})
    return items


def run(tier):
    ck = Check('C06', tier)
    items = universe(tier, ck.seed)
    kinds = list(SEM_KINDS) + ['id/memo-off', 'failfirst', 'failfirst/memo-off'] + OBJECT_SHAPES + LISTY + ['tag/compiled-twice', 'tag/assigned-late', 'iddefault']
    jobs, jobkey, cases = Jobs(), [], []
    for it in items:
        rules = [r['name'] for r in it['g']['rules']]
        for act in ('none', 'tag', 'failb', 'raise'):
            cfg = make_cfg(chars_of(it['g'], it['texts']), nameguard=False, act=act, actrule='*')
            jobkey.append((len(cases), act))
            jobs.add(it['g'], cfg, it['texts'])
        from .c02 import in_define_scope, in_lastnode_scope
        c02scope = in_lastnode_scope(it['g']) or in_define_scope(it['g'])     # value binding of generated code: C02's known findings
        for backend in ('model', 'generated'):
            cases.append(default_case(to_ebnf(it['g']), it['texts'], settings={'nameguard': False}, rules=rules, kinds=kinds,
                                      backend=backend, params=it.get('params'), label=it['label'], nomemo=it['nomemo'],
                                      c02scope=c02scope, reuse_kinds=['none', 'tag', 'failb', 'tagdefault', 'none', 'id']))
    r, spec = run_oracle(jobs)
    ck.add_tlc(r, 'PegSemBatch')
    # spec results per item: {act: [outcome per text]}
    byitem = {}
    for j, (ci, act) in enumerate(jobkey, 1):
        byitem.setdefault(ci // 1, {})
    per = {}
    for j, (ci, act) in enumerate(jobkey, 1):
        per.setdefault(ci, {})[act] = [spec_outcome(s) for s in spec[j]]
    impl = run_impl(cases, fn=run_sem_case, chunk=2)
    # PegMachine (model flavour / generated-parser flavour) with the tagging and the failing action, under memo schedules with up to 2
    # forced misses (an evicted entry means the action runs again): Refines for the model flavour, and the machine's outcome is the
    # expectation for BOTH back-ends on ALL shapes - also those the PegSem comparison below has to leave to C02
    from ..pegcheck import machine_vs_impl, run_machine, with_marks
    marked = with_marks([it['g'] for it in items])
    mjobs, mkey = Jobs(), []
    for ii, (it, g) in enumerate(zip(items, marked)):
        for act in ('tag', 'failb'):
            for backend in ('model', 'gen'):
                mcfg = make_cfg(chars_of(g, it['texts']), nameguard=False, act=act, actrule='*')
                mcfg.update({'backend': backend, 'maxmiss': 2 if backend == 'model' else 0, 'prune': True, 'memoize': True})
                mjobs.add(g, mcfg, it['texts'])
                mkey.append((ii, act, backend))
    rm, mach = run_machine(mjobs)
    ck.add_tlc(rm, 'PegMachineMC (actions x memo schedules x both flavours)')
    if rm.violated:
        ck.violation({'kind': 'schedule', 'inputs': {'spec': 'PegMachineMC'}, 'expected': 'Refines, FramesBalanced, StepBound, CutContained',
                      'observed': rm.violated, 'trace': [ln for ln in rm.trace if not ln.startswith('"RES')][:200]}, key='machine' + str(rm.violated))
        return ck.finish()
    nmach = 0
    for mj, (ii, act, backend) in enumerate(mkey, 1):
        ci = 2 * ii + (0 if backend == 'model' else 1)
        im, c = impl[ci], cases[ci]
        if im['compile']['k'] != 'ok':
            continue
        for t, res in enumerate(im['res'], 1):
            if act not in res or t not in mach.get(mj, {}):
                continue
            nmach += 1
            whym = machine_vs_impl(mach[mj][t], res[act])
            if whym:
                ck.violation({'kind': 'parse', 'inputs': {'grammar': c['ebnf'], 'text': c['texts'][t - 1], 'backend': c['backend'], 'semantics': act},
                              'expected': mach[mj][t]['r'], 'observed': res[act], 'why': 'departs from PegMachine: ' + whym,
                              'spec': f'PegMachine (flavour {backend}, Cfg.act = {act})'}, key='mach' + c['ebnf'] + backend + act)
    ck.count(evaluations=nmach, traces=nmach)
    ck.notes['machine_cases'] = nmach
    # history counters on the machine (spec/PegMachineObs.tla): the action of a (position, rule) never runs more often than its body is
    # evaluated, a @nomemo rule evaluates on every entry, a memo hit needs an earlier evaluation - under every memo schedule
    from ..pegcheck import observer_check
    obs_items = [dict(it, cfg={'nameguard': False}) for it in items if it['label'] in ('plain', 'nomemo', 'leftrec')]
    observer_check(ck, obs_items[ck.seed % 2::2] if tier == 'quick' else obs_items, 'C06 actions and @nomemo')
    seen = set()
    for ci, (c, im) in enumerate(zip(cases, impl)):
        base = ci - (ci % 2)
        sp = per[base]
        if im['compile']['k'] != 'ok':
            ck.violation({'kind': 'parse', 'inputs': {'grammar': c['ebnf'], 'backend': c['backend']}, 'expected': 'compiles',
                          'observed': im['compile']}, key='compile' + c['ebnf'] + c['backend'])
            continue
        for m in im.get('reuse_mismatch') or []:
            ck.violation({'kind': 'history', 'inputs': {'grammar': c['ebnf'], 'backend': 'generated', 'text': m['text'], 'semantics': m['semantics'],
                                                        'history': 'one parser object parsed earlier with other semantics objects'},
                          'expected': m['fresh_object'], 'observed': m['reused_object'],
                          'why': 'the semantics object supplied to this call is not the one whose actions ran', 'spec': 'PegSem!Act'},
                         key='reuse' + c['ebnf'])
        for t, res in enumerate(im['res']):
            text = c['texts'][t]
            ck.count(evaluations=len(res), traces=len(res))

            def bad(why, kind, expected):
                what = f"{c['ebnf'].strip()} on {text!r} [{c['backend']}, {kind}]: {why}"
                ck.violation({'kind': 'parse', 'inputs': {'grammar': c['ebnf'], 'text': text, 'backend': c['backend'], 'semantics': kind},
                              'expected': expected, 'observed': res[kind], 'why': why, 'spec': 'PegSem!Act / C06'},
                             key=c['ebnf'] + c['backend'] + kind.split('E')[0] + why[:20])

            def same(a, b):
                return a['k'] == b['k'] and (a['k'] != 'ok' or a['v'] == b['v'])
            so = {a: sp[a][t] for a in sp}
            if so['none'].get('unspec'):
                # the AST of this shape is left open by the documents (spec/UNSPECIFIED.md); what an action sees, and hence whether
                # the failing/raising predicate fires, is not determined: no verdict for this case
                ck.notes['skipped_unspecified'] = ck.notes.get('skipped_unspecified', 0) + 1
                continue
            if c['backend'] == 'generated' and c.get('c02scope'):
                ck.notes['skipped_generated_KF_C02'] = ck.notes.get('skipped_generated_KF_C02', 0) + 1
                continue
            if so['tag']['k'] == 'ok':
                seen.add((c['ebnf'], repr(so['tag'].get('v'))))
            if ci % 40 == 0 and t == 5:
                ck.sample({'grammar': c['ebnf'], 'text': text, 'backend': c['backend'], 'spec': so, 'impl': res})
            # identity == no semantics == spec
            if not same(res['id'], res['none']):
                bad('identity actions are distinguishable from no semantics', 'id', res['none'])
            for kind, act in (('none', 'none'), ('tag', 'tag'), ('failb', 'failb')):
                s_ = so[act]
                o = res[kind]
                if s_['k'] == 'fuel':
                    continue
                if s_['k'] == 'ok' and not (o['k'] == 'ok' and (s_['unspec'] or o['v'] == s_['v'])):
                    bad(f"spec ok {s_.get('v')!r}", kind, s_)
                elif s_['k'] == 'fail' and o['k'] != 'fail':
                    bad('spec: parse failure', kind, s_)
            # (only on the left-recursive family: elsewhere a plain list returned by an action is spliced into the caller's sequence,
            #  the open-list representation behind KF-C01-1)
            if 'iddefault' in res and not same(res['iddefault'], res['none']):
                bad('an identity action with a defaulted parameter after the AST is distinguishable from no semantics (the parameter must be '
                    'the declared rule parameter, or keep its default)', 'iddefault', res['none'])
            if 'tolist' in res and c['label'] == 'leftrec' and not same(res['tolist'], res['none']):
                bad('an action that returns its (list) argument as a plain list is distinguishable from no semantics', 'tolist', res['none'])
            if c['backend'] == 'model' and 'ref' in res.get('tag/compiled-twice', {}) and \
                    not same(res['tag/compiled-twice'], res['tag/compiled-twice']['ref']):
                bad('compile(g, semantics=S1) ; compile(g, semantics=S2) with S2 another object of the same class ; the first model no '
                    'longer runs the actions of S1', 'tag/compiled-twice', res['tag/compiled-twice']['ref'])
            al = res.get('tag/assigned-late', {})
            if c['backend'] == 'model' and 'ref' in al and al.get('v') != al['ref'].get('v'):
                bad('model.parse(text) ; model.semantics = S1 ; model.parse(text) ; model.semantics = S2 ; model.parse(text): the parses after an '
                    'assignment do not run the actions of the object the model holds (expected: what a model compiled with that object returns)',
                    'tag/assigned-late', al['ref'])
            # the object's own truth value, hashability and equality play no part
            for kind in OBJECT_SHAPES:
                if kind in res and not (kind.endswith('/api') and c['backend'] != 'model') and not same(res[kind], res['tag']):
                    bad(f"a semantics object that is {kind.split('/')[1]} is not used like any other object ({res[kind].get('k')}"
                        f"{':' + str(res[kind].get('cls')) if res[kind].get('cls') else ''} instead of the tagged result)", kind, res['tag'])
            # _default only: same as per-rule tagging modulo the tag name
            s_, o = so['tag'], res['tagdefault']
            if s_['k'] == 'ok' and not s_['unspec'] and not (o['k'] == 'ok' and untag_names(o['v']) == untag_names(s_['v'])):
                bad('_default is not called like a per-rule action', 'tagdefault', s_)
            # exceptions reach the caller unchanged; otherwise same as no predicate hit
            s_ = so['raise']
            for kind in res:
                if not kind.startswith('raise') or '/' in kind:
                    continue
                o = res[kind]
                want = {'raise': 'Custom'}.get(kind, kind[5:])
                if s_['k'] == 'raise':
                    if kind == 'raiseStopIteration' and o['k'] == 'exc' and o.get('cls') == 'RuntimeError' \
                            and 'generator raised StopIteration' in str(o.get('msg', '')) \
                            and ck.known('KF-C06-2', f"{c['ebnf'].strip()} on {text!r} [{c['backend']}]"):
                        continue
                    if not (o['k'] in ('exc', 'err') and o.get('cls') == want and 'boom' in str(o.get('msg', ''))):
                        bad(f'spec: the action exception {want} reaches the caller unchanged', kind, {'k': 'raise', 'cls': want})
                elif s_['k'] == 'ok' and not (o['k'] == 'ok' and (s_['unspec'] or o['v'] == s_['v'])):
                    bad('spec ok (predicate never hit)', kind, s_)
                elif s_['k'] == 'fail' and o['k'] != 'fail':
                    bad('spec: parse failure', kind, s_)
            # a stateful action on @nomemo rules: every invocation is a real evaluation, so the outcome is that of the
            # memoization-off run of the same action (fresh state)
            if c['nomemo'] and 'failfirst' in res:
                a, b = res['failfirst'], res['failfirst/memo-off']
                if (a['k'], a.get('v')) != (b['k'], b.get('v')) or a['calls'] != b['calls']:
                    bad(f"@nomemo rules with a stateful action: {a['k']}/{a['calls']} but every-invocation evaluation gives {b['k']}/{b['calls']}",
                        'failfirst', b)
            # call counts: memoized rules may replay (<= memo-off), @nomemo rules are evaluated on every invocation
            on, off = res['id']['calls'], res['id/memo-off']['calls']
            if res['id']['k'] == res['id/memo-off']['k']:
                for rn, n_off in off.items():
                    n_on = on.get(rn, 0)
                    if n_on > n_off:
                        bad(f'rule {rn}: {n_on} action calls with memoization > {n_off} without', 'id', {'calls<=': off})
                    if c['nomemo'] and rn in ('y', 'Z') and n_on != n_off:
                        bad(f'@nomemo rule {rn}: action ran {n_on} times, invocations {n_off}', 'id', {'calls': off})
    # code -> spec: executions with the stateless members of the action family are recorded and validated against PegTrace: a rule
    # that is not memoizable (@nomemo) must show a body evaluation after every `enter`; a memoized one may replay only what an
    # earlier evaluation at that (position, rule) produced - FailedSemantics included
    from ..pegcheck import trace_validate
    tcases = []
    step = 3 if tier == 'quick' else 1
    for k, it in enumerate(items[ck.seed % step::step]):
        if it.get('params'):
            continue
        act = ('failb', 'tag', 'failb', 'id')[k % 4]
        cfg = make_cfg(chars_of(it['g'], it['texts']), nameguard=False, act=act, actrule='*')
        cfg.update({'maxmiss': 100000, 'prune': True, 'memoize': True})
        tcases.append({'ebnf': to_ebnf(it['g']), 'g': it['g'], 'cfg': cfg, 'texts': [''.join(t) for t in it['texts']],
                       'settings': {'nameguard': False}, 'sem': act})
    trace_validate(ck, tcases, label='C06 actions')
    ck.cov['distinct_nontrivial'] = len(seen)
    ck.cov['rule'] = (f'{len(items)} grammars (retry/backtracking shapes over rule calls, seeded random grammars, @nomemo variants, declared '
                      f'parameters) x all texts over {{a,b}} x {len(kinds)} semantics objects x {{model, generated parser}}; non-trivial = '
                      'accepted under the tagging action with distinct (grammar, AST)')
    ck.notes['semantics_kinds'] = kinds
    return ck.finish()
