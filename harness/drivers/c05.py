"""C05 - a cut commits within its documented scope and nowhere else.
Skeleton grammars x a cut inserted at every position of every sequence x all texts up to a bound; PegSem (the docs'
equivalences A->[x] == B->x|e, A->{x} == B->xB|e, join == e {s ~ e}) is the oracle; plus CutHarmless: on inputs the cut grammar
accepts, the cut-free grammar gives the same result."""
from __future__ import annotations

import copy
import itertools

from ..absgrammar import alt, call, cut, grammar, group, join, opt, plus, rule, seq, star, tok
from ..common import Check
from ..pegcheck import conformance

a, b, c, q = tok('a'), tok('b'), tok('c'), tok('q')


def skeletons():
    return {
        'choice': [('s', alt(seq(a, b), seq(a, c)))],
        'choice3': [('s', alt(seq(a, b), seq(a, c), seq(a)))],
        'choice-in-group': [('s', alt(seq(q, group(alt(seq(a, b), seq(a, c)))), seq(q, a, a)))],
        'optional': [('s', seq(opt(seq(a, b)), a, c))],
        'optional-in-choice': [('s', alt(seq(opt(seq(a, b)), c), seq(a, a)))],
        'closure': [('s', seq(star(seq(a, b)), a, c))],
        'closure-choice': [('s', alt(seq(star(seq(a, b)), c), seq(a, b, a, a)))],
        'positive-closure': [('s', alt(seq(plus(seq(a, b)), a, c), seq(a, b, a, b)))],
        'nested-closure': [('s', seq(star(seq(a, star(b), c)), a, a))],
        'join': [('s', alt(seq(join(c, seq(a, b), False, True), a), seq(a, b, c, a, a)))],
        'positive-join': [('s', alt(seq(join(c, seq(a, b), True, True), c), seq(a, b, c, a, a)))],
        'gather': [('s', alt(seq(join(c, seq(a, b), False, False), c, a), seq(a, b, c, a, a)))],
        'rulebody': [('s', alt(call('x'), seq(a, c))), ('x', seq(a, b))],
        'rule-choice': [('s', alt(seq(call('x'), c), seq(a, b, b))), ('x', alt(seq(a, b), seq(a, c)))],
        'rule-in-closure': [('s', seq(star(call('x')), a, c)), ('x', seq(a, b))],
        'group-seq': [('s', alt(seq(group(seq(a, b)), c), seq(a, b, b)))],
        'choice-in-closure': [('s', seq(star(alt(seq(a, b), seq(a, c))), a, a))],
        'choice-in-optional': [('s', seq(opt(alt(seq(a, b), seq(b, c))), a))],
        # an optional whose whole body is another optional / closure / join: Optional.optimized() rewrites these shapes
        'optional-of-closure': [('s', seq(opt(star(seq(a, b))), a, c))],
        'optional-of-optional': [('s', seq(opt(opt(seq(a, b))), a, c))],
        'optional-of-join': [('s', alt(seq(opt(join(c, seq(a, b), False, True)), a), seq(a, b, c, a, a)))],
        # ... with the cut inside a plain group (transparent to the cut) of the closure's body
        'optional-of-closure-group': [('s', seq(opt(star(seq(a, group(seq(b, c))))), a, b))],
        # a separator that can match the empty string: the join commits after the separator whatever it consumed (s%{e}+ == e {s ~ e})
        'positive-join-nullable-sep': [('s', alt(seq(join(opt(c), seq(a, b), True, True), c), seq(a, b, a, c)))],
        'gather-nullable-sep': [('s', alt(seq(join(opt(c), a, False, False), b), seq(a, a, c)))],
    }


def seq_paths(e, path=()):
    out = []
    if e['op'] == 'seq':
        out.append(path)
    for i, x in enumerate(e.get('es', [])):
        out += seq_paths(x, path + (('es', i),))
    for k in ('e', 'sep'):
        if k in e:
            out += seq_paths(e[k], path + ((k,),))
    return out


def get(e, path):
    for p in path:
        e = e[p[0]][p[1]] if len(p) == 2 else e[p[0]]
    return e


def universe(tier):
    items = []
    maxlen = 5 if tier == 'quick' else 6
    for name, rules in skeletons().items():
        alphabet = 'abcq' if name == 'choice-in-group' else 'abc'
        texts = [list(t) for n in range(maxlen + 1) for t in itertools.product(alphabet, repeat=n)
                 if n < 5 or t[0] in 'aq']
        variants = [('nocut', rules)]
        for ri, (rn, body) in enumerate(rules):
            for path in seq_paths(body):
                n = len(get(body, path)['es'])
                for k in range(n + 1):
                    r2 = copy.deepcopy(rules)
                    get(r2[ri][1], path)['es'].insert(k, cut())
                    variants.append((f'{rn}:{"/".join(str(x) for p in path for x in p)}:{k}', r2))
        for where, rs in variants:
            g = grammar(*[rule(n, e) for n, e in rs])
            items.append({'g': g, 'texts': texts, 'label': f'{name}@{where}', 'cfg': {'nameguard': False},
                          'settings': {'nameguard': False}, 'fam': name, 'where': where})
    return items


def classify(it, text, so, ir, why):
    # KF-C05-1 (Dev_IsolateDropsCut): a cut executed inside iteration >= 2 of a closure body is lost when isolate() pops its
    # frame; the engine then ends the repetition normally instead of failing it. Scope of the finding: the documented
    # semantics rejects, the engine accepts, and the grammar has a cut inside a closure/positive-closure body.
    if why == 'spec rejects, impl accepts' and it['fam'] in ('closure', 'closure-choice', 'positive-closure', 'nested-closure',
                                                             'rule-in-closure', 'choice-in-closure'):
        return 'KF-C05-1'
    return None


def run(tier):
    ck = Check('C05', tier)
    items = universe(tier)
    mism = conformance(ck, items, classify=classify)
    # CutHarmless: for accepted inputs the cut-free skeleton gives the same outcome (checked on the spec results' side by
    # conformance of both variants to PegSem, and directly here on the implementation results)
    from ..pegcheck import trace_validate
    from ..absgrammar import chars_of, make_cfg, to_ebnf
    step = 5 if tier == 'quick' else 1
    tcases = [{'ebnf': to_ebnf(it['g']), 'g': it['g'], 'cfg': make_cfg(chars_of(it['g'], it['texts']), **(it.get('cfg') or {})),
               'texts': [''.join(t) for t in it['texts'] if len(t) <= 4][:30], 'settings': it.get('settings')} for it in items[ck.seed % step::step]]
    trace_validate(ck, tcases, label='C05 cut placements')
    # TLC on the implementation-shaped machine: CutContained (only the top frame, or the option frame under an isolate frame, ever
    # changes its cut flag), FramesBalanced and Refines under every memo schedule, with pruning on cut on and off
    from ..pegcheck import machine_check
    mstep = 3 if tier == 'quick' else 1
    machine_check(ck, items[ck.seed % mstep::mstep], 'C05 cut placements', maxlen=3 if tier == 'quick' else 4, maxtexts=40 if tier == 'quick' else 200)
    ck.cov['rule'] = (f'{len(items)} grammars = 24 skeletons (optional of closure / optional / join, a cut in a group of a collapsed closure, separators that can match empty, choice, choice in group, optional, closure, positive closure, nested '
                      'closure, join, positive join, gather, rule body, rule called from choice/closure, choices in closure/optional) '
                      'with a cut inserted at every position of every sequence (and the cut-free skeleton) x all texts over {a,b,c} '
                      f'up to length {5 if tier == "quick" else 6}; non-trivial = accepted case with distinct (grammar, AST, end)')
    ck.cov['exhaustive'] = True
    ck.notes['grammars'] = len(items)
    ck.notes['mismatch_kinds'] = sorted({m[4] for m in mism})
    return ck.finish()
