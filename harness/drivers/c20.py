"""C20 - styling text never alters the text itself.
spec/Sgr.tla: SGR parameter assembly, wrapping, the ANSI_RE stripping automaton, the attribute reader of Style.from_raw and the colour
gate over an abstract alphabet; TLC checks StripLaw, LenLaw, ParseLaw, OffLaw for every style of the domain x every ESC-free text up
to the bound x every gate combination and prints the expected output of every point, which is concretised (wide, combining, braces,
colons, backslashes, quotes) and replayed into Style under format specifications (Python's format() is the oracle for 'the text formatted
by that specification')."""
from __future__ import annotations

import itertools
import os
import shutil

from .. import tlc
from ..common import Check, pmap

CH = {'x': 'x', '5': '5', ';': ';', 'm': 'm', '[': '[', '{': '{', ':': ':', 'B': '\\', 'q': '"', 'W': '世', 'C': 'é', 'E': '\x1b',
      's': ' ', 'R': '\r', 'L': '\n', 'F': '\x0c', 'N': '\xa0', 'Z': '\u2003'}
# R, L, F: carriage return, line feed, form feed (no escape characters); N, Z: no-break space, em space (category Zs: neither control
# characters nor printable in the sense of str.isprintable(), so repr() writes them as escapes)
SPECS = ['', '>8', '<8', '^8', '*^8', '3', '.0', '.2', '*>8.2', '0', '08']
MODNAMES = {1: 'bold', 2: 'dim', 3: 'italic', 4: 'underline', 5: 'blink', 7: 'inverse', 8: 'hidden', 9: 'strikethrough'}


def conc(chars):
    return ''.join(CH.get(c, c) for c in (chars if isinstance(chars, list) else []))


def run_points(case):
    import io
    import sys
    from tatsu.util.tty import descape, visual_len
    from tatsu.ztyle import Color, Style
    from tatsu.ztyle.style import RGB
    bad = []

    def col(c):
        if c[0] == 'none':
            return -1
        if c[0] == 'idx':
            return c[1]
        return RGB(c[1], c[2], c[3])

    for pt in case['points']:
        text = conc(pt['t'])
        kw = {MODNAMES[m]: True for m in (pt['mods'] if isinstance(pt['mods'], list) else [])}
        kw['fg'], kw['bg'] = col(pt['fg']), col(pt['bg'])
        gate = pt['gate']
        want_out = conc(pt['out'])
        env_keys = {'NO_COLOR': gate['nocolor'], 'FORCE_COLOR': gate['forcecolor']}
        saved_env = {k: os.environ.get(k) for k in env_keys}
        saved_stdout, saved_stderr = sys.stdout, sys.stderr
        try:
            for k, on in env_keys.items():
                if on:
                    os.environ[k] = '1' if k == 'FORCE_COLOR' else ''
                else:
                    os.environ.pop(k, None)

            class FakeOut(io.StringIO):
                def isatty(self):
                    return gate['ttyout']

            class FakeErr(io.StringIO):
                def isatty(self):
                    return gate['ttyerr']
            sys.stdout, sys.stderr = FakeOut(), FakeErr()
            color = Color.stderr() if gate['stream'] == 'stderr' else Color()
            if gate['force'] != 'unset':
                color.enable(gate['force'] == 'on')
            st = Style(text, color=color, **kw)
            got = str(st)
            if got != want_out:
                bad.append({'what': 'str(Style)', 'point': pt, 'text': text, 'expected': want_out, 'observed': got})
                continue
            if not pt['on'] and '\x1b' in got:
                bad.append({'what': 'escape with colour disabled', 'point': pt, 'observed': got})
            if descape(got) != text or len(st) != len(text) or visual_len(got) != len(text):
                bad.append({'what': 'descape/len', 'point': pt, 'text': text, 'observed': [descape(got), len(st), visual_len(got)]})
            if gate['force'] == 'on':
                # format specifications: constructor fmt=, apply(fmt=), format()/f-string
                for spec in case['specs']:
                    try:
                        want = format(text, spec) if spec else text
                    except ValueError:
                        continue
                    outs = {'Style(text, fmt=spec)': str(Style(text, fmt=spec or None, color=color, **kw)),
                            'Style.apply(text, fmt=spec)': Style('', color=color, **kw).apply(text, fmt=spec or None),
                            'format(Style, spec)': format(st, spec)}
                    for how, o in outs.items():
                        if descape(o) != want:
                            bad.append({'what': f'{how}: descape != format(text, spec)', 'spec': spec, 'point': pt, 'text': text,
                                        'expected': want, 'observed': [o, descape(o)]})
                    s2 = Style(text, fmt=spec or None, color=color, **kw)
                    if len(s2) != len(want):
                        bad.append({'what': 'len(Style) != len(formatted text)', 'spec': spec, 'point': pt, 'text': text,
                                    'expected': len(want), 'observed': len(s2)})
                    off = Style(text, fmt=spec or None, color=Color.never(), **kw)
                    if str(off) != want:
                        bad.append({'what': 'colour disabled: output != formatted text', 'spec': spec, 'point': pt, 'text': text,
                                    'expected': want, 'observed': str(off)})
                # a style that has ALREADY been rendered and measured, then derived from ("all modifier methods return a copy"): the derived
                # style must render like one constructed with those attributes from scratch, and the original must render as before
                for spec in case['specs'][1:4]:
                    base = Style(text, color=color, **kw)
                    first = (str(base), len(base), f'{base}')
                    try:
                        derived = [('fmt(spec)', base.fmt(spec), Style(text, fmt=spec, color=color, **kw)),
                                   ('bold().fmt(spec)', base.bold().fmt(spec), Style(text, fmt=spec, color=color, **dict(kw, bold=True))),
                                   ('fmt(spec) called', base.fmt(spec)(text), Style(text, fmt=spec, color=color, **kw))]
                    except ValueError:
                        continue
                    for how, dv, fresh in derived:
                        try:
                            a, b = (str(dv), len(dv), descape(str(dv))), (str(fresh), len(fresh), descape(str(fresh)))
                        except ValueError:
                            continue
                        if a != b:
                            bad.append({'what': f'a style derived with {how} from a style that was rendered before differs from a fresh style with the same attributes',
                                        'spec': spec, 'point': pt, 'text': text, 'expected': list(b), 'observed': list(a)})
                    if (str(base), len(base), f'{base}') != first:
                        bad.append({'what': 'deriving from a style changed the original', 'spec': spec, 'point': pt, 'text': text,
                                    'expected': list(first), 'observed': [str(base), len(base), f'{base}']})
                # repr round trip: same attributes; same text when it has no braces, colons, backslashes, quotes, controls
                for spec in (None, '>8'):
                    s3 = Style(text, fmt=spec, color=color, **kw)
                    back = Style.from_raw(repr(s3))
                    a, b = s3._kwattrs(), back._kwattrs()
                    for k in a:
                        if k in ('color',):
                            continue
                        if k == 'fmt' and any(ch in text for ch in '{}:\\"'):
                            continue
                        if a[k] != b[k]:
                            bad.append({'what': f'repr round trip: attribute {k}', 'point': pt, 'text': text, 'spec': spec,
                                        'expected': repr(a[k]), 'observed': repr(b[k]), 'repr': repr(s3)})
                    import unicodedata
                    clean = not any(ch in text for ch in '{}:\\"\'') and not any(unicodedata.category(ch) == 'Cc' for ch in text)
                    if clean and back.value != text:
                        bad.append({'what': 'repr round trip: text', 'point': pt, 'text': text, 'spec': spec, 'observed': back.value,
                                    'repr': repr(s3)})
        except Exception as e:  # noqa: BLE001
            bad.append({'what': f'exception {type(e).__name__}: {e}', 'point': pt, 'text': text})
        finally:
            sys.stdout, sys.stderr = saved_stdout, saved_stderr
            for k, v in saved_env.items():
                if v is None:
                    os.environ.pop(k, None)
                else:
                    os.environ[k] = v
    return bad[:20]


def render_errors(_case):
    """Users of styling (memento / FailedParse.render): the coloured rendering minus escapes is the uncoloured one, in either order."""
    import tatsu
    from tatsu.exceptions import FailedParse
    from tatsu.util.tty import descape
    from tatsu.ztyle import Color
    model = tatsu.compile("start = expr $ ; expr = term {('+' | '-') term} ; term = /[0-9]+/ | '(' expr ')' ;")
    bad = []
    for text in ['1 + (2 - x)', '1 +\n  2 +\n (3 - ) + 4', '(((1))', '7 7', '1 + {a:b} 你好', 'é + 1', '']:
        try:
            model.parse(text)
            continue
        except FailedParse as e:
            err = e
        # (first of all: a policy object used while disabled must not be remembered by anything that outlives the call)
        x = Color()
        x.enable(False)
        off0 = err.render(x)
        x.enable(True)
        off2 = err.render(Color.never())
        on1 = err.render(Color.always())
        off1 = err.render(Color.never())
        if '\x1b' in off0 or '\x1b' in off2 or off2 != off1:
            bad.append({'what': 'error rendered with colour disabled, after another policy object was switched on, contains escapes',
                        'text': text, 'observed': [off0, off2]})
        on2 = err.render(Color.always())
        if '\x1b' in off1:
            bad.append({'what': 'error rendered with colour disabled (after a coloured rendering) contains escapes', 'text': text, 'observed': off1})
        if descape(on1) != off1 or on1 != on2:
            bad.append({'what': 'descape(coloured error) != uncoloured error', 'text': text, 'observed': [on1, off1]})
        if '\x1b' not in on1:
            bad.append({'what': 'coloured error rendering has no escapes', 'text': text, 'observed': on1})
    return bad


def render_markup(_case):
    """Another user of styling: tag markup.  The same tagged text rendered under an enabled policy, then under a disabled one, then
    enabled again (a screen rendering followed by a log rendering): colour disabled => the text and no escape sequence at all, and
    the coloured rendering minus escapes is that text.  Also through the error-rendering policy Color.stderr() with stdout and
    stderr differing."""
    import io
    import sys
    from tatsu.util.tty import descape
    from tatsu.ztyle import Color
    bad = []
    for tagged, plain in [('[bold]ab[/] cd', 'ab cd'), ('[red]x[/red][green]y[/green]', 'xy'), ('[bold red]p q[/][/] r', 'p q r'),
                          ('[underline]你好[/] é', '你好 é'), ('plain', 'plain'), ('[bold][italic]n[/]m[/]', 'nm'),
                          # text with an opening bracket that starts no tag, and the escaped bracket: the characters of the text stay
                          ('a [ b', 'a [ b'), ('[bold]x[/] [y', 'x [y'), ('x[bold', 'x[bold'), ('a [[ b', 'a [ b'), ('[', '['), ('[bold]k[/][', 'k[')]:
        try:
            on1 = str(Color.always().markup(tagged))
            off = str(Color.never().markup(tagged))
            on2 = str(Color.always().markup(tagged))
        except Exception as e:  # noqa: BLE001
            bad.append({'what': f'markup raised {type(e).__name__}: {e}', 'text': tagged})
            continue
        if off != plain or '\x1b' in off:
            bad.append({'what': 'markup with colour disabled (after a coloured rendering of the same tags) is not the plain text', 'text': tagged,
                        'expected': plain, 'observed': off})
        if descape(on1) != plain or on1 != on2:
            bad.append({'what': 'descape(coloured markup) != plain text', 'text': tagged, 'expected': plain, 'observed': [on1, on2]})
        if '[/' in tagged and '\x1b' not in on1:          # (only text that closes a tag must come out styled)
            bad.append({'what': 'coloured markup has no escapes', 'text': tagged, 'observed': on1})
    return bad


def run(tier):
    ck = Check('C20', tier)
    d = tlc.scratch_dir('sgr')
    try:
        cfg = os.path.join(d, 'sgr.cfg')
        alpha = '{"x", "5", ";", "m", "[", "{", ":", "B", "q", "W", "C", "R", "L", "F", "N", "Z"}'
        open(cfg, 'w').write(f'CONSTANT TextAlphabet = {alpha}\nCONSTANT MaxLen = {1 if tier == "quick" else 2}\n'
                             'CONSTANT ModSets <- DefModSets\nCONSTANT Colors <- DefColors\nINIT Init\nNEXT Next\nINVARIANT StripLaw\n'
                             'INVARIANT LenLaw\nINVARIANT ParseLaw\nINVARIANT OffLaw\nCHECK_DEADLOCK FALSE\n')
        r = tlc.run_tlc('Sgr', cfg=cfg, timeout=3000)
    finally:
        shutil.rmtree(d, ignore_errors=True)
    ck.add_tlc(r, 'Sgr')
    if r.violated:
        ck.violation({'kind': 'point', 'inputs': {'spec': 'Sgr'}, 'expected': 'StripLaw, LenLaw, ParseLaw, OffLaw', 'observed': r.violated,
                      'trace': r.trace[:40]}, key='Sgr' + r.violated)
    pts = list(r.res.values())
    if 2 * len(pts) != r.distinct:
        raise tlc.MachineryError(f'Sgr: {r.distinct} states but {len(pts)} RES lines')
    chunks = [{'points': pts[i:i + 150], 'specs': SPECS} for i in range(0, len(pts), 150)]
    res = pmap(run_points, chunks, procs=16, chunk=1, recycle=100000)
    n = 0
    for bad in res:
        for b in bad:
            what = b['what']
            ck.violation({'kind': 'point', 'inputs': {'text': b.get('text'), 'spec': b.get('spec'), 'style': {k: b['point'][k] for k in ('mods', 'fg', 'bg', 'gate')}},
                          'expected': b.get('expected'), 'observed': b.get('observed'), 'why': what, 'spec': 'Sgr'},
                         key=what.split(':')[0] + str(b.get('spec')))
    for b in pmap(render_markup, [0], procs=1)[0]:
        ck.violation({'kind': 'history', 'inputs': {'text': b.get('text')}, 'expected': b.get('expected'), 'observed': b.get('observed'),
                      'why': b['what'], 'spec': 'Sgr!OffLaw / StripLaw (tag markup)'}, key='markup' + b['what'][:30])
    ck.count(evaluations=18, traces=18)
    for b in pmap(render_errors, [0], procs=1)[0]:
        ck.violation({'kind': 'history', 'inputs': {'text': b['text'], 'history': 'render(Color.always()) ; render(Color.never()) ; render(Color.always())'},
                      'observed': b['observed'], 'why': b['what'], 'spec': 'Sgr!OffLaw / StripLaw (error rendering)'}, key=b['what'][:30])
    ck.count(evaluations=len(pts) * (3 * len(SPECS) + 6), traces=len(pts), nontrivial=len(pts))
    ck.sample({'point': pts[len(pts) // 3], 'text': conc(pts[len(pts) // 3]['t'])})
    ck.sample({'point': pts[-1], 'text': conc(pts[-1]['t'])})
    ck.notes['format_specs'] = SPECS
    ck.cov['rule'] = ('every style of the domain (12 modifier sets incl. all eight x 10 foreground x 10 background colours: none, 16-colour, bright, '
                      f'256-colour, RGB) x every text over 11 character classes up to length {1 if tier == "quick" else 2} with colour on, every '
                      'gate combination (override x NO_COLOR x FORCE_COLOR x isatty) for one style; each point replayed with 11 format specifications '
                      'through Style(fmt=), apply(fmt=), format(); repr/from_raw round trip')
    ck.cov['exhaustive'] = True
    ck.assumptions += ["Python's format(text, spec) is the oracle for 'the text formatted by that specification'",
                       'arbitrary Unicode is represented by class representatives (wide, combining, brace, colon, backslash, quote)']
    return ck.finish()
