"""C08 - bad input and bad grammars are reported as TatSu errors at valid positions.
(1) PegSem's meta expressions (@int @uint @float @bool @name) evaluated by TLC on meta grammars x every text over the characters the
    matchers are sensitive to (digit, sign, dot, exponent letter, underscore, letter, space); replayed on TextLines and the legacy Buffer,
    parseinfo on/off: outcome and value as specified, and in every case the outcome domain {result, parse failure}.
(2) compiled grammars (core, meta, $->, left recursion, constants) x texts with empty / control / CR LF mixes / non-ASCII: any outcome must be a
    result or a FailedParse whose position lies in the text and whose line, column and source line agree with LinePos at that position;
    str(e) renders.  (3) compile inputs near the grammar language (syntax corpus + character-level mutants): a grammar model or a TatSu
    parse/grammar error - no other exception type, no unbounded recursion, no hang."""
from __future__ import annotations

import itertools
import random

from ..absgrammar import (Gen, all_texts, alt, call, chars_of, eof, grammar, make_cfg, meta, named, opt, rule, seq, star, tok, to_ebnf)
from ..common import Check, pmap
from ..derived import FULL, SYNTAX, mutate
from ..impl import run_error_case
from ..pegcheck import Jobs, default_case, run_impl, run_oracle, spec_outcome
from .c12 import line_of


def meta_grammars():
    M = {k: meta(k) for k in ('int', 'uint', 'float', 'bool', 'name')}
    x = tok('x')
    return {
        'int': grammar(rule('s', seq(named('v', M['int']), eof()))),
        'uint-pair': grammar(rule('s', seq(named('a', M['uint']), named('b', opt(M['uint'])), eof()))),
        'float-list': grammar(rule('s', seq(star(M['float']), eof()))),
        'bool': grammar(rule('s', seq(named('v', M['bool']), opt(M['name'])))),
        'name': grammar(rule('s', seq(named('n', M['name']), opt(M['int']), eof()))),
        'int-or-name': grammar(rule('s', seq(star(alt(M['int'], M['name'])), eof()))),
        'after-token': grammar(rule('s', seq(x, M['uint'], eof()))),
        'before-token': grammar(rule('s', seq(M['uint'], x))),
        'uint-after-name': grammar(rule('s', seq(M['name'], M['uint']))),
        'float-then-uint': grammar(rule('s', seq(named('f', M['float']), named('u', opt(M['uint'])), eof()))),
    }


def loose(text):
    """texts whose treatment the documents leave open: a digit run immediately followed by a letter or by an underscore that is not
    followed by a digit, a dot followed by a sign, non-ASCII digits"""
    import re
    return bool(re.search(r'[0-9]_*[A-Za-z]|[0-9]_(?![0-9])|\._|\.[+-]|_[0-9]|[eE]_', text)) or any(ch.isdigit() and ch not in '0123456789' for ch in text)


STRESS = [
    "@@whitespace :: /\\s*/\nstart = 'a' 'b' ;", "@@whitespace :: /x*/\nstart = 'a' 'b' ;", "@@whitespace :: /(?:)/\nstart = 'a' 'b' ;",
    "@@comments :: /x*/\nstart = 'a' 'b' ;", "@@comments :: /(?:#.*)?/\nstart = 'a' 'b' ;", "@@eol_comments :: /#?/\nstart = 'a' 'b' ;",
    "@@eol_comments :: /(?m)$/\nstart = 'a' 'b' ;", "@@whitespace :: /\\b/\nstart = 'a' 'b' ;",
    '@@whitespace :: "("\nstart = \'a\' ;', '@@comments :: ?"("\nstart = \'a\' ;', "@@eol_comments :: /[/\nstart = 'a' ;",
    "@@namechars :: '('\nstart = 'a' ;", "@@whitespace :: /(?P<n>a)(?P=m)/\nstart = 'a' ;",
    'start = "\\N{foo}" ;', 'start = "\\x" ;', 'start = "\\u12" ;', "start = '\\U00110000' ;", 'start = "\\777" ;', "start = 'a\\' ;",
    "start = `{[1]:2}` ;", "start = `[1]+1` ;", "start = `1/0` ;", "start = `{x}` ;", "start = `{0!z}` ;", "start = x:'a' `{x:>{x}}` ;",
    "start = `'%s' % ()` ;", "start = `-''` ;", "start = `{}{}`;", "start = `{`;",
    "start = /(/ ;", "start = /[/ 'a' ;", "start = ?'(?P<n>a)(?P=m)' ;", "start = /a{2,1}/ ;", "start = /(?i)a/ 'b' ;", "start = /a**/ ;",
    "start = nosuch%{'a'} ;", "start = 'a' nosuch.{'b'}+ ;", "start = {} {} 'a' ;", "start = {()}+ 'a' ;",
    # numbers and repetition counts beyond what Python converts / compiles
    ("start = @int $ ;", ['7' * 5000, '-' + '1' * 4400]), ("start = @uint 'a' ;", ['9' * 4301 + ' a']), ("start = @float $ ;", ['1' * 5000 + '.5', '1e' + '9' * 400]),
    "start = /a{99999999999}/ $ ;", "start = /(a{65536}){65536}/ ;", "@@whitespace :: /x{99999999999}/\nstart = 'a' ;",
    # patterns whose text strains the quoting of the source generators and printers
    'start = /\\\\\'"/ ;', "start = /a\\\\/ 'b' ;", 'start = ?"\\\\" ;',
    # left recursion through a positive closure / join (the analysis recurses on nullability)
    "start = {start}+ 'y' | 'x' ;", "start = ','%{start}+ 'y' | 'x' ;", "start = a 'y' | 'x' ;\na = {start}+ ;",
    # repetitions whose element AND separator can match the empty string (an iteration that consumes nothing must end the loop)
    ("start = (','?)%{ 'a'? } $ ;", ['a , a', 'a a', ',', 'a ,']), ("start = (';' | ()).{ ['x'] }+ 'b' ;", ['x ; x b', 'b', 'x x b']),
    ("start = (','?)%{ {'x'} } 'b' ;", ['x , x b', 'b']), ("@@whitespace :: None\nstart = /[ \\t]*/%{ /\\w*/ } $ ;", ['ab cd', 'ab', ' ']),
    ("start = ([','])%{ ['a'] }+ $ ;", ['a , a', 'a a']), ("start = {['a']} {['a']}+ 'b' ;", ['a a b', 'b']),
    # a constant that fails inside an optional / closure / choice within a called rule (the failure crosses frames that only
    # unwind on parse failures), followed by more input
    ("start = u:'u' {a}* v:'v' $ ;\na = x:'x' [ 'q' y:`1/0` ] ;", ['u x x q v', 'u x q v', 'u x v', 'u v', 'u x q']),
    ("start = {a}* 'v' $ ;\na = 'x' ( 'q' `1/0` | 'r' ) ;", ['x q v', 'x r v', 'x q x r v', 'v']),
    ("start = a a 'v' ;\na = 'x' { 'q' `{[1]:2}` } ;", ['x x v', 'x q x v', 'x x q v']),
    ("start = [a] 'x' 'q' $ ;\na = 'x' [ 'q' `1/0` ] 'z' ;", ['x q', 'x q z', 'x z']),
    # input nested deeper than the interpreter's recursion limit allows (the grammar is not left recursive); a numeric rule parameter
    # with more digits than Python converts
    ("start = e $ ;\ne = '(' e ')' | 'x' ;", ['(' * 2500 + 'x' + ')' * 2500, '(' * 2500, '(((x)))']),
    ("start = {e}+ $ ;\ne = '[' {e} ']' | 'x' ;", ['[' * 3000 + ']' * 3000, '[[x]x]']),
    "start(" + "9" * 5000 + ") = 'a' ;", "start[x=" + "7" * 4400 + "] = 'a' ;",
    # constants that use a captured value which may be missing (None) or unsuitable: whatever the evaluation raises - AttributeError,
    # IndexError, KeyError, ValueError, TypeError, NameError, OverflowError - the parse reports a failure
    ("start = n:'a' [p:'b'] l:`{n}-{p.zfill(4)}` $ ;", ['a b', 'a']), ("start = n:'a' [p:'b'] l:`p.upper()` $ ;", ['a b', 'a']),
    ("start = n:'a' [p:'b'] l:`n[5]` $ ;", ['a b', 'a']), ("start = n:'a' [p:'b'] l:`{'k': 1}[n]` $ ;", ['a b', 'a']),
    ("start = n:'a' [p:'b'] l:`int(n)` $ ;", ['a b', 'a']), ("start = n:'a' [p:'b'] l:`n + 1` $ ;", ['a b', 'a']),
    ("start = n:'a' [p:'b'] l:`len(p)` $ ;", ['a b', 'a']), ("start = n:'a' l:`nosuchname + n` $ ;", ['a']),
    ("start = n:'a' l:`2.0 ** 5000` $ ;", ['a']), ("start = n:'a' l:`n.nosuchattr` $ ;", ['a']), ("start = n:'a' ^`{n.nosuchattr}` $ ;", ['a']),
    ("start = {x+:'a'} l:`x[3]` $ ;", ['a a', 'a a a a']), ("start = n:'a' l:`'%d' % n` $ ;", ['a']), ("start = n:'a' l:`{n:d}` $ ;", ['a']),
]


def kf_stress(ck, ebnf, o, what):
    """Known findings of the stress corpus (none listed at the moment)."""
    return False


def run_reused_errors(case):
    """One generated parser object (and one hand-held tatsu.parsing.Parser of the model's rules) fed a sequence of texts: every reported failure
    must be the one a fresh parser object reports for that text - class, offset, line, column, source line, rendered message."""
    import tatsu
    from ..impl import _Quiet, clear_caches, load_generated
    from tatsu.exceptions import FailedParse
    clear_caches()
    with _Quiet():
        cls, _src = load_generated(case['ebnf'])

    def call(p, text):
        try:
            with _Quiet():
                p.parse(text, start='start')
            return {'k': 'ok'}
        except FailedParse as e:
            try:
                info = e.info if hasattr(e, 'info') else e.cursor.lineinfo(e.pos)
                return {'k': 'fail', 'cls': type(e).__name__, 'pos': e.pos, 'line': info.line, 'col': info.col, 'text': info.text, 'msg': str(e)}
            except Exception as e2:  # noqa: BLE001
                return {'k': 'fail', 'cls': type(e).__name__, 'render': f'{type(e2).__name__}: {e2}'}
        except Exception as e:  # noqa: BLE001
            return {'k': 'exc', 'cls': type(e).__name__, 'msg': str(e)[:120]}
    bad = []
    for order in case['orders']:
        shared = cls()
        for i, text in enumerate(order):
            a, b = call(shared, text), call(cls(), text)
            if a != b:
                bad.append({'texts_so_far': order[:i + 1], 'reused_object': a, 'fresh_object': b})
                break
    return bad


def reused_parser_errors(ck, tier):
    from ..common import pmap
    import itertools
    g = "@@grammar :: RE\nstart = {stmt}+ $ ;\nstmt = name '=' num ';' | 'print' name ';' ;\nname = /[a-z]+/ ;\nnum = /\\d+/ ;\n"
    texts = ['a = 1 ;\nb = 2 ;\nc = x ;\n', 'a = ;', '= 1 ;', 'a = 1 ;\nprint 7 ;', 'a = 1 ;', 'print a ;\nprint b', '', 'a = 1 ; b = 22 ; c = 333 ; d',
             '\n\n  a 1', 'print a ;\n\n\nzz = 9 ; q']
    orders = [list(p) for p in itertools.permutations(texts, 2)] + [texts, texts[::-1], sorted(texts, key=len, reverse=True)]
    cases = [{'ebnf': g, 'orders': orders[i::8]} for i in range(8)]
    res = pmap(run_reused_errors, cases, procs=8, chunk=1, recycle=1)
    n = 0
    for c, bad in zip(cases, res):
        n += sum(len(o) for o in c['orders'])
        ck.count(evaluations=sum(len(o) for o in c['orders']), traces=sum(len(o) for o in c['orders']))
        for b in bad[:2]:
            ck.violation({'kind': 'history', 'inputs': {'grammar': g, 'texts_parsed_by_one_generated_parser_object': b['texts_so_far']},
                          'expected': {'what a fresh parser object reports for the last text': b['fresh_object']}, 'observed': b['reused_object'],
                          'why': 'the failure a reused parser object reports (class, offset, line, column, source line, message) is not the failure of the text it was given',
                          'spec': 'C08: a reported failure carries a position within the text whose line, column and source line agree with it'},
                         key='reusederr' + str(b['texts_so_far'][-1])[:30])
    ck.notes['reused_parser_error_calls'] = n


def run(tier):
    ck = Check('C08', tier)
    rnd = random.Random(8000 + ck.seed)
    reused_parser_errors(ck, tier)
    # ---- (1) meta expressions: spec -> code
    alpha = ['1', '0', '+', '-', '.', 'e', '_', 'x', ' ']
    texts = all_texts(alpha, 3 if tier == 'quick' else 4) + [list(t) for t in ['true', 'false', 'True x', 'False', 'tru', 'truex', '1.5e+1', '-0.5', '1_000',
                                                                              '1__0', '12 34', '1.+5', 'x1 2', '+', '-', '1e', '1e5', '.5', '1.', 'x_1']]
    jobs, cases = Jobs(), []
    for name, g in meta_grammars().items():
        jobs.add(g, make_cfg(chars_of(g, texts) | set('trueTFalsx')), texts)
        cases.append(default_case(to_ebnf(g), texts, label='meta/' + name))
    r, spec = run_oracle(jobs)
    ck.add_tlc(r, 'PegSemBatch (meta expressions)')
    impl = run_impl(cases, fn=run_error_case, chunk=1)
    nonascii = ['²', '٣', '１', 'Ⅷ', '1²', 'x²', '−1', '1．5']
    extra_cases = [default_case(to_ebnf(g), [list(t) for t in nonascii], label='meta-unicode/' + n) for n, g in meta_grammars().items()]
    impl_extra = run_impl(extra_cases, fn=run_error_case, chunk=1)

    def domain(c, text, how, o):
        """every outcome is a result or a TatSu parse failure at a valid, consistent position"""
        if o['k'] == 'ok':
            return None
        if o['k'] != 'fail':
            return f"{how}: {o['k']} {o.get('cls')} {o.get('msg', '')}"
        if 'info_error' in o or 'render_error' in o:
            return f"{how}: failure cannot be located/rendered: {o.get('info_error') or o.get('render_error')}"
        if not o.get('rendered'):
            return f'{how}: the failure message is empty'
        pos = o.get('pos')
        if not isinstance(pos, int) or not 0 <= pos <= len(text):
            return f'{how}: failure position {pos} outside 0..{len(text)}'
        if pos < len(text):         # end-of-text positions are KF-C12-1
            wl = line_of(text, pos)
            other_breaks = any(ch in text for ch in '\x0b\x0c\x1c\x1d\x1e\x85\u2028\u2029')     # str.splitlines boundaries beyond LF/CR
            if o.get('line') != wl and not other_breaks:
                return f"{how}: failure at offset {pos} reports line {o.get('line')}, the offset is on line {wl}"
            if o.get('start') is not None and o['start'] + o['col'] != pos:
                return f"{how}: failure at offset {pos} reports line start {o.get('start')} + column {o.get('col')}"
            if o.get('text') is not None and not (o['start'] <= pos <= o['start'] + max(0, len(o['text']))):
                return f"{how}: the source line reported does not contain offset {pos}"
        return None

    nd = 0
    for j, (c, im) in enumerate(zip(cases + extra_cases, impl + impl_extra), 1):
        if im['compile']['k'] != 'ok':
            ck.violation({'kind': 'parse', 'inputs': {'grammar': c['ebnf']}, 'expected': 'compiles', 'observed': im['compile']}, key='mc' + c['ebnf'])
            continue
        for t, res in enumerate(im['res']):
            text = c['texts'][t]
            so = spec_outcome(spec[j][t]) if j <= len(cases) else None
            for how, o in res.items():
                ck.count(evaluations=1, traces=1)
                why = domain(c, text, how, o)
                if not why and so is not None and not loose(text) and so['k'] != 'fuel':
                    if (so['k'] == 'ok') != (o['k'] == 'ok'):
                        why = f"{how}: specification {'accepts' if so['k'] == 'ok' else 'rejects'}, implementation {o['k']}"
                    elif so['k'] == 'ok' and o['v'] != so['v']:
                        why = f"{how}: value {o['v']!r}, specification {so['v']!r}"
                if why:
                    ck.violation({'kind': 'parse', 'inputs': {'grammar': c['ebnf'], 'text': text, 'how': how, 'label': c['label']},
                                  'expected': so or 'a result or a parse failure', 'observed': o, 'why': why, 'spec': 'PegSem!MetaMatch / C08 outcome domain'},
                                 key=c['label'].split('/')[0] + why.split(':')[1][:40] + c['ebnf'][:30])
            if so is not None and so['k'] == 'ok':
                nd += 1
    # ---- (2) arbitrary texts on compiled grammars
    gen = Gen(rnd, full=True, cuts=True)
    pool = [e for _n, e, _t in FULL if 'start' in e] + [to_ebnf(gen.grammar(rnd.choice([2, 3]))) for _ in range(40 if tier == 'quick' else 800)]
    weird = ['', ' ', '\n', '\r', '\r\n', '\n\r', '\x00', '\x0b\x0c', '\x1b[1m', 'a\x00b', 'a\nb\rc\r\nd', ' ', 'á', '世界', '퟿', '\U0001F600',
             'a' * 200, ' \t\n' * 30, 'a b\n\n\nc', 'a\r\rb', '\x85', 'é', '\t', 'a\x1c\x1d\x1eb', '((((((', '1 + 2 *', 'if then', 'x' * 3 + '\n' + 'y' * 3]
    cases2 = [default_case(e, [list(t) for t in weird + [''.join(rnd.choice('ab+ \n\r\t\x00é') for _ in range(rnd.randint(1, 9))) for _ in range(12)]],
                           label='fuzz') for e in pool]
    impl2 = run_impl(cases2, fn=run_error_case, chunk=2)
    for c, im in zip(cases2, impl2):
        if im['compile']['k'] == 'exc':
            ck.violation({'kind': 'parse', 'inputs': {'grammar': c['ebnf']}, 'expected': 'a model or a TatSu error', 'observed': im['compile']},
                         key='c2' + str(im['compile'].get('cls')))
            continue
        for t, res in enumerate(im.get('res', [])):
            # both input implementations locate the same failure identically (line, column, source line)
            for a, b in (('textlines', 'buffer'), ('textlines+pi', 'buffer+pi')):
                x, y = res.get(a, {}), res.get(b, {})
                if x.get('k') == 'fail' and y.get('k') == 'fail' and x.get('pos') == y.get('pos') and x.get('pos') is not None \
                        and x['pos'] < len(c['texts'][t]):
                    if (x.get('line'), x.get('col'), x.get('text')) != (y.get('line'), y.get('col'), y.get('text')):
                        ck.violation({'kind': 'parse', 'inputs': {'grammar': c['ebnf'], 'text': c['texts'][t]},
                                      'expected': 'TextLines and Buffer report the same line, column and source line for the same offset',
                                      'observed': {a: {k: x.get(k) for k in ('pos', 'line', 'col', 'text')}, b: {k: y.get(k) for k in ('pos', 'line', 'col', 'text')}},
                                      'spec': 'LinePos (both input implementations)'}, key='tl-vs-buffer')
            for how, o in res.items():
                ck.count(evaluations=1, traces=1)
                why = domain(c, c['texts'][t], how, o)
                if why:
                    ck.violation({'kind': 'parse', 'inputs': {'grammar': c['ebnf'], 'text': c['texts'][t], 'how': how}, 'expected': 'a result or a parse failure at a consistent position',
                                  'observed': o, 'why': why, 'spec': 'C08 outcome domain + LinePos'}, key='fuzz' + why.split(':')[1][:45])
    # ---- (3) compile inputs near the grammar language
    from ..derived import run_boot_case
    gtexts = list(SYNTAX) + [e for _n, e, _t in FULL]
    for t in list(gtexts):
        gtexts += mutate(t, rnd, 6 if tier == 'quick' else 40)
    gtexts = list(dict.fromkeys(gtexts))
    res3 = [x for ch in pmap(run_boot_case, [{'texts': gtexts[i:i + 15]} for i in range(0, len(gtexts), 15)], procs=16, chunk=1, recycle=30) for x in ch]
    for o in res3:
        ck.count(evaluations=1, traces=1)
        a = [f for f in o['foreign'] if f.startswith('A:')]
        if a:
            ck.violation({'kind': 'parse', 'inputs': {'grammar_text': o['text']}, 'expected': 'a grammar model or a TatSu parse/grammar error',
                          'observed': a[0], 'spec': 'C08: compiling any grammar text'}, key='compile' + a[0].split(':')[1][:30])
    # ---- (4) lexical directives and literals that stress the regex / escape / constant machinery: patterns that match the empty string
    # (a skip loop that does not advance must still terminate), invalid regular expressions, invalid escapes, constants whose
    # evaluation raises
    stress_texts = [list(t) for t in ['', 'a', 'a b', 'ab', 'a  b', 'x', 'a xx b', '# c\na b', 'a a', 'a b a', ' a b ']]
    cases4 = [default_case(e if isinstance(e, str) else e[0], stress_texts + ([] if isinstance(e, str) else [list(t) for t in e[1]]),
                           label='stress', timeout=6) for e in STRESS]
    impl4 = run_impl(cases4, fn=run_error_case, chunk=1)
    for c, im in zip(cases4, impl4):
        ck.count(evaluations=1, traces=1)
        if im['compile']['k'] == 'exc':
            what = f"compile({c['ebnf']!r}) raised {im['compile'].get('cls')}"
            if kf_stress(ck, c['ebnf'], im['compile'], what):
                continue
            ck.violation({'kind': 'parse', 'inputs': {'grammar': c['ebnf']}, 'expected': 'a model or a TatSu parse/grammar error', 'observed': im['compile'],
                          'spec': 'C08: compiling any grammar text'}, key='c4' + c['ebnf'])
            continue
        for t, res in enumerate(im.get('res', [])):
            for how, o in res.items():
                ck.count(evaluations=1, traces=1)
                why = domain(c, c['texts'][t], how, o)
                if why:
                    what = f"{c['ebnf']!r} on {''.join(c['texts'][t])!r}: {o.get('cls')}"
                    if kf_stress(ck, c['ebnf'], o, what):
                        continue
                    ck.violation({'kind': 'parse', 'inputs': {'grammar': c['ebnf'], 'text': c['texts'][t], 'how': how},
                                  'expected': 'a result or a parse failure at a consistent position', 'observed': o, 'why': why,
                                  'spec': 'C08 outcome domain'}, key='stress' + c['ebnf'] + str(o.get('cls')))
    ck.cov['distinct_nontrivial'] = nd
    ck.notes.update({'meta_texts': len(texts), 'fuzz_grammars': len(pool), 'grammar_texts': len(gtexts)})
    ck.cov['rule'] = ('(1) 10 meta grammars x every text over {1,0,+,-,.,e,_,x,space} up to length 3/4 (+20) x {TextLines, Buffer} x parseinfo on/off; '
                      '(2) full-language and random core grammars x 40 texts (empty, controls, CR/LF mixes, separators, non-ASCII, long, random); (3) syntax corpus + '
                      'character-level mutants as compile input; non-trivial = meta case accepted by the specification')
    ck.assumptions += ['the quantifier over all unicode strings is sampled by class representatives', 'end-of-text failure positions are compared for range only (KF-C12-1)']
    return ck.finish()
