"""C11 - reserved words are never accepted where a name is required.
PegSem applies the keyword check of @name rules after the body and before the action (an ordinary failure); TLC evaluates it on
keyword grammars x texts mixing keywords, prefixes/suffixes and case variants x ignorecase; model and generated parser are replayed,
with and without a (tagging) semantic action, ignorecase given as directive and as parse-time setting."""
from __future__ import annotations

import itertools

from ..absgrammar import (all_texts, alt, and_, call, chars_of, eof, grammar, make_cfg, named, not_, opt, pat, rule, seq, star,
                          tok, to_ebnf)
from ..common import Check
from ..impl import run_sem_case
from ..pegcheck import Jobs, default_case, run_impl, run_oracle, spec_outcome
from .c06 import untag_names


def shapes(idrule, rname='id'):
    i = call(rname)
    kw = tok('if')
    return {
        'closure': seq(star(i), eof()),
        'kw-then-name': alt(seq(kw, i), i),
        'name-or-kw': seq(alt(i, kw), eof()),
        'lookahead': alt(seq(not_(i), kw), i),
        'closure-alt': seq(star(alt(i, kw)), eof()),
        'named': seq(named('x', i), named('y', star(i))),
        'and': seq(and_(i), pat(list('ifxIF'), 1, True)),
        'kw-prefix': seq(kw, opt(i), eof()),
    }


def universe(tier):
    items = []
    letters = list('ifxIF')
    idpat = pat(letters, 1, True)
    base_texts = all_texts(['i', 'f', 'x', ' '], 4 if tier == 'quick' else 5)
    case_texts = [list(t) for t in ['IF', 'If', 'iF', 'IF x', 'x IF', 'ifx', 'xif', 'if if', 'in', 'i f', 'IFX', 'I', 'if I']]
    texts = base_texts + case_texts
    for kws in (['if'], ['if', 'x'], ['if', 'fi', 'ix']):
        for name, e in shapes(idpat).items():
            for isname in (True, False):
                g = grammar(rule('s', e), rule('id', idpat, isname=isname), keywords=kws)
                for ic_mode in ('off', 'directive', 'setting'):
                    items.append({'g': g, 'texts': texts, 'label': f'{name}/kw={",".join(kws)}/name={isname}/ic={ic_mode}',
                                  'ic': ic_mode, 'kws': kws})
    # a large keyword table (the generated parser carries its own copy)
    two = [''.join(p) for p in itertools.product('abcd', repeat=2)]
    kws = two[:13]
    g = grammar(rule('s', seq(call('id'), eof())), rule('id', pat(list('abcd'), 1, True), isname=True), keywords=kws)
    items.append({'g': g, 'texts': [list(w) for w in two] + [list('abc'), list('a'), list('aab'), list(' ab')], 'label': 'table13',
                  'ic': 'off', 'kws': kws})
    # the reserved-word check is independent of the other decorators of the rule (@nomemo, a token-rule name, parameters)
    for name in ('closure', 'kw-then-name', 'lookahead', 'closure-alt'):
        e = shapes(idpat)[name]
        g = grammar(rule('s', e), rule('id', idpat, isname=True, nomemo=True), keywords=['if', 'x'])
        items.append({'g': g, 'texts': texts, 'label': f'{name}/name+nomemo', 'ic': 'off', 'kws': ['if', 'x']})
        g = grammar(rule('s', e), rule('id', idpat, isname=True, params=['T']), keywords=['if', 'x'])
        items.append({'g': g, 'texts': texts, 'label': f'{name}/name+params', 'ic': 'setting', 'kws': ['if', 'x']})
    # ... nor of the rule's name: a capitalised (token) rule can be a @name rule too
    for name in ('closure', 'kw-then-name', 'closure-alt'):
        e = shapes(idpat, 'Ident')[name]
        g = grammar(rule('s', e), rule('Ident', idpat, isname=True), keywords=['if', 'x'])
        items.append({'g': g, 'texts': texts, 'label': f'{name}/capitalised-name-rule', 'ic': 'off', 'kws': ['if', 'x'], 'rules': ['s', 'Ident']})
    # the layers of the ignorecase setting: switched on by the directive, switched off for one parse (keywords as declared)
    for name in ('closure', 'kw-then-name'):
        g = grammar(rule('s', shapes(idpat)[name]), rule('id', idpat, isname=True), keywords=['if', 'x'])
        items.append({'g': g, 'texts': texts, 'label': f'{name}/directive-on-parse-off', 'ic': 'directive-then-off', 'kws': ['if', 'x']})
    # a @name rule written with the rule-inheritance syntax: `id < word = () ;` is word's right-hand side followed by (), still a @name rule
    from ..absgrammar import void
    for name in ('closure', 'kw-then-name', 'closure-alt'):
        g = grammar(rule('s', shapes(idpat)[name]), rule('word', idpat), rule('id', seq(idpat, void()), isname=True), keywords=['if', 'x'])
        src = to_ebnf(grammar(rule('s', shapes(idpat)[name]), rule('word', idpat), keywords=['if', 'x'])).rstrip('\n') + '\n@name\nid < word = () ;\n'
        items.append({'g': g, 'src': src, 'texts': texts, 'label': f'{name}/based-name-rule', 'ic': 'off', 'kws': ['if', 'x']})
    quoted = grammar(rule('s', seq(star(call('id')), eof())), rule('id', idpat, isname=True), keywords=['if', 'fi'])
    items.append({'g': quoted, 'texts': texts, 'label': 'quoted-keywords', 'ic': 'off', 'kws': ['if', 'fi'], 'quoted': True})
    return items


def run_reuse_case(case):
    """One generated parser object used for a sequence of parses whose ignorecase setting changes from call to call: every answer must be
    the one a fresh parser object (and the grammar model) gives for that call alone."""
    import tatsu
    from ..impl import _Quiet, clear_caches, load_generated, outcome
    clear_caches()
    bad = []
    with _Quiet():
        model = tatsu.compile(case['ebnf'])
        cls, _src = load_generated(case['ebnf'])
    for order in case['orders']:
        shared = cls()
        for text, ic in order:
            kw = {} if ic is None else {'ignorecase': ic}
            with _Quiet():
                a = outcome(lambda: shared.parse(text, start='s', **kw))
                b = outcome(lambda: cls().parse(text, start='s', **kw))
                m = outcome(lambda: model.parse(text, start='s', **kw))
            if (a['k'], a.get('v')) != (b['k'], b.get('v')) or (a['k'], a.get('v')) != (m['k'], m.get('v')):
                bad.append({'order': order, 'text': text, 'ignorecase': ic, 'reused_object': a, 'fresh_object': b, 'model': m})
                break
    return bad


def reuse_across_settings(ck, tier):
    from ..common import pmap
    idpat = pat(list('ifxIF'), 1, True)
    cases = []
    for name in ('closure', 'kw-then-name', 'closure-alt', 'name-or-kw'):
        for kws in (['if'], ['if', 'x']):
            g = grammar(rule('s', shapes(idpat)[name]), rule('id', idpat, isname=True), keywords=kws)
            texts = ['if', 'IF', 'x', 'X', 'ix', 'if x', 'IF x', 'fi', 'If']
            orders = []
            for t1, t2 in itertools.product(texts[:6], texts):
                for i1, i2 in ((None, True), (True, None), (True, False), (False, True)):
                    orders.append([[t1, i1], [t2, i2]])
            orders += [[[t, ic] for t in texts for ic in (None, True, False, True, None)]]
            cases.append({'ebnf': to_ebnf(g), 'orders': orders, 'label': f'{name}/{",".join(kws)}'})
    res = pmap(run_reuse_case, cases, procs=8, chunk=1, recycle=1)
    n = 0
    for c, bad in zip(cases, res):
        n += sum(len(o) for o in c['orders'])
        ck.count(evaluations=sum(len(o) for o in c['orders']), traces=sum(len(o) for o in c['orders']))
        for b in bad[:3]:
            ck.violation({'kind': 'history', 'inputs': {'grammar': c['ebnf'], 'calls_on_one_generated_parser_object': b['order'], 'text': b['text'],
                                                        'ignorecase': b['ignorecase']},
                          'expected': {'fresh parser object': b['fresh_object'], 'model': b['model']}, 'observed': b['reused_object'],
                          'why': 'a @name rule of a generated parser object that was used before, with another ignorecase setting, decides differently from a fresh '
                                 'object and from the model', 'spec': 'PegSem!Body (IsKeyword under the ignorecase of THIS parse)'},
                         key='reuse' + c['label'] + str(b['ignorecase']))
    ck.notes['reused_parser_calls'] = n


def run(tier):
    ck = Check('C11', tier)
    items = universe(tier)
    reuse_across_settings(ck, tier)
    jobs, cases, per = Jobs(), [], {}
    for idx, it in enumerate(items):
        ic = it['ic'] in ('directive', 'setting')
        for act in ('none', 'tag'):
            cfg = make_cfg(chars_of(it['g'], it['texts']), ignorecase=ic, keywords=it['kws'], act=act, actrule='*')
            jobs.add(it['g'], cfg, it['texts'])
        ebnf = it.get('src') or to_ebnf(it['g'], directives={'ignorecase': 'True'} if it['ic'] in ('directive', 'directive-then-off') else None)
        if it.get('quoted'):
            ebnf = ebnf.replace('@@keyword :: if', "@@keyword :: 'if'").replace('@@keyword :: fi', '@@keyword :: "fi"')
        settings = {'ignorecase': True} if it['ic'] == 'setting' else {'ignorecase': False} if it['ic'] == 'directive-then-off' else {}
        for backend in ('model', 'generated'):
            cases.append(default_case(ebnf, it['texts'], settings=settings, rules=it.get('rules', ['s', 'id']), kinds=['none', 'tag'],
                                      backend=backend, label=it['label'], item=idx))
    r, spec = run_oracle(jobs)
    ck.add_tlc(r, 'PegSemBatch')
    impl = run_impl(cases, fn=run_sem_case, chunk=2)
    seen = set()
    nkw = 0
    for ci, (c, im) in enumerate(zip(cases, impl)):
        idx = c['item']
        sp = {'none': [spec_outcome(s) for s in spec[2 * idx + 1]], 'tag': [spec_outcome(s) for s in spec[2 * idx + 2]]}
        if im['compile']['k'] != 'ok':
            ck.violation({'kind': 'parse', 'inputs': {'grammar': c['ebnf'], 'backend': c['backend']}, 'expected': 'compiles',
                          'observed': im['compile']}, key='compile' + c['ebnf'] + c['backend'])
            continue
        for t, res in enumerate(im['res']):
            text = c['texts'][t]
            for kind in ('none', 'tag'):
                so, o = sp[kind][t], res[kind]
                ck.count(evaluations=1, traces=1)
                if so['k'] == 'ok':
                    seen.add((c['ebnf'], repr(so.get('v')), kind))
                why = None
                if so['k'] == 'ok':
                    if o['k'] != 'ok':
                        why = f"spec accepts, impl {o['k']}:{o.get('cls')}"
                    elif not so['unspec'] and o['v'] != so['v']:
                        why = 'value'
                elif so['k'] == 'fail':
                    if o['k'] == 'ok':
                        why = 'spec rejects (keyword where a name is required, or no match), impl accepts'
                    elif o['k'] != 'fail':
                        why = f"spec: ordinary parse failure, impl {o['k']}:{o.get('cls')}"
                if ci % 60 == 0 and t == 9 and kind == 'none':
                    ck.sample({'label': c['label'], 'grammar': c['ebnf'], 'text': text, 'backend': c['backend'], 'spec': so, 'impl': o})
                if why and c['label'].endswith('/directive-on-parse-off') and (why.startswith('spec accepts') or why.startswith('spec rejects')) \
                        and any(ch.isalpha() for ch in ''.join(text)) \
                        and ck.known('KF-C11-1', f"{c['ebnf'].strip()} on {''.join(text)!r} [{c['backend']}]: {why}"):
                    continue
                if why:
                    ck.violation({'kind': 'parse', 'inputs': {'grammar': c['ebnf'], 'text': text, 'backend': c['backend'],
                                                              'settings': c['settings'], 'semantics': kind, 'label': c['label']},
                                  'expected': so, 'observed': o, 'why': why, 'spec': 'PegSem!Body (IsKeyword before Act)'},
                                 key=c['ebnf'] + c['backend'] + kind + why[:12] + str(c['settings']))
    # history counters on the machine (spec/PegMachineObs.tla): the step that rejects a keyword calls no action and leaves a failure in
    # the memo table (KeywordBeforeAction), under every memo schedule, with memoization on and off
    from ..pegcheck import observer_check
    obs_items = [{'g': it['g'], 'texts': it['texts'], 'cfg': {'ignorecase': it['ic'] in ('directive', 'setting'), 'keywords': it['kws']}}
                 for it in items if it['ic'] in ('off', 'directive') and not it.get('quoted')]
    observer_check(ck, obs_items[ck.seed % 6::6] if tier == 'quick' else obs_items, 'C11 keywords', maxlen=3, maxtexts=40)
    ck.cov['distinct_nontrivial'] = len(seen)
    ck.cov['exhaustive'] = True
    ck.cov['rule'] = (f'{len(items)} keyword grammars (8 shapes: closure, keyword before/after the name alternative, lookaheads, named, '
                      'prefix; 1-3 keywords; @name on/off; ignorecase off / directive / parse setting / directive on and parse setting off; a 13-keyword table; quoted keywords) '
                      'x all texts over {i,f,x,space} up to the bound + case variants x {no semantics, tagging action} x {model, generated}')
    return ck.finish()
