"""C10 - API results depend only on the arguments, not on earlier or concurrent calls.
spec/ApiHistory.tla: the compile cache, the shared model objects and the handles callers keep; TLC proves HistoryIndependent and
ModelStable for the required design (all histories up to MaxCalls over the call pool) and refutes them for the design as coded; the
state graph of the as-coded design is covered edge by edge with call histories, each replayed in its own fresh interpreter; every
response is compared with the same call executed alone in a fresh interpreter (the property's own oracle).  A mismatch that the
as-coded specification predicts is the listed known finding; any other is a violation.  N threads share one model under a 1 us switch
interval."""
from __future__ import annotations

import json
import os
import shutil

from .. import tlc
from ..apireplay import run_genparser_pairs, run_history, run_identity, run_threads
from ..common import Check, pmap
from ..dotgraph import Graph, split_action


def cfg_text(asis, maxcalls, dump=False):
    return ('CONSTANTS Grammars = {"g1", "g2", "g3"}\nColliding = {"g3"}\nNames = {"none", "N"}\nSems = {"s1"}\n'
            f'AsIs = {"TRUE" if asis else "FALSE"}\nMaxCalls = {maxcalls}\nMaxHandles = 2\nSPECIFICATION Spec\n'
            + ('' if dump else 'INVARIANT HistoryIndependent\nINVARIANT ModelStable\n') + 'CHECK_DEADLOCK FALSE\n')


def call_of(state):
    return {k: v for k, v in state['last'].items()}


def builder_options(ck, d, tier):
    """spec/BuilderOptions.tla: the object-model options of compile() against the compiled-grammar cache and the registry of synthesized
    classes.  TLC proves the required design and refutes the others; the call histories of the design as coded (options in the cache
    key, a class registry that keeps the first bases it saw: KF-C10-5) are replayed in fresh interpreters; every response must be the
    ideal one, or - under the listed finding only - exactly what that design predicts."""
    from ..apireplay import run_builder_history

    def cfg(key, reg, maxcalls, props=True):
        return ('CONSTANTS Opts = {"plain", "A", "B"}\n' + f'KeyHasOptions = {key}\nRegistryPerBases = {reg}\nMaxCalls = {maxcalls}\nMaxHandles = 2\n'
                'SPECIFICATION Spec\n' + ('INVARIANT HistoryIndependent\nINVARIANT ModelStable\n' if props else '') + 'CHECK_DEADLOCK FALSE\n')
    c = os.path.join(d, 'bo.cfg')
    open(c, 'w').write(cfg('TRUE', 'TRUE', 4 if tier == 'quick' else 5))
    r = tlc.run_tlc('BuilderOptions', cfg=c, timeout=900)
    ck.add_tlc(r, 'BuilderOptions (required design)')
    if r.violated:
        ck.violation({'kind': 'history', 'inputs': {'spec': 'BuilderOptions (required design)'}, 'expected': 'HistoryIndependent, ModelStable',
                      'observed': r.violated, 'trace': r.trace[:40]}, key='bo' + str(r.violated))
    for key, reg in (('FALSE', 'FALSE'), ('TRUE', 'FALSE'), ('FALSE', 'TRUE')):
        open(c, 'w').write(cfg(key, reg, 3))
        rb = tlc.run_tlc('BuilderOptions', cfg=c, timeout=600)
        ck.notes.setdefault('builder_option_designs_refuted', {})[f'KeyHasOptions={key} RegistryPerBases={reg}'] = rb.violated
        if not rb.violated:
            raise tlc.MachineryError(f'BuilderOptions: the design KeyHasOptions={key} RegistryPerBases={reg} is not refuted (vacuous model)')
    open(c, 'w').write(cfg('TRUE', 'FALSE', 3 if tier == 'quick' else 4, props=False))
    dot = os.path.join(d, 'gbo')
    tlc.run_tlc('BuilderOptions', cfg=c, workers=1, dump_dot=dot, timeout=900)
    g = Graph(dot + '.dot')
    paths = g.edge_cover_paths(is_final=lambda n: True)
    ck.notes['builder_option_graph'] = {'states': len(g.states), 'edges': sum(1 for _ in g.edges()), 'histories': len(paths)}
    cases = [{'path': [[lbl, g.states[n]] for lbl, n in pp[1]]} for pp in paths]
    res = pmap(run_builder_history, cases, procs=16, chunk=1, recycle=1)
    for cs, out in zip(cases, res):
        for i, o in enumerate(out):
            ck.count(evaluations=1, traces=1, nontrivial=1 if i else 0)
            if o['observed'] == o['ideal']:
                continue
            hist = [x['call'] for x in out[:i + 1]]
            what = f"history {json.dumps(hist)}: the node derives from {o['observed']!r}, the call alone gives {o['ideal']!r}"
            if o['observed'] == o['as_coded'] and ck.known('KF-C10-5', what):
                continue
            ck.violation({'kind': 'history', 'inputs': {'history': hist, 'grammar': "start::Thing = x:'a' ;",
                                                        'options': 'plain: asmodel=True; A / B: basetype=BaseA / BaseB'},
                          'expected': {'ideal': o['ideal'], 'design as coded (KF-C10-5)': o['as_coded']}, 'observed': o['observed'],
                          'why': 'the object-model options of an earlier call decide what this call builds', 'spec': 'BuilderOptions!HistoryIndependent'},
                         key='bo' + str(o['call']) + o['observed'] + str(o['ideal']))


def thread_share(ck, d, tier):
    """spec/ThreadShare.tla: the shared-state steps of threads parsing with one freshly compiled asmodel model.  TLC proves the
    design as required (get-or-create class registry, serialized optimized()), refutes the two racy designs, and the behaviours of
    the required design - every interleaving of the steps, an edge cover of its state graph - are FORCED onto the real code with
    the abstract state compared after every action (harness/threadreplay.py)."""
    from ..threadreplay import dry_run, replay_threads, GRAMMARS

    def cfg(work, threads, atomic=True, locked=True, props=True):
        return (f'CONSTANT Threads = {{{", ".join(str(t) for t in range(1, threads + 1))}}}\nCONSTANT Work <- {work}\n'
                f'CONSTANT AtomicSynth = {"TRUE" if atomic else "FALSE"}\nCONSTANT Locked = {"TRUE" if locked else "FALSE"}\n'
                'SPECIFICATION Spec\n' + ('INVARIANT TypeOK\nINVARIANT NoError\nINVARIANT OneClassPerName\nINVARIANT BuiltOnce\n'
                                          'INVARIANT ThreadIndependent\nPROPERTY Finishes\n' if props else '') + 'CHECK_DEADLOCK FALSE\n')
    for work, nth in [('W4', 2), ('W3b', 2), ('W2', 3)] + ([('W4', 3)] if tier == 'thorough' else []):
        c = os.path.join(d, f'ts_{work}_{nth}.cfg')
        open(c, 'w').write(cfg(work, nth))
        r = tlc.run_tlc('ThreadShareMC', cfg=c, timeout=1500)
        ck.add_tlc(r, f'ThreadShare required design, Work={work}, {nth} threads')
        if r.violated:
            ck.violation({'kind': 'schedule', 'inputs': {'spec': 'ThreadShare (required design)', 'Work': work, 'threads': nth},
                          'expected': 'NoError, OneClassPerName, BuiltOnce, ThreadIndependent, Finishes', 'observed': r.violated,
                          'trace': r.trace[:60]}, key='tsreq' + work + str(r.violated))
    for label, kw, inv in (('check-then-act registry', {'atomic': False}, 'NoError'), ('unserialized optimized()', {'locked': False}, 'BuiltOnce')):
        c = os.path.join(d, 'ts_bad.cfg')
        open(c, 'w').write(cfg('W2', 2, **kw))
        r = tlc.run_tlc('ThreadShareMC', cfg=c, timeout=600)
        ck.notes.setdefault('thread_designs_refuted', {})[label] = r.violated
        if r.violated != inv:
            raise tlc.MachineryError(f'ThreadShare: the design "{label}" is not refuted by {inv} (got {r.violated}): vacuous model')
    # the instrumentation must see, for ONE thread, exactly the specification's sequential behaviour
    want = {'W2': 2, 'W4': 4, 'W3b': 3}
    for work in GRAMMARS:
        seq = dry_run(work)
        if seq[:3] != ['optEntry', 'optLock', 'optBuild'] or seq[-1] != 'done' or seq.count('find') != want[work]:
            raise tlc.MachineryError(f'thread replay: a single thread passes {seq} on {work}; the specification expects optEntry optLock '
                                     f'optBuild, {want[work]} find steps, done')
    cases = []
    for work, nth in [('W2', 2), ('W3b', 2)] + ([('W4', 2), ('W2', 3)] if tier == 'thorough' else []):
        c = os.path.join(d, f'tsd_{work}_{nth}.cfg')
        open(c, 'w').write(cfg(work, nth, props=False))
        dot = os.path.join(d, f'tsg_{work}_{nth}')
        tlc.run_tlc('ThreadShareMC', cfg=c, workers=1, dump_dot=dot, timeout=1500)
        g = Graph(dot + '.dot')
        paths = g.edge_cover_paths(is_final=lambda n: all(p in ('done', 'error') for p in g.states[n]['pc']))
        ck.notes.setdefault('thread_graphs', []).append({'Work': work, 'threads': nth, 'states': len(g.states),
                                                         'edges': sum(1 for _ in g.edges()), 'behaviours': len(paths)})
        for start, path in paths:
            cases.append({'work': work, 'nthreads': nth, 'init': g.states[start], 'path': [[a, g.states[n]] for a, n in path]})
    if tier == 'quick' and len(cases) > 400:
        cases = cases[ck.seed % 2::2]
    res = pmap(replay_threads, cases, procs=16, chunk=4, recycle=200)
    for c, o in zip(cases, res):
        ck.count(evaluations=1, traces=1, nontrivial=1)
        if len(ck.cov['samples']) < 5 and o['ok'] and any(a.startswith('Create') for a, _s in c['path']) and \
                sum(1 for a, _s in c['path'] if a.startswith('Create')) >= 2:
            ck.sample({'forced_interleaving': [a for a, _s in c['path']], 'Work': c['work'], 'replay': o})
        if not o['ok']:
            ck.violation({'kind': 'schedule', 'inputs': {'Work': c['work'], 'threads': c['nthreads'], 'grammar': GRAMMARS[c['work']][0],
                                                         'text': GRAMMARS[c['work']][1], 'interleaving': [a for a, _s in c['path']]},
                          'expected': 'the threads follow the behaviour of ThreadShare (required design): one class per type name, no '
                                      'TypeResolutionError, the optimized grammar built once',
                          'observed': o, 'why': o['why'], 'spec': 'ThreadShare!Next'},
                         key='tsreplay' + c['work'] + o['why'][:60])
    ck.notes['forced_interleavings_replayed'] = len(cases)


def run(tier):
    ck = Check('C10', tier)
    d = tlc.scratch_dir('api')
    try:
        maxcalls = 3 if tier == 'quick' else 4
        req = os.path.join(d, 'req.cfg')
        open(req, 'w').write(cfg_text(False, maxcalls))
        r = tlc.run_tlc('ApiHistory', cfg=req, timeout=3000)
        ck.add_tlc(r, f'ApiHistory required design, histories <= {maxcalls}')
        if r.violated:
            ck.violation({'kind': 'history', 'inputs': {'spec': 'ApiHistory (required design)'}, 'expected': 'HistoryIndependent, ModelStable',
                          'observed': r.violated, 'trace': r.trace[:60]}, key='required' + r.violated)
        asis = os.path.join(d, 'asis.cfg')
        open(asis, 'w').write(cfg_text(True, 3))
        ra = tlc.run_tlc('ApiHistory', cfg=asis, timeout=3000)
        ck.add_tlc(ra, 'ApiHistory design as coded (expected to be refuted)')
        ck.notes['as_coded_design_refuted'] = ra.violated
        # state graph of the as-coded design: every (state, call) pair within 3 calls
        dump = os.path.join(d, 'dump.cfg')
        open(dump, 'w').write(cfg_text(True, 3, dump=True))
        dot = os.path.join(d, 'g')
        tlc.run_tlc('ApiHistory', cfg=dump, workers=1, dump_dot=dot, timeout=3000)
        g = Graph(dot + '.dot')
        paths = g.edge_cover_paths(is_final=lambda n: True)
        ck.notes['graph'] = {'states': len(g.states), 'edges': sum(1 for _ in g.edges()), 'histories': len(paths)}
        if tier == 'quick':
            paths = paths[ck.seed % 36::36]
        histories = []
        for start, path in paths:
            calls = [call_of(g.states[n]) for _a, n in path]
            pred = [g.states[n]['resp'] for _a, n in path]
            histories.append({'calls': calls, 'pred': pred})
        # the oracle: each distinct call alone in a fresh interpreter (a modelparse is preceded by its creating compile)
        singles = {}
        for h in histories:
            handles = []
            for c in h['calls']:
                if c['op'] == 'compile' and len(handles) < 2:
                    handles.append(c)
                if c['op'] in ('modelparse', 'failedparse'):
                    if c['h'] > len(handles):
                        continue
                    key = json.dumps([handles[c['h'] - 1], dict(c, h=1)], sort_keys=True)
                    singles[key] = [handles[c['h'] - 1], dict(c, h=1)]
                else:
                    singles[json.dumps([c], sort_keys=True)] = [c]
        keys = sorted(singles)
        import tatsu  # noqa: F401  (imported, never used, in this process: every forked child starts as a freshly imported interpreter)
        fresh = pmap(run_history, [{'calls': singles[k]} for k in keys], procs=16, chunk=1, recycle=1)
        oracle = {k: o[-1] for k, o in zip(keys, fresh)}
        res = pmap(run_history, [{'calls': h['calls']} for h in histories], procs=16, chunk=1, recycle=1)
        for h, out in zip(histories, res):
            handles = []
            for i, (c, (a, f)) in enumerate(zip(h['calls'], out)):
                if c['op'] == 'compile' and len(handles) < 2:
                    handles.append(c)
                if a.get('k') == 'skip':
                    continue
                if c['op'] in ('modelparse', 'failedparse'):
                    key = json.dumps([handles[c['h'] - 1], dict(c, h=1)], sort_keys=True)
                else:
                    key = json.dumps([c], sort_keys=True)
                wa, wf = oracle[key]
                ck.count(evaluations=1, traces=1, nontrivial=1 if i > 0 else 0)
                if len(ck.cov['samples']) < 3 and i == 2:
                    ck.sample({'history': h['calls'], 'responses': [x[0] for x in out], 'fresh': wa})
                if f == wf:
                    continue
                what = f"history {json.dumps(h['calls'][:i + 1])}: response {a} but alone in a fresh interpreter {wa}"
                pred = h['pred'][i]
                predicted = all(str(pred.get(k)) == str(a.get(k)) for k in ('g', 'sem') if k in a and k in pred) and a.get('k') in ('parse', 'model')
                if predicted and a != wa and ck.known('KF-C10-1', what):
                    continue
                ck.violation({'kind': 'history', 'inputs': {'history': h['calls'][:i + 1]}, 'expected': {'abstract': wa, 'fingerprint': wf},
                              'observed': {'abstract': a, 'fingerprint': f}, 'why': 'response differs from the same call in a fresh interpreter',
                              'as_coded_spec_predicts': pred, 'spec': 'ApiHistory!HistoryIndependent'},
                             key=json.dumps([c, a.get('sem'), a.get('name'), wa.get('sem'), wa.get('name')], sort_keys=True))
        # identities of semantics objects: spec/SemIdentity.tla (the action cache must be keyed so that an entry cannot outlive its
        # object); TLC proves the design as coded, refutes the by-address design, and the behaviours of the refuted design (with
        # address reuse) are replayed into the real code
        ri = tlc.run_tlc('SemIdentity', cfg='SemIdentity', timeout=600)
        ck.add_tlc(ri, 'SemIdentity (cache keyed by object)')
        if ri.violated:
            ck.violation({'kind': 'history', 'inputs': {'spec': 'SemIdentity'}, 'expected': 'ActionsOfGivenObject, TypeOK', 'observed': ri.violated,
                          'trace': ri.trace[:40]}, key='semid' + str(ri.violated))
        for cfgname, label in (('SemIdentityById', 'by_address_design_refuted'), ('SemIdentityByEq', 'by_equality_design_refuted')):
            rb = tlc.run_tlc('SemIdentity', cfg=cfgname, timeout=600)
            ck.notes[label] = rb.violated
            if not rb.violated:
                raise tlc.MachineryError(f'SemIdentity: the design {cfgname} is not refuted (vacuous model)')
        icases = []
        for objects, addrs, keyby, truth, maxsteps, stride in (('{"p1", "t1", "t2"}', '{"A", "B"}', 'address', 'FALSE', 6, 3),
                                                               ('{"e1", "e2", "u1", "f1"}', '{"A", "B", "C", "D"}', 'equality', 'TRUE', 4, 2)):
            dumpc = os.path.join(d, f'semid_{keyby}.cfg')
            open(dumpc, 'w').write(f'CONSTANTS Objects = {objects}\nAddrs = {addrs}\nKeyBy = "{keyby}"\nTruthTest = {truth}\n'
                                   f'MaxSteps = {maxsteps}\nSPECIFICATION Spec\nCHECK_DEADLOCK FALSE\n')
            doti = os.path.join(d, f'gi_{keyby}')
            tlc.run_tlc('SemIdentity', cfg=dumpc, workers=1, dump_dot=doti, timeout=600)
            gi = Graph(doti + '.dot')
            ipaths = gi.edge_cover_paths(is_final=lambda n: True)
            ipaths = [pp for pp in ipaths if any(lbl.startswith('Parse') for lbl, _n in pp[1])]
            if keyby == 'equality':          # addresses play no part in this design: one behaviour per sequence of action labels
                ipaths = list({tuple(lbl for lbl, _n in pp[1]): pp for pp in ipaths}.values())
                stride = 1
            ck.notes.setdefault('identity_graphs', []).append({'KeyBy': keyby, 'states': len(gi.states), 'behaviours': len(ipaths)})
            if tier == 'quick':
                ipaths = ipaths[ck.seed % stride::stride]
            icases += [{'path': [[lbl, gi.states[n]] for lbl, n in pp[1]]} for pp in ipaths]
        ires = pmap(run_identity, icases, procs=16, chunk=1, recycle=1)
        nre = 0
        for ic, io in zip(icases, ires):
            ck.count(evaluations=1, traces=1)
            nre += io['reused']
            for b in io['bad']:
                ck.violation({'kind': 'history', 'inputs': {'history': b['history']}, 'expected': b['expected'], 'observed': b['observed'],
                              'why': f"model.parse(text, semantics=<{b['object']}>) did not run the actions of the semantics object it was given "
                                     '(p*: no action, t*: tagging action, e1/e2: equal objects with different tags, u1: unhashable, f1: falsy)',
                              'spec': 'SemIdentity!ActionsOfGivenObject'}, key='semid' + b['object'] + b['observed'][:30])
        ck.notes['identity_histories'] = len(icases)
        ck.notes['identity_address_reuses_achieved'] = nre
        # a long-lived generated parser object: every ordered pair of per-call settings
        for c, bad in zip(['g1', 'g2'], pmap(run_genparser_pairs, [{'g': 'g1'}, {'g': 'g2'}], procs=2, chunk=1, recycle=1)):
            ck.count(evaluations=72, traces=72, nontrivial=72)
            for b in bad:
                ck.violation({'kind': 'history', 'inputs': {'grammar': c, 'history': f"parser.parse(text, {b['first']})" + (' [failing]' if b['first_failed'] else '')
                                                            + f" ; parser.parse(text, {b['second']})"},
                              'expected': b['expected'], 'observed': b['observed'],
                              'why': 'a generated parser object answers differently after an earlier call', 'spec': 'ApiHistory!HistoryIndependent'},
                             key='genpair' + b['first'] + b['second'])
        # the object-model options of compile() against the cache and the class registry
        builder_options(ck, d, tier)
        # threads on one shared model: the shared-state steps, model-checked and forced onto the real code
        thread_share(ck, d, tier)
        # threads on one shared model, free running
        tcases = [
            {'grammar': "start = expr $ ; expr = term {('+' | '-') term} ; term = /[0-9]+/ | '(' expr ')' ;", 'threads': 4,
             'inputs': ['1', '1+2', '(1+2)-3', '1+', '((7))', '1 2', '4-(5-(6))']},
            {'grammar': "start = e $ ; e = e '+' t | e '-' t | t ; t = /[0-9]+/ | '(' e ')' ;", 'threads': 4,
             'inputs': ['1', '1+2', '1+2-3', '(1+2)-3', '1+', '1+2+3+4+5', '9-(8-7)']},
            {'grammar': "start::Sum = l:num {'+' r+:num} $ ; num::Num = v:/[0-9]+/ ;", 'threads': 4, 'compile_kw': {'asmodel': True},
             'inputs': ['1', '1+2', '1+2+3', '+', '12+34']},
        ]
        if tier == 'thorough':
            tcases = [dict(c, threads=8, rounds=20) for c in tcases]
        for c, bad in zip(tcases, pmap(run_threads, tcases, procs=3, chunk=1, recycle=1)):
            ck.count(evaluations=c['threads'] * len(c['inputs']) * c.get('rounds', 6), traces=1)
            for b in bad:
                ck.violation({'kind': 'schedule', 'inputs': {'grammar': c['grammar'], 'threads': c['threads'], 'input': b['input']},
                              'expected': b['expected'], 'observed': b['observed'],
                              'why': 'a parse running concurrently with others on the same model returns a different result',
                              'spec': 'ApiHistory (threads share only immutable model state)'}, key='threads' + c['grammar'][:20])
    finally:
        shutil.rmtree(d, ignore_errors=True)
    ck.cov['rule'] = ('call pool: compile(g, name, semantics, asmodel), tatsu.parse(g, text, semantics, asmodel), to_python_sourcecode(g, name), '
                      'model.parse on handles obtained earlier (valid and failing text) over 2 grammars x 2 names x {no semantics, s1} x asmodel; TLC: every '
                      'history up to MaxCalls; replay: an edge cover of the as-coded state graph (every reachable state x every call), each history in '
                      'its own interpreter, each response compared with the same call alone in a fresh interpreter; 4-8 threads x shared model')
    ck.cov['exhaustive'] = tier == 'thorough'
    ck.assumptions += ['compile-time settings are not in the pool (they are the subject of C09 / KF-C09-1)',
                       'free-running threads are exploration: absence of divergence is not a proof']
    # history independence over a pool of public-API calls: every response must be the one the call gets alone in a fresh interpreter
    from .. import historypool as _hp
    _hp.check_pool(ck, _hp.pool_c10(), 'constants, names, model building', spec='ApiHistory!HistoryIndependent', orders=2 if tier == 'quick' else 6)
    _hp.check_pool(ck, _hp.pool_c15(), 'compile decisions under settings', spec='ApiHistory!HistoryIndependent', orders=2 if tier == 'quick' else 6)
    _hp.check_pool(ck, _hp.pool_c09(), 'lexical settings given to one call', spec='ApiHistory!HistoryIndependent', orders=2 if tier == 'quick' else 6)
    return ck.finish()
