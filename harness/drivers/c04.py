"""C04 - memoization and tracing never change what a parse returns.
(1) TLC: PegMachine (small-step, memo hit / forced-miss nondeterminism = every eviction schedule, prune on/off) refines PegSem
    [added in spec/PegMachine.tla; see run_machine()].
(2) replay: every (grammar, text) of the universe is parsed under the configuration matrix; all outcomes (ok/fail, AST modulo
    parseinfo, error class) must equal each other and the PegSem outcome."""
from __future__ import annotations

import itertools
import random

from ..absgrammar import Gen, all_texts, to_ebnf
from .. import tlc
from ..common import Check
from ..impl import C04_MATRIX, run_matrix_case
from ..pegcheck import Jobs, compare, default_case, run_impl, run_oracle, spec_outcome
from ..absgrammar import chars_of, make_cfg
from . import c03, c05
from .c01 import classify as tlc_classify


def universe(tier, seed):
    rnd = random.Random(4000 + seed)
    items = []
    gen = Gen(rnd, full=True, cuts=True)
    cand = [gen.grammar(rnd.choice([2, 3, 3])) for _ in range(500 if tier == 'quick' else 6000)]
    texts = all_texts(['a', 'b', ' '], 3) + [list(t) for t in ['abab', 'a b a', 'aab ', 'bbbb', 'a+b', 'a + a+b', 'aaaa b']]
    for g in cand:
        items.append({'g': g, 'texts': texts, 'label': 'random', 'cfg': {}, 'settings': {}})
    # backtracking-heavy shapes: the same rule retried at the same position after a failed option
    # left-recursive and cut universes (C03/C05) at reduced size
    lr = c03.universe('quick')
    step = 6 if tier == 'quick' else 1
    for it in lr[seed % step::step]:
        it = dict(it); it['texts'] = [t for t in it['texts'] if len(t) <= (4 if tier == 'quick' else 6)]
        it['lrfam'] = True
        items.append(it)
    # semantic actions that fail on a predicate: FailedSemantics is memoized as a failure of that (position, rule)
    sg = Gen(rnd, toks=('a', 'b'), rules=('y', 'Z', 'y', 'Z'), full=False)
    from ..absgrammar import alt, calls, grammar, named, pat, rule, seq, tok
    for _ in range(150 if tier == 'quick' else 2500):
        e = sg.exp(rnd.choice([2, 3]))
        used = calls(e)
        g = grammar(rule('s', e), *([rule('y', alt(tok('b'), seq(tok('a'), tok('b'))))] if 'y' in used else []),
                    *([rule('Z', named('z', pat(['a', 'b'], 1, False)))] if 'Z' in used else []))
        items.append({'g': g, 'texts': all_texts(['a', 'b'], 4), 'label': 'failsem', 'cfg': {'act': 'failb', 'nameguard': False},
                      'settings': {'nameguard': False}, 'case': {'sem': 'failb'}})
    # exhaustive "retry" family: the same rule at position q after it failed (semantically) on a match ending at q
    import itertools
    from ..absgrammar import call, dot, group, star
    pool = [call('y'), call('Z'), tok('a'), tok('b'), pat(['a', 'b'], 1, False), dot()]
    ry, rz = rule('y', alt(tok('b'), seq(tok('a'), tok('b')))), rule('Z', named('z', pat(['a', 'b'], 1, False)))
    fam = []
    for X, Y in itertools.permutations(pool, 2):
        fam.append(star(alt(X, Y)))
        for X2, Y2 in itertools.permutations(pool, 2):
            if 'call' in (X['op'], Y['op']) and 'call' in (X2['op'], Y2['op']):
                fam.append(seq(group(alt(X, Y)), group(alt(X2, Y2))))
    if tier == 'quick':
        fam = fam[seed % 2::2]
    # every third grammar of the family marks its helper rules @nostak (a decorator that must not change any result)
    ryn = rule('y', alt(tok('b'), seq(tok('a'), tok('b'))), nostak=True)
    rzn = rule('Z', named('z', pat(['a', 'b'], 1, False)), nostak=True)
    for k, e in enumerate(fam):
        used = calls(e)
        y_, z_ = (ryn, rzn) if k % 3 == 0 else (ry, rz)
        g = grammar(rule('s', e), *([y_] if 'y' in used else []), *([z_] if 'Z' in used else []))
        items.append({'g': g, 'texts': all_texts(['a', 'b'], 3), 'label': 'retry', 'cfg': {'act': 'failb', 'nameguard': False},
                      'settings': {'nameguard': False}, 'case': {'sem': 'failb'}})
    # pass-through rules over a rule with named elements, retried at the same position by a later option: the dict AST comes out of
    # the memo the second time (parse information must not depend on that)
    from ..absgrammar import opt
    rb = rule('b', named('v', pat(['a', 'b'], 1, False)))
    ra = rule('y', call('b'))
    for body in (alt(seq(call('y'), tok('+')), seq(named('k', call('b')), tok('a'))),
                 alt(seq(call('y'), tok('+')), seq(call('b'), tok('a'))),
                 alt(seq(named('j', call('y')), tok('+')), seq(named('k', call('y')), opt(tok('a')))),
                 seq(opt(seq(call('y'), tok('+'))), named('k', call('b'))),
                 alt(seq(call('b'), tok('+')), seq(named('k', call('y')), tok('a')), call('b'))):
        items.append({'g': grammar(rule('s', body), ra, rb), 'texts': all_texts(['a', 'b', '+', ' '], 3), 'label': 'passthrough',
                      'cfg': {}, 'settings': {}})
    # cuts inside left-recursive rules (pruning must not touch the seeds of a recursion in progress)
    for it in lr_cut_family(tier):
        items.append(it)
    cu = c05.universe('quick')
    step = 7 if tier == 'quick' else 1
    for it in cu[seed % step::step]:
        it = dict(it); it['texts'] = [t for t in it['texts'] if len(t) <= (4 if tier == 'quick' else 5)]
        items.append(it)
    return items


def lr_cut_family(tier):
    import copy
    from ..absgrammar import alt, call, cut, eof, grammar, opt, rule, seq, tok
    from .c05 import get, seq_paths
    n, p, t_, x, y, z = tok('n'), tok('+'), tok('t'), tok('x'), tok('y'), tok('z')
    fams = {
        'lr-direct': [('s', seq(call('e'), eof())), ('e', alt(seq(call('e'), p, call('t')), call('t'))), ('t', n)],
        'lr-opt-suffix': [('s', seq(call('e'), eof())), ('e', alt(seq(call('e'), opt(seq(p, x)), y), seq(call('e'), p, z), t_))],
        'lr-two-alts': [('s', seq(call('e'), eof())), ('e', alt(seq(call('e'), p, n, n), seq(call('e'), p, n), n))],
        'lr-mutual': [('s', seq(call('e'), eof())), ('e', alt(seq(call('a'), n), n)), ('a', seq(call('e'), p))],
    }
    out = []
    for name, rules in fams.items():
        alpha = {'lr-opt-suffix': 't+xyz'}.get(name, 'n+')
        ml = 4 if len(alpha) > 2 else 6
        import itertools
        texts = [list(w) for k in range(ml + 1) for w in itertools.product(alpha, repeat=k)]
        if len(alpha) > 2:
            texts = [w for w in texts if not w or w[0] == 't'] + [list('t+zy'), list('t+xy+z'), list('ty+z'), list('t+z+xy')]
        variants = [('nocut', rules)]
        for ri, (rn, body) in enumerate(rules):
            for path in seq_paths(body):
                k_max = len(get(body, path)['es'])
                for k in range(1, k_max + 1):
                    r2 = copy.deepcopy(rules)
                    get(r2[ri][1], path)['es'].insert(k, cut())
                    variants.append((f'{rn}:{k}', r2))
        for where, rs in variants:
            out.append({'g': grammar(*[rule(nm, e) for nm, e in rs]), 'texts': texts, 'label': f'{name}@{where}',
                        'cfg': {'nameguard': False}, 'settings': {'nameguard': False}, 'fam': name})
    return out


def machine_part(ck, items, tier):
    """TLC: PegMachine under every memo schedule (hit / forced miss), prune on/off, memoization on/off refines PegSem; the machine's
    outcome is also compared with the implementation's (it is an exact transcription)."""
    from ..pegcheck import machine_vs_impl, run_machine, with_marks
    rnd = random.Random(4100 + ck.seed)
    pick = [it for it in items if it.get('label') in ('random', 'retry')]
    rnd.shuffle(pick)
    pick = pick[:60 if tier == 'quick' else 600] + [it for it in items if it.get('lrfam')][:24 if tier == 'quick' else 200] \
        + [it for it in items if str(it.get('label', '')).startswith('lr-')][:12 if tier == 'quick' else 100]
    marked = with_marks([it['g'] for it in pick])
    jobs, cases = Jobs(), []
    variants = [('prune', {'prune': True, 'memoize': True}), ('noprune', {'prune': False, 'memoize': True}), ('nomemo', {'prune': True, 'memoize': False})]
    for it, g in zip(pick, marked):
        texts = [t for t in it['texts'] if len(t) <= 4][:40]
        islr = any(r['lrec'] for r in g['rules'])
        for vname, vk in variants:
            if vname == 'nomemo' and islr:
                continue
            cfg = make_cfg(chars_of(g, texts), **{k: v for k, v in (it.get('cfg') or {}).items()})
            cfg.update(vk)
            cfg['maxmiss'] = 2
            jobs.add(g, cfg, texts)
            cases.append(default_case(to_ebnf(it['g']), texts, settings=it.get('settings'), wrap=False, **(it.get('case') or {})))
    r, mach = run_machine(jobs)
    ck.add_tlc(r, 'PegMachineMC (memo schedules x prune x memoization)')
    if r.violated:
        ck.violation({'kind': 'schedule', 'inputs': {'spec': 'PegMachineMC'}, 'expected': 'Refines, FramesBalanced, StepBound, CutContained under every schedule',
                      'observed': r.violated, 'trace': r.trace[:120]}, key='machine' + r.violated)
        return
    if r.distinct < 3 * jobs.ncases():
        raise tlc.MachineryError(f'vacuous PegMachine run: {r.distinct} states for {jobs.ncases()} cases')
    from ..impl import run_model_case
    impl = run_impl(cases, fn=run_model_case, chunk=4)
    n = 0
    for j, (c, im) in enumerate(zip(cases, impl), 1):
        if im['compile']['k'] != 'ok':
            continue
        for t, ir in enumerate(im['res'], 1):
            if t not in mach.get(j, {}):
                raise tlc.MachineryError(f'PegMachineMC produced no final state for job {j} text {t}')
            n += 1
            why = machine_vs_impl(mach[j][t], ir['plain'])
            if why:
                ck.violation({'kind': 'parse', 'inputs': {'grammar': c['ebnf'], 'text': c['texts'][t - 1], 'settings': c['settings']},
                              'expected': mach[j][t]['r'], 'observed': ir['plain'], 'why': why, 'spec': 'PegMachine (exact transcription)'},
                             key='mach' + c['ebnf'] + why[:20])
    ck.count(evaluations=n, traces=n)
    ck.notes['machine_cases'] = n
    ck.notes['machine_cases_outside_Refines_KF_C03_1_scope'] = sum(1 for j in mach for t in mach[j] if mach[j][t].get('sl'))
    # code -> spec: real executions under small memo capacities and with pruning off: every (re-)evaluation and every memo hit of the
    # recorded run must be explainable by the machine (a hit only for a (position, rule) evaluated before, with the same value)
    from ..pegcheck import trace_validate
    tcases = []
    settings_list = [{'perlinememos': 0.01}, {'perlinememos': 0.5}, {'prune_memos_on_cut': False}, {}]
    for k, (it, g) in enumerate(zip(pick, marked)):
        texts = [''.join(t) for t in it['texts'] if len(t) <= 4][:24]
        st = dict(it.get('settings') or {})
        extra = settings_list[k % len(settings_list)]
        st.update(extra)
        cfg = make_cfg(chars_of(g, it['texts']), **{kk: v for kk, v in (it.get('cfg') or {}).items()})
        cfg['maxmiss'] = 100000
        cfg['prune'] = extra.get('prune_memos_on_cut', True)
        if (it.get('case') or {}).get('sem'):
            continue            # the recorder does not wrap semantics objects yet
        tcases.append({'ebnf': to_ebnf(it['g']), 'g': g, 'cfg': cfg, 'texts': texts, 'settings': st})
    trace_validate(ck, tcases, label='C04 memo capacities')


def memo_table(ck, items, tier):
    """The memo table itself: spec/MemoCache.tla model-checked (the code's design proved, a true LRU and a wrong-end eviction refuted),
    every edge of its state graph replayed onto a real BoundedDict through the real context methods, and the memo operations of real
    parses under tiny capacities validated by TLC against spec/MemoTrace.tla (corrupted copies must be rejected)."""
    import concurrent.futures as cf
    import os
    from .. import memoreplay as mr
    from ..common import pmap
    d = tlc.scratch_dir('memo')
    caps = '{1, 2}' if tier == 'quick' else '{1, 2, 3}'
    base = ('CONSTANTS Positions = {0, 1, 2}\nRules = {"m", "n"}\nCaps = %s\nRefreshOnRead = %s\nEvictYoung = %s\nSPECIFICATION Spec\n'
            'CHECK_DEADLOCK FALSE\n')
    invs = ''.join(f'INVARIANT {i}\n' for i in ('TypeOK', 'Bounded', 'NoDupKeys', 'Sound', 'YoungestKept', 'NothingBeforeCut', 'UpdateIsStores')) \
        + 'PROPERTY OnlyStoreAdds\nPROPERTY LookupPure\n'
    cfgs = {}
    for name, lru, young, tail in (('code', 'FALSE', 'FALSE', invs), ('lru', 'TRUE', 'FALSE', invs), ('evictyoung', 'FALSE', 'TRUE', invs),
                                   ('graph', 'FALSE', 'FALSE', 'VIEW GraphView\n')):
        cfgs[name] = os.path.join(d, f'memocache_{name}.cfg')
        open(cfgs[name], 'w').write(base % (caps if name in ('code', 'graph') else '{1, 2}', lru, young) + tail)
    dot = os.path.join(d, 'memograph')
    with cf.ThreadPoolExecutor(max_workers=4) as ex:
        fcode = ex.submit(tlc.run_tlc, 'MemoCache', cfg=cfgs['code'], workers=8, timeout=1200)
        flru = ex.submit(tlc.run_tlc, 'MemoCache', cfg=cfgs['lru'], workers=2, timeout=600)
        fyoung = ex.submit(tlc.run_tlc, 'MemoCache', cfg=cfgs['evictyoung'], workers=2, timeout=600)
        fgraph = ex.submit(tlc.run_tlc, 'MemoCache', cfg=cfgs['graph'], workers=1, dump_dot=dot, timeout=600)
        rcode, rlru, ryoung = fcode.result(), flru.result(), fyoung.result()
        fgraph.result()
    ck.add_tlc(rcode, f'MemoCache (the table as coded, capacities {caps}, pruning and memoization on and off)')
    if rcode.violated:
        ck.violation({'kind': 'schedule', 'inputs': {'spec': 'MemoCache'}, 'expected': 'the invariants of the memo table hold', 'observed': rcode.violated,
                      'trace': rcode.trace[:40], 'spec': 'MemoCache!' + str(rcode.violated)}, key='memocache' + str(rcode.violated))
    ck.notes['memo_table_true_lru_refuted_by'] = rlru.violated
    ck.notes['memo_table_young_end_eviction_refuted_by'] = ryoung.violated
    if not rlru.violated or not ryoung.violated:
        raise tlc.MachineryError('MemoCache: a design switch is not refuted (vacuous model)')
    # spec -> code
    jobs, st = mr.graph_jobs(dot + '.dot', nchunks=32)
    outs = pmap(mr.replay_job, jobs, procs=16, chunk=1, recycle=1)
    steps = sum(o['steps'] for o in outs)
    ck.count(evaluations=st['edges'], traces=st['edges'], nontrivial=sum(o['evictions'] for o in outs))
    ck.notes['memo_table_graph'] = dict(st, replayed_steps=steps, evictions_observed=sum(o['evictions'] for o in outs))
    if sum(o['capacity_unexpected'] for o in outs) > st['states'] // 2 or steps < st['edges']:
        raise tlc.MachineryError(f'MemoCache replay: only {steps} steps for {st["edges"]} edges (capacity of the real table not as configured?)')
    for o in outs:
        for b in o['bad']:
            ck.violation({'kind': 'history', 'inputs': {'configuration': b['cfg'], 'operations': b['history'],
                                                        'text_variant': 'one line, perlinememos = capacity' if not b['variant'] else 'capacity lines'},
                          'expected': b['expected'], 'observed': b['observed'],
                          'why': 'the memo table of a real parse context (oldest entry first) differs from the specification after this operation',
                          'spec': 'MemoCache!Next'}, key='memoreplay' + str(b['history'][-1][0]) + str(b['cfg']['cap']))
    # code -> spec
    rnd = random.Random(4400 + ck.seed)
    pool = [it for it in items if not (it.get('case') or {}).get('sem') and not it.get('settings')]
    rnd.shuffle(pool)
    pool = pool[:220 if tier == 'quick' else 1500]
    rcases = []
    for k, it in enumerate(pool):
        texts = [''.join(t) for t in it['texts'] if 2 <= len(t) <= 7]
        rnd.shuffle(texts)
        rcases.append({'ebnf': to_ebnf(it['g']), 'texts': texts[:5], 'settings_idx': [k % 3, 3 + k % 4]})
    recs = [r for rs in pmap(mr.record_case, rcases, procs=16, chunk=4, recycle=40) for r in rs]
    good = [r for r in recs if len(r['ev']) >= 4]
    cpool = [r for r in good if any(e['op'] == 'lookup' and e['val'] not in ('none', 'guard') for e in r['ev'])]
    corrupted = [mr.corrupt(r, k) for k, r in enumerate(cpool[::max(1, len(cpool) // 40)])]
    allr = good + corrupted
    nshards = 12
    shards = [allr[i::nshards] for i in range(nshards)]
    with cf.ThreadPoolExecutor(max_workers=nshards) as ex:
        results = list(ex.map(mr.tlc_group, [(d, i, sh) for i, sh in enumerate(shards) if sh]))
    nacc = rejected = 0
    hits = evict = 0
    for sh, r in zip([s for s in shards if s], results):
        ck.add_tlc(r, f'MemoTrace ({len(sh)} executions)')
        if r.violated:
            ck.violation({'kind': 'trace', 'inputs': {'spec': 'MemoTrace', 'executions': [x['_case'] for x in sh if '_case' in x][:4]},
                          'expected': "MemoCache's invariants hold in every state of every observed execution", 'observed': r.violated,
                          'trace': r.trace[:60], 'spec': 'MemoCache!' + str(r.violated)}, key='memotrinv' + str(r.violated))
            continue
        acc = r.res.get('accepted')
        if not acc:
            raise tlc.MachineryError('MemoTrace produced no acceptance report:\n' + r.stdout[-1500:])
        accepted = set(acc['accepted']) if isinstance(acc['accepted'], list) else set()
        for i, rec in enumerate(sh, 1):
            reached = acc['reached'][i - 1] if isinstance(acc['reached'], list) else 0
            if '_corrupt' in rec:
                if i in accepted:
                    ck.notes.setdefault('memo_corruptions_not_rejected', []).append(rec['_corrupt'])
                else:
                    rejected += 1
                continue
            ck.count(evaluations=1, traces=1, nontrivial=1 if len(rec['ev']) > 10 else 0)
            if i in accepted:
                nacc += 1
                hits += sum(1 for e in rec['ev'] if e['op'] == 'lookup' and e['val'] != 'none')
                evict += sum(1 for a, b in zip(rec['ev'], rec['ev'][1:]) if b['op'] == 'store' and b['len'] <= a['len'] and b['len'] == rec['cap'])
                continue
            ck.violation({'kind': 'trace', 'inputs': dict(rec['_case'], capacity=rec['cap'], prune=rec['prune'], memoization=rec['memoization'],
                                                         nonmemo=rec['nonmemo']),
                          'expected': 'the memo operations of the parse are a behaviour of MemoCache',
                          'observed': {'events_matched': max(0, reached - 1), 'of': len(rec['ev']),
                                       'around_rejection': rec['ev'][max(0, reached - 4):reached + 1]},
                          'why': 'memo operations of a real parse rejected by MemoTrace (a lookup answered with something other than the last value '
                                 'stored under that key, or the table kept / dropped an entry the specification does not)',
                          'spec': 'MemoTrace!TNext'},
                         key='memotrrej' + rec['_case']['ebnf'] + str(rec['_case']['settings']))
    ck.notes['memo_executions_validated'] = nacc
    ck.notes['memo_trace_events'] = sum(len(r['ev']) for r in good)
    ck.notes['memo_trace_hits'] = hits
    ck.notes['memo_trace_stores_at_full_capacity'] = evict
    ck.notes['memo_corruptions_rejected'] = f'{rejected}/{len(corrupted)}'
    if corrupted and rejected < len(corrupted):
        raise tlc.MachineryError(f'MemoTrace binding self-test: only {rejected} of {len(corrupted)} corrupted traces were rejected: '
                                 f"{ck.notes.get('memo_corruptions_not_rejected')}")
    import shutil
    shutil.rmtree(d, ignore_errors=True)
    if not ck.violations and (nacc < 200 or hits < 50):
        raise tlc.MachineryError(f'only {nacc} memo executions validated ({hits} hits): vacuous')


def node_parseinfo_family(ck, tier):
    """Object-model parses (asmodel=True) with parse information: typed rules reached through pass-through rules from several alternatives
    that are tried at the same position, so that the node of the typed rule comes from the memo in the later alternatives.  The result -
    node classes, attributes and the (rule, start, end) of every node - must be the same under every memo configuration."""
    from ..common import pmap
    from ..impl import NODEINFO_CONFIGS, run_nodeinfo_case
    typed = {'attr': "b::B = v:/\\w/ ;", 'ast': "b::B = /\\w/ ;", 'nested': "b::B = l:c [r:c] ;\nc::C = /\\w/ ;",
             'based': "b::B::Base = v:/\\w/ ;", 'untyped': "b = v:/\\w/ ;"}
    chains = {0: ('b', ''), 1: ('p', 'p = b ;\n'), 2: ('q', 'q = p ;\np = b ;\n'), 3: ('g', "g = (b) ;\n"), 4: ('o', "o = @:b ;\n")}
    cases = []
    for tname, trule in typed.items():
        for a, b, c in itertools.product(chains, repeat=3):
            if tier == 'quick' and (a + 2 * b + 3 * c + len(tname)) % 3:
                continue
            helpers = ''.join(ln + '\n' for ln in sorted({ln for k in (a, b, c) for ln in chains[k][1].splitlines()}, reverse=True))
            lines = [f"start = {chains[a][0]} 'x' $ | {chains[b][0]} 'y' $ | {chains[c][0]} 'z' $ ;"]
            ebnf = '@@grammar :: T\n' + '\n'.join(lines) + '\n' + helpers + trule + '\n'
            texts = ['q x', 'q y', 'q z', 'q', 'qq y'] + (['ab z', 'a b y'] if tname == 'nested' else [])
            cases.append({'ebnf': ebnf, 'texts': texts, 'label': f'{tname}/{a}{b}{c}'})
    res = pmap(run_nodeinfo_case, cases, procs=16, chunk=4, recycle=40)
    nodes = 0
    for c, im in zip(cases, res):
        if im['compile']['k'] != 'ok':
            ck.violation({'kind': 'parse', 'inputs': {'grammar': c['ebnf']}, 'expected': 'compiles', 'observed': im['compile']}, key='nicompile' + c['label'])
            continue
        for text, r in zip(c['texts'], im['res']):
            ref = r['default']
            ck.count(evaluations=len(r), traces=len(r), nontrivial=1 if ref['k'] == 'ok' else 0)
            nodes += 1 if ref['k'] == 'ok' and '__node__' in str(ref.get('v')) else 0
            for name, o in r.items():
                if o != ref:
                    ck.violation({'kind': 'parse', 'inputs': {'grammar': c['ebnf'], 'text': text, 'compile': 'asmodel=True',
                                                              'settings': dict(dict(NODEINFO_CONFIGS)[name], parseinfo=True)},
                                  'expected': {'default memo configuration': ref}, 'observed': o,
                                  'why': f'{name}: the object model (classes, attributes, parse information of every node) differs from the one '
                                         'built under the default memo configuration',
                                  'spec': 'C04: all configurations agree (parse information of model nodes included)'},
                                 key='nodeinfo' + c['label'].split('/')[0] + name)
    ck.notes['node_parseinfo_cases'] = len(cases)
    ck.notes['node_parseinfo_results_with_nodes'] = nodes
    if nodes < 50:
        raise tlc.MachineryError('node parse-information family: too few results with model nodes (vacuous)')


def run(tier):
    ck = Check('C04', tier)
    items = universe(tier, ck.seed)
    machine_part(ck, items, tier)
    memo_table(ck, items, tier)
    node_parseinfo_family(ck, tier)
    jobs, cases = Jobs(), []
    rcl, cls = tlc_classify([it['g'] for it in items])
    ck.add_tlc(rcl, 'PegUnspec')
    for it, c in zip(items, cls):
        jobs.add(it['g'], make_cfg(chars_of(it['g'], it['texts']), **(it.get('cfg') or {})), it['texts'])
        cases.append(default_case(to_ebnf(it['g']), it['texts'], settings=it.get('settings'), lr=bool(c['lr']), wrap=False, **(it.get('case') or {})))
    r, spec = run_oracle(jobs)
    ck.add_tlc(r, 'PegSemBatch')
    impl = run_impl(cases, fn=run_matrix_case, chunk=4)
    seen = set()
    nconf = 0
    for j, (it, c, im) in enumerate(zip(items, cases, impl), 1):
        if im['compile']['k'] != 'ok':
            ck.violation({'kind': 'parse', 'inputs': {'grammar': c['ebnf']}, 'expected': 'compiles', 'observed': im['compile']},
                         key='compile' + c['ebnf'])
            continue
        for t, (s, res) in enumerate(zip(spec[j], im['res'])):
            so = spec_outcome(s)
            ck.count(evaluations=len(res), traces=len(res))
            nconf += len(res)
            ref = res['default']
            if so['k'] == 'ok':
                seen.add((c['ebnf'], repr(so.get('v'))))
            if j % 150 == 1 and t == 6:
                ck.sample({'grammar': c['ebnf'], 'text': c['texts'][t], 'spec': so, 'impl': res})
            # parse information under every memo configuration: the same entries (rule, start, end) on the same ASTs
            pref = res.get('parseinfo')
            for name in ('parseinfo-plm-0.01', 'parseinfo-memo-off'):
                o = res.get(name)
                if pref and o and pref['k'] == 'ok' and o['k'] == 'ok' and pref.get('pi') != o.get('pi'):
                    ck.violation({'kind': 'parse', 'inputs': {'grammar': c['ebnf'], 'text': c['texts'][t], 'settings': dict(C04_MATRIX)[name]},
                                  'expected': {'parseinfo entries with the default memo configuration': pref.get('pi')},
                                  'observed': {'parseinfo entries': o.get('pi')},
                                  'why': f'{name}: the parseinfo entries of the result differ from those under the default memo configuration',
                                  'spec': 'C04: all configurations agree (parse information included)'}, key=c['ebnf'] + name + 'pi')
            for name, o in res.items():
                why = None
                if o['k'] != ref['k']:
                    why = f"{name}: {o['k']}:{o.get('cls')} but default: {ref['k']}:{ref.get('cls')}"
                elif o['k'] == 'ok' and o['v'] != ref['v']:
                    why = f'{name}: AST differs from the default configuration'
                elif o['k'] == 'fail' and o.get('cls') != ref.get('cls'):
                    why = f"{name}: error class {o.get('cls')} but default {ref.get('cls')}"
                if not why:
                    w2 = compare(so, {'plain': o}, check_pos=False)
                    if w2:
                        # known findings of other properties must not be re-reported here: C04 is about agreement
                        # between configurations; conformance to PegSem is C01/C03/C05's verdict.  Record only.
                        ck.notes['spec_disagreements'] = ck.notes.get('spec_disagreements', 0) + 1
                        ex = ck.notes.setdefault('spec_disagreement_examples', {})
                        if it.get('label', '?').split('@')[0] not in ex:
                            ex[it.get('label', '?').split('@')[0]] = {'grammar': c['ebnf'], 'text': c['texts'][t], 'why': w2, 'spec': so, 'impl': o}
                if why:
                    ck.violation({'kind': 'parse', 'inputs': {'grammar': c['ebnf'], 'text': c['texts'][t], 'settings': dict(C04_MATRIX)[name]},
                                  'expected': {'default': ref, 'spec': so}, 'observed': o, 'why': why,
                                  'spec': 'C04: all configurations agree'}, key=c['ebnf'] + name)
    ck.cov['distinct_nontrivial'] = len(seen)
    ck.cov['rule'] = (f'{len(items)} grammars (seeded random core-language grammars with cuts, the left-recursion families of C03, the cut '
                      f'placements of C05) x texts x {len(C04_MATRIX)} configurations (memoization off only for non-left-recursive grammars); '
                      'non-trivial = accepted with distinct (grammar, AST)')
    ck.notes['configurations'] = [n for n, _ in C04_MATRIX]
    ck.notes['parses'] = nconf
    return ck.finish()
