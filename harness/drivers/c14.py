"""C14 - serialized grammar models reload to equivalent parsers; conversion to JSON terminates and cuts cycles.
spec/AsJson.tla: the depth-first walk of asjson over every object graph up to N containers (dict / list / object, shared and cyclic edges);
TLC checks Terminates and CyclesCut and prints the expected output shape; every graph is rebuilt from real dicts, lists and Node objects
and pushed through asjson + json.dumps under a recursion limit and wall-clock guard.
Grammar models (full-language corpus, token texts that look like style escapes / format specs, core grammars whose original behaviour is
specified by PegSem) go through asjson -> Grammar.load, asjsons, pickle and to_parsermodel_sourcecode -> exec; each reloaded model must
have the same rules/directives/keywords (from_model) and behave identically."""
from __future__ import annotations

import os
import random
import shutil

from .. import tlc
from ..absgrammar import LEAVES_SMALL, Gen, all_texts, chars_of, enum_exprs, make_cfg, to_ebnf
from ..common import Check, pmap
from ..derived import FULL, run_asjson_graphs, run_serial_case
from ..pegcheck import Jobs, run_oracle, spec_outcome
from .c01 import with_helpers

STYLE_LIKE = ['\\e[1m', 'f{x}', 'f{a:>4}', '{0}', '{x:>4}', '\\x1b[0m', 'e[', '\\e', 'f{', '}', '%s', '__class__', '@', '0', '']


def run(tier):
    ck = Check('C14', tier)
    d = tlc.scratch_dir('asjson')
    try:
        cfg = os.path.join(d, 'a.cfg')
        open(cfg, 'w').write(f'CONSTANT N = 3\nCONSTANT MaxKids = {2 if tier == "quick" else 3}\nINIT Init\nNEXT Next\nINVARIANT Terminates\n'
                             'INVARIANT CyclesCut\nCHECK_DEADLOCK FALSE\n')
        r = tlc.run_tlc('AsJson', cfg=cfg, timeout=3000)
    finally:
        shutil.rmtree(d, ignore_errors=True)
    ck.add_tlc(r, 'AsJson')
    if r.violated:
        ck.violation({'kind': 'point', 'inputs': {'spec': 'AsJson'}, 'expected': 'Terminates, CyclesCut', 'observed': r.violated, 'trace': r.trace[:30]},
                     key='AsJson' + r.violated)
    graphs = list(r.res.values())
    if tier == 'quick':
        graphs = graphs[ck.seed % 4::4]
    chunks = [{'graphs': graphs[i:i + 400]} for i in range(0, len(graphs), 400)]
    for bad in pmap(run_asjson_graphs, chunks, procs=16, chunk=1, recycle=100000):
        for b in bad:
            ck.violation({'kind': 'point', 'inputs': {'graph': b['graph']}, 'expected': 'terminates; cycles rendered as references; json.dumps works',
                          'observed': b['observed'], 'spec': 'AsJson!Out'}, key='graph' + str(b['observed'])[:25])
    ck.count(evaluations=len(graphs), traces=len(graphs), nontrivial=len(graphs))
    ck.sample({'graph': graphs[len(graphs) // 2]})
    # "shared and cyclic references rendered as references": the walk of the code (and of AsJson!Out, which the replay above holds it to) keeps
    # the current path only, so a container shared by two siblings is written out twice.  SharedAsRefs must be refuted by TLC (KF-C14-9);
    # the graphs concerned are those with dup > 0 - their real output was just compared with Out, i.e. it does contain the duplicate.
    rs = tlc.run_tlc('AsJson', cfg='AsJsonShared', timeout=600)
    ck.notes['shared_as_refs_refuted_by'] = rs.violated
    if rs.violated != 'SharedAsRefs':
        raise tlc.MachineryError(f'AsJson: SharedAsRefs is not refuted for the on-path walk ({rs.violated})')
    dups = [g for g in graphs if isinstance(g, dict) and g.get('dup')]
    ck.notes['graphs_with_a_container_written_twice'] = len(dups)
    for g in dups:
        if not ck.known('KF-C14-9', f"graph kind={g['kind']} kids={g['kids']}: {g['dup']} container(s) written out more than once"):
            ck.violation({'kind': 'point', 'inputs': {'graph': {k: g[k] for k in ('kind', 'kids')}}, 'expected': 'a shared container is rendered once, then as a reference',
                          'observed': g['out'], 'why': 'asjson() writes a container that two siblings share out in full twice', 'spec': 'AsJson!SharedAsRefs'},
                         key='asjsonshared')
    # ---- grammar model round trips
    rnd = random.Random(14000 + ck.seed)
    cases = [{'label': 'full/' + n, 'ebnf': e, 'texts': t} for n, e, t in FULL]
    for s in STYLE_LIKE:
        if "'" in s:
            continue
        q = "'" + s.replace('\\', '\\\\') + "'"
        cases.append({'label': f'token {s!r}', 'ebnf': f"start = {q} 'z' k:`{s or 'k'}` ;\n" if s and '`' not in s and '{' not in s else f"start = {q} 'z' ;\n",
                      'texts': [s + ' z', s, 'z']})
    # the same round trips after object models were built, in the same process, for rule types named like grammar-model classes
    cases += [dict(c, label='after-typed-parses/' + c['label'], prelude=True) for c in cases[:len(FULL)][:: (3 if tier == 'quick' else 1)]]
    cases.append({'label': 'one-rule one-keyword', 'ebnf': "@@keyword :: if\nstart = 'a' ;\n", 'texts': ['a', 'if']})
    cases.append({'label': 'constants falsy', 'ebnf': "start = a:`0` b:`False` c:`None` d:`''` 'x' ;\n", 'texts': ['x']})
    core_texts = all_texts(['a', 'b', ' '], 3) + [list('abab')]
    gen = Gen(rnd, full=True, cuts=True)
    core = [with_helpers(e) for n in (0, 1) for e in enum_exprs(n, LEAVES_SMALL)][:: (2 if tier == 'quick' else 1)]
    core += [gen.grammar(rnd.choice([2, 3])) for _ in range(150 if tier == 'quick' else 3000)]
    jobs = Jobs()
    for g in core:
        cases.append({'label': 'core', 'ebnf': to_ebnf(g), 'texts': [''.join(t) for t in core_texts], 'core': len(jobs.jobs)})
        jobs.add(g, make_cfg(chars_of(g, core_texts)), core_texts)
    r2, spec = run_oracle(jobs)
    ck.add_tlc(r2, 'PegSemBatch (oracle of the original grammar)')
    res = pmap(run_serial_case, cases, procs=16, chunk=3, recycle=150)
    for c, o in zip(cases, res):
        ck.count(evaluations=4, traces=4 * len(c['texts']))
        if 'skip' in o:
            ck.notes.setdefault('skipped', []).append(f"{c['label']}: {o['skip']}"[:140])
            continue
        for p in o['problems']:
            what = f"{c['label']}: {p}"
            if p.startswith('python-source') and 'reload raised' in p and ck.known('KF-C14-1', what):
                continue
            if p.startswith('python-source') and '`None`' in c['ebnf'] and ("None != ''" in p or "'c': ''" in p) and ck.known('KF-C14-5', what):
                continue
            if p.startswith('json') and any(x in c['ebnf'] for x in ("'\\\\e[", "'f{")) and ck.known('KF-C14-2', what):
                continue
            ck.violation({'kind': 'parse', 'inputs': {'grammar': c['ebnf'], 'label': c['label']}, 'expected': 'the reloaded model is equivalent',
                          'observed': p, 'spec': 'C14'}, key=c['label'].split(' ')[0] + p.split(':')[0] + p.split(':')[1][:25])
        if 'core' in c and not o['problems']:
            for t, (s, bh) in enumerate(zip(spec[c['core'] + 1], o['behaviour'])):
                so = spec_outcome(s)
                if so['k'] != 'fuel' and (so['k'] == 'ok') != (bh[0] == 'ok'):
                    ck.violation({'kind': 'parse', 'inputs': {'grammar': c['ebnf'], 'text': c['texts'][t]}, 'expected': so, 'observed': bh,
                                  'why': 'behaviour differs from the specification of the original grammar'}, key='corespec' + c['ebnf'])
                    break
    ck.cov['rule'] = ('AsJson: every object graph with 3 containers (dict/list/object) and <=2(3) children each, shared and cyclic edges included; '
                      f'models: {len(FULL)} full-language grammars, tokens that look like style escapes / format specs / class markers, core grammars; '
                      'routes: asjson+json.dumps -> Grammar.load, asjsons, pickle, to_parsermodel_sourcecode -> exec')
    ck.cov['exhaustive'] = tier == 'thorough'
    return ck.finish()
