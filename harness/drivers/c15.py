"""C15 - the shipped bootstrap parser agrees with the shipped TatSu grammar.
Four ways from a grammar text to a grammar model - A the checked-in generated parser (tatsu.compile), B the parser compiled from
tatsu/_tatsu.ebnf, C a parser regenerated from the grammar file, D the checked-in GRAMMAR_MODEL - must make the same accept/reject
decision and build equal models (from_model) on: the full-language corpus, a syntax-variant corpus covering every production and option
of the TatSu grammar, core grammars rendered from the abstract universes, and character-level mutants of all of them.  The original
behaviour of the accepted core grammars is bound to PegSem by C01/C13; here the specification role is played by the grammar file itself:
three implementations, one grammar."""
from __future__ import annotations

import random

from ..absgrammar import Gen, to_ebnf
from ..common import Check, pmap
from ..derived import FULL, SYNTAX, mutate, run_boot_case


def run(tier):
    ck = Check('C15', tier, level='translation_validation')
    rnd = random.Random(15000 + ck.seed)
    texts = [e for _n, e, _t in FULL] + list(SYNTAX)
    gen = Gen(rnd, full=True, cuts=True)
    texts += [to_ebnf(gen.grammar(rnd.choice([2, 3]))) for _ in range(60 if tier == 'quick' else 1500)]
    valid = list(texts)
    for t in valid:
        texts += mutate(t, rnd, 4 if tier == 'quick' else 25)
    texts = list(dict.fromkeys(texts))
    chunks = [{'texts': texts[i:i + 12]} for i in range(0, len(texts), 12)]
    res = [x for ch in pmap(run_boot_case, chunks, procs=16, chunk=1, recycle=30) for x in ch]
    acc = rej = 0
    for o in res:
        ck.count(evaluations=4, traces=4)
        acc += o['decision']['A'] == 'ok'
        rej += o['decision']['A'] != 'ok'
        if o['problem'] and o['problem'].startswith('D builds a different model') and '$.directives.whitespace' in o['problem'] \
                and "'None' != ''" in o['problem'] and ck.known('KF-C15-1', o['text'][:80]):
            continue
        if o['problem']:
            ck.violation({'kind': 'parse', 'inputs': {'grammar_text': o['text']}, 'expected': 'A, B, C and D agree', 'observed': o['problem'],
                          'decisions': o['decision'], 'spec': 'tatsu/_tatsu.ebnf (one grammar, three implementations)'},
                         key=o['problem'][:60])
        if len(ck.cov['samples']) < 4 and o['decision']['A'] == 'ok' and len(o['text']) > 40:
            ck.sample({'grammar_text': o['text'], 'decisions': o['decision']})
    # code -> spec: executions of the checked-in bootstrap parser (a GENERATED parser) are recorded and validated by TLC against
    # spec/PegTrace.tla instantiated with tatsu/_tatsu.ebnf (generated-parser flavour of PegMachine): every option tried, every
    # backtrack, cut, memo replay and every node handed to a GrammarSemantics action must be what the grammar file prescribes
    from ..pegcheck import validate_records
    from ..suitetraces import record_boot_case, suite_part
    short = [t for t in texts if len(t) <= (400 if tier == 'quick' else 1500)]
    step = 4 if tier == 'quick' else 1
    pick = short[ck.seed % step::step]
    bchunks = [{'texts': pick[i:i + 10], 'label': 'C15 corpus', 'offset': i} for i in range(0, len(pick), 10)]
    brecs = [r for ch in pmap(record_boot_case, bchunks, procs=16, chunk=1, recycle=8) for r in ch]
    good = [r for r in brecs if 'skip' not in r]
    ck.notes['bootstrap_traces_skipped'] = len(brecs) - len(good)
    if len(good) < len(pick) // 2:
        raise __import__('harness.tlc', fromlist=['x']).MachineryError(f'only {len(good)} bootstrap executions recorded for {len(pick)} texts')
    validate_records(ck, good, shards=14, label='bootstrap parser vs tatsu/_tatsu.ebnf (corpus)', corrupt_selftest=True)
    suite_part(ck, tier, 'gen', 'bootstrap parser vs tatsu/_tatsu.ebnf (test-suite)')
    ck.cov['distinct_nontrivial'] = acc
    ck.notes.update({'texts': len(texts), 'accepted': acc, 'rejected': rej, 'programs': len(texts), 'disagreements_checked': len(texts) * 3})
    ck.cov['rule'] = (f'{len(valid)} valid or near-valid grammar texts (full-language corpus, syntax variants covering the productions and options of '
                      'the TatSu grammar incl. deprecated forms, seeded random core grammars) + character-level mutants (insert / delete / transpose); '
                      'non-trivial = text accepted by the shipped bootstrap parser')
    ck.assumptions += ['the grammar file is the specification: the four routes are compared with each other (differential execution) and the bootstrap '
                       "parser's executions are validated against PegMachine instantiated with the grammar file; regular expressions and whitespace/comment "
                       'skipping enter the specification as oracle tables computed with Python re; per-production coverage is by construction of the corpus']
    # history independence over a pool of public-API calls: every response must be the one the call gets alone in a fresh interpreter
    from .. import historypool as _hp
    _hp.check_pool(ck, _hp.pool_c15(), 'accept / reject of a grammar text after calls with other arguments', spec='C15 (the decision is a function of the grammar text and the arguments)', orders=2 if tier == 'quick' else 6)
    return ck.finish()
