"""C09 - whitespace, comments, nameguard and case rules are applied uniformly; configuration layers consistently.
(A) PegSem's lexical level (Skip = whitespace runs, eol comments, comments to a fixpoint; applied before tokens, constants, (),
    $ and at lower-case rule entry, never before patterns or at upper-case rule entry; nameguard/namechars; ignorecase) evaluated by
    TLC on token grammars x every layout of a slot universe; replayed into model and generated parser, with the comment patterns
    given as directives and as settings; plus the metamorphic relation LayoutInvariant on the implementation results.
(B) spec/ConfigLayers.tla enumerates every presence/value combination of the four layers for eight settings; each point is replayed."""
from __future__ import annotations

import itertools
import random

from .. import tlc
from ..absgrammar import (Gen, alt, call, chars_of, const, eof, grammar, make_cfg, named, opt, pat, rule, seq, skipto, star, tok, void)
from ..common import Check, pmap
from ..layers import ABSENT, run_layers_case
from ..pegcheck import conformance

GAPS = ['', ' ', '\t', '\n', ' \t ', '#c\n', '(*c*)', ' (*c*) #d\n ', '#c\n#d\n', '(*c*)(*d*)', '(*c*)#d\n',
        # runs that are whitespace / comments only under the last two configurations: a whitespace definition that also matches a
        # non-space character, and comment openers that begin like the token '+'
        ',', ' , ', '++c\n', '+*c*+',
        # comments whose text is something the grammar could match
        '(*b*)', '#b\n']


def layouts(tokens, rnd, n):
    """Texts obtained by filling every boundary (and both ends) of a token sequence from GAPS."""
    slots = len(tokens) + 1
    out = set()
    base = ['' if i in (0, slots - 1) else ' ' for i in range(slots)]
    out.add(tuple(base))
    for _ in range(n):
        out.add(tuple(rnd.choice(GAPS) for _ in range(slots)))
    for g in GAPS:                      # every gap kind in every slot at least once
        for i in range(slots):
            f = list(base); f[i] = g
            out.add(tuple(f))
    texts = []
    for f in sorted(out):
        t = ''
        for i, tokn in enumerate(tokens):
            t += f[i] + tokn
        t += f[-1]
        texts.append((f, t))
    return texts


def grammars():
    a, b, p = tok('a'), tok('b'), tok('+')
    B = rule('B', pat(['b'], 1, True))
    y = rule('y', seq(tok('a'), opt(tok('+'))))
    return {
        'tokens': grammar(rule('s', seq(a, b, p, eof()))),
        'closure': grammar(rule('s', seq(star(alt(a, b, p)), eof()))),
        'named': grammar(rule('s', seq(named('x', a), named('y', star(alt(b, p))), eof()))),
        'pattern-after-token': grammar(rule('s', seq(a, pat(['b'], 1, True), opt(p), eof()))),      # no skip before the pattern
        'pattern-rule': grammar(rule('s', seq(a, call('b_'), opt(p), eof())), rule('b_', pat(['b'], 1, True))),  # lower-case rule: skip
        'token-rule': grammar(rule('s', seq(a, call('B'), opt(p), eof())), B),                       # upper-case rule: no skip
        'const-void': grammar(rule('s', seq(a, const('k'), void(), star(b), opt(p), eof()))),
        'lower-rule': grammar(rule('s', seq(star(call('y')), star(b), eof())), y),
        'no-eof': grammar(rule('s', seq(a, star(b)))),
        'digits': grammar(rule('s', seq(a, opt(pat(['1'], 1, True)), star(alt(b, tok('a1'))), eof()))),
        'guarded': grammar(rule('s', seq(a, star(tok('ab')), star(b), opt(p), eof()))),
        # ->e skips ahead to e; what it skips is input, whitespace and comments - a comment is never scanned for e
        'skip-to': grammar(rule('s', seq(a, skipto(b), opt(p), eof()))),
    }


CFGS = [
    # label, spec cfg kwargs, directives, parse settings
    ('default-ws+both-comments-directives', {'eolc': '#', 'cmt': ('(*', '*)')},
     {'eol_comments': '/(?m)#.*?$/', 'comments': '/\\(\\*.*?\\*\\)/'}, {}),
    ('default-ws+both-comments-settings', {'eolc': '#', 'cmt': ('(*', '*)')}, {},
     {'eol_comments': r'(?m)#.*?$', 'comments': r'\(\*.*?\*\)'}),
    ('no-comments', {}, {}, {}),
    ('blank-only-ws-directive', {'ws': [' ', '\t'], 'eolc': '#', 'cmt': ('(*', '*)')},
     {'whitespace': '/[ \\t]+/', 'eol_comments': '/(?m)#.*?$/', 'comments': '/\\(\\*.*?\\*\\)/'}, {}),
    ('no-ws-setting', {'ws': [], 'eolc': '#', 'cmt': ('(*', '*)'), 'nameguard': False},
     {'eol_comments': '/(?m)#.*?$/', 'comments': '/\\(\\*.*?\\*\\)/'}, {'whitespace': ''}),
    ('nameguard-off', {'eolc': '#', 'cmt': ('(*', '*)'), 'nameguard': False},
     {'eol_comments': '/(?m)#.*?$/', 'comments': '/\\(\\*.*?\\*\\)/'}, {'nameguard': False}),
    ('namechars-plus', {'namechars': '+'}, {'namechars': "'+'"}, {}),
    ('ignorecase', {'ignorecase': True, 'eolc': '#', 'cmt': ('(*', '*)')},
     {'ignorecase': 'True', 'eol_comments': '/(?m)#.*?$/', 'comments': '/\\(\\*.*?\\*\\)/'}, {}),
    ('namechars-nameguard-off', {'namechars': '+', 'nameguard': False}, {'namechars': "'+'", 'nameguard': 'False'}, {}),
    ('namechars-nameguard-off-setting', {'namechars': '+', 'nameguard': False}, {'namechars': "'+'"}, {'nameguard': False}),
    ('ws-with-comma', {'ws': [' ', '\t', '\n', '\r', ','], 'eolc': '#', 'cmt': ('(*', '*)')},
     {'whitespace': '/[\\s,]+/', 'eol_comments': '/(?m)#.*?$/', 'comments': '/\\(\\*.*?\\*\\)/'}, {}),
    ('comments-opening-like-a-token', {'eolc': '++', 'cmt': ('+*', '*+')},
     {'eol_comments': '/(?m)\\+\\+.*?$/', 'comments': '/\\+\\*.*?\\*\\+/'}, {}),
]


def part_a(ck, tier):
    rnd = random.Random(9000 + ck.seed)
    seqs = [list(t) for n in range(0, 4) for t in itertools.product(['a', 'b', '+'], repeat=n)]
    seqs += [['a', 'b', 'b', '+'], ['ab', 'b'], ['a', 'ab', 'b'], ['A', 'b', '+'], ['a', 'B', '+'], ['a', 'bb', '+'], ['a1'], ['a', '1'], ['a1', 'b'], ['a', '1', 'a1']]
    if tier == 'quick':
        seqs = [s for i, s in enumerate(seqs) if len(s) <= 2 or i % 3 == ck.seed % 3] + seqs[-10:]
    text_info = []
    for toks in seqs:
        for fill, t in layouts(toks, rnd, 6 if tier == 'quick' else 25):
            text_info.append((tuple(toks), fill, t))
    texts = sorted({t for _, _, t in text_info})
    items = []
    for gname, g in grammars().items():
        for label, cfgkw, directives, settings in CFGS:
            items.append({'g': g, 'texts': [list(t) for t in texts], 'label': f'{gname}/{label}', 'cfg': cfgkw,
                          'directives': directives, 'settings': settings})
    mism = conformance(ck, items, also_generated=True, sample_every=4000)
    ck.notes['layout_texts'] = len(texts)
    ck.notes['layout_items'] = len(items)
    return items


def part_b(ck, tier):
    r = tlc.run_tlc('ConfigLayers', workers=4, coverage=(tier == 'thorough'))
    if r.violated:
        ck.violation({'kind': 'point', 'inputs': {'spec': 'ConfigLayers'}, 'expected': 'Precedence, NoLeak, TypeOK hold',
                      'observed': r.violated, 'trace': r.trace[:60]}, key='ConfigLayers' + r.violated)
    ck.add_tlc(r, 'ConfigLayers')
    cases = []
    for key, v in sorted(r.res.items()):
        s, c, d, p = key.split('/')
        if s == 'left_recursion' and d == 'False':
            continue        # the grammar is (and must be, C16) rejected at compile time: nothing to parse
        for be in ('model', 'generated', 'parse', 'modelsource'):
            if be == 'parse' and c != ABSENT:
                continue
            if be == 'modelsource' and s == 'left_recursion':
                continue        # the model source of a left-recursive grammar under left_recursion=False cannot be generated
            cases.append({'setting': s, 'c': c, 'd': d, 'p': p, 'backend': be, 'expect': v['eff'],
                          'expect_again': (d if d != ABSENT else (c if c != ABSENT else None))})
    res = pmap(run_layers_case, cases, procs=16, chunk=6, recycle=120)
    for case, o in zip(cases, res):
        ck.count(evaluations=1, traces=1, nontrivial=1 if (case['c'], case['d'], case['p']) != (ABSENT,) * 3 else 0)
        if len(ck.cov['samples']) < 5 and case['p'] != ABSENT and case['d'] != ABSENT:
            ck.sample({'layers': case, 'observed': o})
        what = f"{case['setting']}: compile={case['c']} directive={case['d']} parse={case['p']} [{case['backend']}]"
        c_decides = case['c'] != ABSENT and case['d'] == ABSENT and case['p'] == ABSENT
        if o.get('compile_error') and case['c'] != ABSENT and ck.known('KF-C09-1', what + f" compile raised {o['compile_error']}"):
            continue
        for field, want in (('eff', case['expect']), ('again', case['expect_again'])):
            if want is None or o.get(field) == want:
                continue
            c_decides_here = case['c'] != ABSENT and case['d'] == ABSENT and (field == 'again' or case['p'] == ABSENT)
            if c_decides_here and ck.known('KF-C09-1', what):
                continue
            if case['setting'] == 'parseinfo' and case['d'] == 'True' and case['backend'] in ('generated', 'parse', 'modelsource') \
                    and o.get(field) == 'False' and (field == 'again' or case['p'] == ABSENT) and ck.known('KF-C09-2', what):
                continue
            ck.violation({'kind': 'history', 'inputs': case, 'expected': {field: want}, 'observed': o,
                          'why': f'{field}: effective value {o.get(field)!r}, layering prescribes {want!r}',
                          'spec': 'ConfigLayers!' + ('Parse' if field == 'eff' else 'ParseAgain')},
                         key=what + field)
    ck.notes['layer_points'] = len(cases)


def run(tier):
    ck = Check('C09', tier)
    part_b(ck, tier)
    part_a(ck, tier)
    ck.cov['rule'] = ('(A) 11 token grammars (tokens, closure, named, pattern after token, pattern in lower-case rule, upper-case token '
                      'rule, constant/void, lower-case rule calls, no $, name-like tokens) x 12 configurations (comments as directives / as '
                      'settings, none, blank-only whitespace, whitespace off, nameguard off, namechars, namechars with nameguard off, ignorecase, whitespace that also matches a comma, comment openers that begin like a token) x every layout of token '
                      'sequences <=3 (+6) with every gap kind in every slot; model + generated parser.  (B) every combination of '
                      'compile/directive/parse layer values for 8 settings x {model, generated parser, tatsu.parse, parser class of the generated model source (constructor settings as the lowest layer)}. non-trivial = accepted layout '
                      'with distinct (grammar, cfg, AST) / a layer point with at least one layer present')
    ck.cov['exhaustive'] = True
    # history independence over a pool of public-API calls: every response must be the one the call gets alone in a fresh interpreter
    from .. import historypool as _hp
    _hp.check_pool(ck, _hp.pool_c09(), 'lexical settings given to one call', spec='ConfigLayers!NoLeak / ApiHistory!HistoryIndependent', orders=2 if tier == 'quick' else 6)
    return ck.finish()
