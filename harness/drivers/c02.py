"""C02 - generated Python parsers behave identically to the grammar model.
For every grammar of the universe the generated source is compiled (valid-Python claim), executed and run on every text under
a matrix of parse-time settings; the outcome must (i) equal the model's outcome and (ii) conform to PegSem (layer 1)."""
from __future__ import annotations

import os

import random

from ..absgrammar import (LEAVES_SMALL, Gen, all_texts, alt, call, enum_exprs, grammar, named, opt, pat, rule, seq, star, subexps,
                          tok, to_ebnf)
from .. import tlc
from ..common import Check
from ..impl import run_both_case
from ..pegcheck import compare, conformance
from .c01 import with_helpers

SIMPLE = {'tok', 'pat', 'dot', 'const', 'call', 'star', 'plus', 'join', 'emptyclosure'}


def strip(e):
    while e['op'] == 'group' or (e['op'] == 'seq' and len(e['es']) == 1):
        e = e['e'] if e['op'] == 'group' else e['es'][0]
    return e


def simple_operand(e):
    e = strip(e)
    if e['op'] in SIMPLE:
        return True
    if e['op'] == 'alt':
        return all(simple_operand(x) for x in e['es'])
    return False


def in_lastnode_scope(g):
    """KF-C02-1: some name=/override binds an operand whose value is not the last node appended (sequence of several elements,
    optional, lookahead, void ...): generated code binds state.last_node instead of the operand's value."""
    for r in g['rules']:
        for e in subexps(r['exp']):
            if e['op'] in ('named', 'namedlist', 'ovr', 'ovrlist') and not simple_operand(e['e']):
                return True
    return False


def in_define_scope(g):
    """KF-C02-2: names sit in an option / optional body / rule body that is not a sequence of >= 2 elements: the generated code
    emits define() only for Sequence nodes."""
    def has_names(e):
        return any(x['op'] in ('named', 'namedlist') for x in subexps(e))
    for r in g['rules']:
        for e in subexps(r['exp']):
            if e['op'] == 'alt':
                for o in e['es']:
                    if has_names(o) and strip(o)['op'] != 'seq':
                        return True
            if e['op'] == 'opt' and has_names(e['e']) and strip(e['e'])['op'] != 'seq':
                return True
        if has_names(r['exp']) and strip(r['exp'])['op'] not in ('seq', 'alt'):
            return True
    return False


SETTINGS = [
    ('defaults', {}, {}),
    ('ignorecase', {'ignorecase': True}, {'ignorecase': True}),
    ('nameguard-off', {'nameguard': False}, {'nameguard': False}),
    ('whitespace-override', {'ws': [' ']}, {'whitespace': ' '}),
    ('parseinfo', {}, {'parseinfo': True}),
]


def special_grammars():
    a, b = tok('a'), tok('b')
    out = []
    # upper-case (token) rules, keyword-like and dunder-ish rule names, rules with parameters
    out.append(('upper', grammar(rule('s', seq(call('A'), call('B'))), rule('A', pat(['a'], 1, True)), rule('B', b))))
    out.append(('kwnames', grammar(rule('s', seq(call('class'), call('def'))), rule('class', a), rule('def', opt(b)))))
    out.append(('params', grammar(rule('s', seq(call('y'), call('y'))), rule('y', alt(a, b), params=['T', '1']))))
    out.append(('named-dictkeys', grammar(rule('s', seq(named('items', a), named('keys', opt(b)))))))
    # characters that the source generator must carry verbatim into the generated regex: a literal TAB, a non-ASCII letter
    out.append(('tab-in-pattern', grammar(rule('s', seq(pat(['a'], 1, False), pat(['\t'], 1, True), pat(['b'], 1, False))))))
    out.append(('tab-class', grammar(rule('s', seq(call('A'), star(call('A')))), rule('A', seq(pat(['a', 'b'], 1, True), pat(['\t', ' '], 0, True))))))
    # a start rule whose name is a Python reserved word (generated methods are named class_, import_ ...)
    out.append(('kwstart:class', grammar(rule('class', seq(a, call('def'))), rule('def', opt(b)))))
    out.append(('kwstart:import', grammar(rule('import', star(alt(a, b))))))
    out.append(('isname', grammar(rule('s', star(call('y'))), rule('y', pat(['a', 'b'], 1, True), isname=True), keywords=['ab', 'b'])))
    # rule names that differ only in trailing / leading underscores (the generator appends '_' to reserved words; every other name
    # is the rule's own): siblings tried at the same position must keep their own memo entries and results
    out.append(('underscore-siblings', grammar(rule('s', alt(seq(call('y_'), b), seq(call('y'), a), call('y__'))),
                                               rule('y', seq(a, a)), rule('y_', seq(a, b)), rule('y__', seq(a, opt(a))))))
    out.append(('underscore-siblings-2', grammar(rule('s', seq(alt(call('_y'), call('y_')), star(call('y')))),
                                                 rule('y', alt(a, b)), rule('y_', seq(b, a)), rule('_y', seq(a, b, b)))))
    return out


def universe(tier, seed):
    rnd = random.Random(2000 + seed)
    gs = []
    for n in (0, 1):
        gs += [('enum', with_helpers(e)) for e in enum_exprs(n, LEAVES_SMALL)]
    two = [('enum', with_helpers(e)) for e in enum_exprs(2, LEAVES_SMALL)]
    k = 23 if tier == 'quick' else 3
    gs += two[seed % k::k]
    gen = Gen(rnd, full=True)
    gs += [('random', gen.grammar(rnd.choice([2, 3]))) for _ in range(350 if tier == 'quick' else 6000)]
    gs += special_grammars()
    # cuts (generated code has its own option/optional/closure runtime) and constants whose evaluation fails
    from . import c05
    cu = c05.universe('quick')
    step = 5 if tier == 'quick' else 1
    gs += [('cut', it['g']) for it in cu[seed % step::step]]
    from ..absgrammar import constbad, const
    a, b, bad, k = tok('a'), tok('b'), constbad(), const('k')
    for e in [seq(a, alt(bad, k)), alt(seq(a, bad), a), seq(opt(seq(a, bad)), a), seq(star(seq(a, bad)), opt(a)),
              alt(call('y'), a), seq(a, alt(seq(bad, b), b))]:
        rules = [rule('s', e)] + ([rule('y', seq(a, bad))] if any(x['op'] == 'call' for x in subexps(e)) else [])
        gs.append(('constbad', grammar(*rules)))
    return gs


HASHSEED_PROBE = r'''
import json, sys, tatsu
g = "@@grammar :: H\nstart = x _x $ ;\nx = 'a' ;\n_x = 'b' ;\nx_ = 'c' ;\n"
model = tatsu.compile(g)
ns = {}
exec(compile(tatsu.to_python_sourcecode(g, name='H'), '<gen>', 'exec'), ns)
out = {}
for start, text in (('x', 'a'), ('_x', 'b'), ('x_', 'c'), ('start', 'a b')):
    row = []
    for p in (model, ns['HParser']()):
        try:
            row.append(repr(p.parse(text, start=start)))
        except Exception as e:
            row.append(type(e).__name__)
    out[start] = row
print(json.dumps(out))
'''


def hashseed_starts(ck):
    """Rule names that differ only in underscores, each used as the start rule, under several hash seeds (this process runs under one):
    the generated parser must answer like the model whatever the seed."""
    import json
    import subprocess
    import sys
    for seed in range(6):
        env = dict(os.environ, PYTHONHASHSEED=str(seed))
        p = subprocess.run([sys.executable, '-c', HASHSEED_PROBE], env=env, capture_output=True, text=True, timeout=300)
        ck.count(evaluations=4, traces=4)
        try:
            out = json.loads(p.stdout.strip().splitlines()[-1])
        except Exception:  # noqa: BLE001
            ck.violation({'kind': 'parse', 'inputs': {'PYTHONHASHSEED': seed}, 'expected': 'the probe runs', 'observed': (p.stdout + p.stderr)[-400:]},
                         key='hashseedprobe')
            continue
        for start, (m, g_) in out.items():
            if m != g_:
                ck.violation({'kind': 'parse', 'inputs': {'grammar': "start = x _x $ ; x = 'a' ; _x = 'b' ; x_ = 'c' ;", 'start': start, 'PYTHONHASHSEED': seed},
                              'expected': {'model': m}, 'observed': {'generated': g_},
                              'why': 'generated parser != model for a start rule whose name differs from another rule only in underscores',
                              'spec': 'C02 (same outcome in both back-ends, whatever the hash seed)'}, key='hashseed' + start)


MODELTIME_PROBE = r'''
import json, sys, tatsu
from tatsu.semantics import ModelBuilderSemantics
GS = {
 'pair': "@@grammar :: M\nstart::Pair = l:item ',' r:item $ ;\nitem::Item = v:/\\w+/ ;\n",
 'list': "@@grammar :: M\nstart = {item}+ $ ;\nitem::Item::Base = v:/\\w/ ;\n",
 'ast':  "@@grammar :: M\nstart::Top = item item $ ;\nitem::Item = /\\w/ ;\n",
}
def proj(x, d=0):
    from tatsu.objectmodel import Node
    if isinstance(x, Node):
        return {'__node__': type(x).__name__, **{k: proj(v, d + 1) for k, v in vars(x).items() if not k.startswith('_') and k not in ('parseinfo', 'ctx', 'comments')}}
    if isinstance(x, dict):
        return {k: proj(v, d + 1) for k, v in x.items()}
    if isinstance(x, (list, tuple)):
        return [proj(v, d + 1) for v in x]
    return x if isinstance(x, (str, int, float, bool, type(None))) else type(x).__name__
out = []
for gname, g in GS.items():
    model = tatsu.compile(g)
    ns = {}
    exec(compile(tatsu.to_python_sourcecode(g, name='M'), '<gen>', 'exec'), ns)
    for text in ('a,b', 'a b', 'a', 'ab', ''):
        for sname, mk in (('asmodel=True', lambda: {'asmodel': True}), ('semantics=ModelBuilderSemantics()', lambda: {'semantics': ModelBuilderSemantics()}),
                          ('no settings', lambda: {})):
            row = []
            for p in (model, ns['MParser']()):
                try:
                    row.append({'k': 'ok', 'v': proj(p.parse(text, start='start', **mk()))})
                except tatsu.exceptions.FailedParse as e:
                    row.append({'k': 'fail'})
                except Exception as e:
                    row.append({'k': 'exc', 'cls': type(e).__name__, 'msg': str(e)[:120]})
            out.append({'g': gname, 'grammar': g, 'text': text, 'settings': sname, 'model': row[0], 'generated': row[1]})
        # one parser object (and the one model object) asked for an object model first and for a plain parse afterwards
        for first in ('a,b', '%'):
            row = []
            for p in (model, ns['MParser']()):
                try:
                    p.parse(first, asmodel=True)          # no other argument: nothing but the model building is asked for
                except Exception:
                    pass
                try:
                    row.append({'k': 'ok', 'v': proj(p.parse(text, start='start'))})
                except tatsu.exceptions.FailedParse as e:
                    row.append({'k': 'fail'})
                except Exception as e:
                    row.append({'k': 'exc', 'cls': type(e).__name__, 'msg': str(e)[:120]})
            out.append({'g': gname, 'grammar': g, 'text': text, 'settings': 'no settings, after parse(%r, asmodel=True) on the same object' % first,
                        'model': row[0], 'generated': row[1]})
print(json.dumps(out))
'''


def model_building_at_parse_time(ck):
    """The same parse-time arguments that ask for an object model (asmodel=True, or a model-builder semantics object) given to the grammar
    model and to the generated parser of the same grammar, in a fresh interpreter: equal outcomes, equal trees of node classes."""
    import json
    import subprocess
    import sys
    p = subprocess.run([sys.executable, '-c', MODELTIME_PROBE], env=dict(os.environ), capture_output=True, text=True, timeout=600)
    try:
        rows = json.loads(p.stdout.strip().splitlines()[-1])
    except Exception:  # noqa: BLE001
        ck.violation({'kind': 'parse', 'inputs': {'probe': 'model building at parse time'}, 'expected': 'the probe runs', 'observed': (p.stdout + p.stderr)[-600:]},
                     key='modeltimeprobe')
        return
    nodes = 0
    for r in rows:
        ck.count(evaluations=2, traces=2, nontrivial=1 if '__node__' in json.dumps(r['model']) else 0)
        nodes += '__node__' in json.dumps(r['model'])
        if r['model'] != r['generated']:
            ck.violation({'kind': 'parse', 'inputs': {'grammar': r['grammar'], 'text': r['text'], 'settings': r['settings']},
                          'expected': {'model': r['model']}, 'observed': {'generated': r['generated']},
                          'why': 'generated parser != model under the same parse-time arguments (object-model building requested at parse time)',
                          'spec': 'C02 (same outcome in both back-ends under the same parse-time settings)'}, key='modeltime' + r['g'] + r['settings'])
    ck.notes['model_building_at_parse_time'] = {'points': len(rows), 'with_nodes': nodes}
    if nodes < 6:
        raise tlc.MachineryError('model building at parse time: the model built no nodes (vacuous)')


def run(tier):
    ck = Check('C02', tier)
    hashseed_starts(ck)
    model_building_at_parse_time(ck)
    gs = universe(tier, ck.seed)
    texts = all_texts(['a', 'b', ' '], 3) + [list(t) for t in ['abab', 'a b a', 'aab ', 'A b', 'aB', 'a\tb', 'ab b', 'a\t\tb', 'ab\t a', 'a\t']]
    cut_texts = all_texts(['a', 'b', 'c'], 4) + [list('qabc'), list('qaa'), list('qac')]
    items = []
    for i, (kind, g) in enumerate(gs):
        if kind == 'cut':
            items.append({'g': g, 'texts': cut_texts, 'label': 'cut/nameguard-off', 'cfg': {'nameguard': False},
                          'settings': {'nameguard': False}, 'kind': kind})
            continue
        for si, (sname, cfgkw, settings) in enumerate(SETTINGS):
            if si and (i + si) % 4:         # every grammar under defaults; each other setting on a quarter of the grammars
                continue
            cfg = dict(cfgkw)
            if g.get('keywords'):
                cfg['keywords'] = g['keywords']
            items.append({'g': g, 'texts': texts, 'label': f'{kind}/{sname}', 'cfg': cfg, 'settings': settings, 'kind': kind,
                          'start': kind.split(':')[1] if kind.startswith('kwstart:') else 's'})
    # the constructs the documentation defines by expansion (>rule, name < base, @override): the source text goes to both back-ends,
    # the expanded abstract grammar to the specification
    from .c01 import expansions
    xtexts = all_texts(['a', 'b', 'c', ' '], 3) + [list(t) for t in ['a b c', 'abbc', 'a c', 'bbbc', 'aabb', 'b a c', 'a bc']]
    for src, g in expansions():
        items.append({'g': g, 'src': src, 'texts': xtexts, 'label': 'expansion/defaults', 'cfg': {}, 'settings': {}, 'kind': 'expansion'})
    agree = {'n': 0, 'bad': 0}

    def classify(it, text, so, ir, why):
        return None

    # (ii) + model conformance as a by-product; the generated outcome is compared inside the wrapper below
    def impl_fn(case):
        return run_both_case(case)

    from ..pegcheck import Jobs, default_case, run_impl, run_oracle, spec_outcome
    from ..absgrammar import chars_of, make_cfg
    jobs, cases = Jobs(), []
    for it in items:
        jobs.add(it['g'], make_cfg(chars_of(it['g'], it['texts']), **it['cfg']), it['texts'], start=it.get('start', 's'))
        cases.append(default_case(it.get('src') or to_ebnf(it['g']), it['texts'], settings=it['settings'], start=it.get('start', 's'),
                                  wrap=it.get('start', 's') == 's'))
    r, spec = run_oracle(jobs)
    ck.add_tlc(r, 'PegSemBatch')
    impl = run_impl(cases, fn=run_both_case, chunk=4)
    # PegMachine in both flavours (model interpreter / generated parser: last_node binding, define() only in sequences, grammar not
    # optimized) on every job: a difference between the two real back-ends is a KNOWN finding only if the two flavours of the
    # specification predict exactly the two observed outcomes; the generated parser must follow its flavour on every shape
    from ..pegcheck import machine_vs_impl, run_machine, with_marks
    marked = with_marks([it['g'] for it in items])
    mjobs = Jobs()
    for it, g in zip(items, marked):
        for backend in ('model', 'gen'):
            mcfg = make_cfg(chars_of(g, it['texts']), **it['cfg'])
            mcfg.update({'backend': backend, 'maxmiss': 0, 'prune': True, 'memoize': True})
            mjobs.add(g, mcfg, it['texts'], start=it.get('start', 's'))
    rm, mach = run_machine(mjobs)
    ck.add_tlc(rm, 'PegMachineMC (model flavour and generated-parser flavour)')
    if rm.violated:
        ck.violation({'kind': 'schedule', 'inputs': {'spec': 'PegMachineMC'}, 'expected': 'Refines (model flavour), FramesBalanced, StepBound, CutContained',
                      'observed': rm.violated, 'trace': [ln for ln in rm.trace if not ln.startswith('"RES')][:200]}, key='machine' + str(rm.violated))
        return ck.finish()
    seen = set()
    for j, (it, c, im) in enumerate(zip(items, cases, impl), 1):
        g = it['g']
        if im['compile']['k'] != 'ok' or im['gen']['compile']['k'] != 'ok':
            ck.violation({'kind': 'parse', 'inputs': {'grammar': c['ebnf']}, 'expected': 'model compiles and generated source is valid Python',
                          'observed': {'model': im['compile'], 'generated': im['gen']['compile']}, 'spec': 'C02: generated source is always valid Python'},
                         key='compile' + c['ebnf'])
            continue
        for m in im['gen'].get('reuse_mismatch') or []:
            ck.violation({'kind': 'history', 'inputs': {'grammar': c['ebnf'], **{k2: v for k2, v in m.items() if k2 in ('text', 'settings')}},
                          'expected': m.get('fresh_object'), 'observed': m.get('reused_object'),
                          'why': 'a generated parser object that was used before behaves differently from a fresh one',
                          'spec': 'C02: same parse-time settings => same outcome (the parser object carries no parse state)'},
                         key='reuse' + c['ebnf'])
        lastnode, defscope = in_lastnode_scope(g), in_define_scope(g)
        for t, (s, mr, gr) in enumerate(zip(spec[j], im['res'], im['gen']['res'])):
            so = spec_outcome(s)
            ck.count(evaluations=1, traces=1)
            if so['k'] == 'ok':
                seen.add((c['ebnf'], repr(so.get('v')), it['label']))
            if j % 300 == 1 and t == 5:
                ck.sample({'label': it['label'], 'grammar': c['ebnf'], 'settings': c['settings'], 'text': c['texts'][t], 'spec': so,
                           'model': mr['plain'], 'generated': gr['plain']})
            why = None
            # (i) agreement with the model (all shapes)
            mp, gp = mr['plain'], gr['plain']
            mm, mg = mach.get(2 * j - 1, {}).get(t + 1), mach.get(2 * j, {}).get(t + 1)
            if mm is None or mg is None:
                from .. import tlc as _tlc
                raise _tlc.MachineryError(f'PegMachineMC produced no final state for job {j} text {t + 1}')
            gen_dev = machine_vs_impl(mg, gp)
            predicted = gen_dev is None and machine_vs_impl(mm, mp) is None
            if gen_dev and mm['r'].get('k') != 'none':
                ck.violation({'kind': 'parse', 'inputs': {'grammar': c['ebnf'], 'text': c['texts'][t], 'settings': c['settings'], 'label': it['label']},
                              'expected': mg['r'], 'observed': gp, 'why': 'generated parser departs from PegMachine (generated flavour): ' + gen_dev,
                              'spec': 'PegMachine with Cfg.backend = "gen"'}, key=c['ebnf'] + 'genflavour' + it['label'])
                continue
            if mp['k'] != gp['k']:
                why = f"model {mp['k']}:{mp.get('cls')} generated {gp['k']}:{gp.get('cls')}"
            elif mp['k'] == 'ok' and mp['v'] != gp['v']:
                why = 'AST differs from the model'
            elif mp['k'] == 'ok' and (mr.get('wrapped') or {}).get('pos') != (gr.get('wrapped') or {}).get('pos'):
                why = 'end position differs from the model'
            # (ii) conformance of the generated parser to PegSem (specified shapes).  When the generated parser and the model agree
            # with each other, C02 holds for this case: a common departure from the specification is the model's (C01's verdict
            # and findings); it is recorded here, not reported.
            if not why:
                w2 = compare(so, gr)
                if w2:
                    ck.notes['both_backends_differ_from_spec'] = ck.notes.get('both_backends_differ_from_spec', 0) + 1
            if not why:
                continue
            what = f"{c['ebnf'].strip()} on {c['texts'][t]!r} [{it['label']}]: {why}"
            if predicted and lastnode and ('AST differs' in why or 'value' in why or gp['k'] != mp['k']) and ck.known('KF-C02-1', what):
                continue
            if predicted and defscope and ('AST differs' in why or 'value' in why) and ck.known('KF-C02-2', what):
                continue
            if not predicted:
                why += ' (and the two flavours of PegMachine do not predict this pair of outcomes)'
            ck.violation({'kind': 'parse', 'inputs': {'grammar': c['ebnf'], 'text': c['texts'][t], 'settings': c['settings'],
                                                      'label': it['label']},
                          'expected': {'spec': so, 'model': mr}, 'observed': gr, 'why': why, 'spec': 'PegSem!Parse + agreement'},
                         key=c['ebnf'] + why[:25] + it['label'])
    # code -> spec: executions of generated parsers (and of the model, for the same cases) recorded through the Tracer seam and validated
    # against PegTrace in the matching flavour: option order, backtracking, cuts, memo replays and the value of every rule
    from ..pegcheck import trace_validate
    tcases = []
    step = 14 if tier == 'quick' else 3
    for k, (it, g) in enumerate(list(zip(items, marked))[ck.seed % step::step]):
        if it['settings'].get('parseinfo') or g.get('keywords'):
            continue
        cfg = make_cfg(chars_of(g, it['texts']), **it['cfg'])
        cfg.update({'maxmiss': 100000, 'prune': True, 'memoize': True})
        texts = [''.join(t) for t in it['texts']][::2]
        for backend in ('gen', 'model'):
            tcases.append({'ebnf': to_ebnf(it['g']), 'g': it['g'], 'cfg': cfg, 'texts': texts, 'settings': it['settings'], 'backend': backend,
                           'start': it.get('start', 's')})
    trace_validate(ck, tcases, label='C02 generated and model executions')
    ck.cov['distinct_nontrivial'] = len(seen)
    ck.cov['rule'] = (f'{len(gs)} grammars (every expression with <=1 operator node over 9 leaves, a slice of those with 2, seeded random '
                      'core-language grammars, special grammars: token rules, keyword-like rule names, parameters, dict-method names, @name) '
                      'x settings {defaults (all), ignorecase, nameguard off, whitespace override, parseinfo (a quarter each)} x all '
                      'texts over {a,b,space} up to 3 (+7); non-trivial = accepted with distinct (grammar, AST, setting)')
    ck.notes.update({'grammars': len(gs), 'jobs': len(items)})
    ck.assumptions += ['error positions and messages are not compared (C02 speaks of accept/reject, AST, and failing with a parse error)']
    return ck.finish()
