"""C07 - object models mirror the AST with typed, navigable nodes.
PegSem with Cfg.act = "model" (ObjModel): a rule annotated name::T::Base yields Obj(T, bases, attrs) whose attributes are the rule's
named elements (or ast), builtin type names convert the value; TLC evaluates it on typed grammars x texts; replayed with asmodel=True,
ModelBuilderSemantics() and the classes of the generated model module; compared on class name, declared bases in the MRO, attribute map
(also against the plain AST of the same input), children()/parent, the three walkers."""
from __future__ import annotations

from ..absgrammar import (all_texts, alt, call, chars_of, grammar, make_cfg, named, namedlist, opt, ovr, pat, plus, rule, seq, star, tok,
                          to_ebnf)
from ..common import Check
from ..objreplay import run_obj_case
from ..pegcheck import Jobs, default_case, run_impl, run_oracle, spec_outcome


def grammars():
    a, b, p = tok('a'), tok('b'), tok('+')
    ab = pat(['a', 'b'], 1, False)
    leaf = lambda typ=('Leaf',): rule('y', named('v', ab), typ=typ)            # noqa: E731
    return {
        'flat': grammar(rule('s', seq(named('l', call('y')), named('r', star(call('y')))), typ=['Root']), leaf()),
        'bases': grammar(rule('s', seq(named('l', call('y')), named('r', opt(call('z')))), typ=['Root', 'Top']), leaf(('Leaf', 'Base', 'Top')),
                         rule('z', named('w', p), typ=['Plus', 'Base', 'Top'])),
        'ast-attr': grammar(rule('s', plus(call('y')), typ=['Root']), rule('y', pat(['a', 'b'], 1, True), typ=['Word'])),
        'override': grammar(rule('s', seq(a, ovr(call('y')), opt(b)), typ=['Wrap']), leaf()),
        'untyped-between': grammar(rule('s', star(call('m')), typ=['Root']), rule('m', seq(named('k', call('y')), namedlist('more', opt(call('y'))))),
                                   leaf()),
        'nested-lists': grammar(rule('s', seq(named('xs', star(seq(call('y'), opt(p)))), named('last', opt(call('y')))), typ=['Root']), leaf()),
        'same-class-two-rules': grammar(rule('s', seq(named('l', call('y')), named('r', opt(call('z')))), typ=['Root']), leaf(),
                                        rule('z', named('v', p), typ=['Leaf'])),
        'builtin-int': grammar(rule('s', seq(named('n', call('n_')), named('w', opt(call('w_')))), typ=['Root']),
                               rule('n_', pat(['1', '2'], 1, True), typ=['int']), rule('w_', pat(['a', 'b'], 1, True), typ=['str'])),
        'method-names': grammar(rule('s', seq(named('load', call('y')), namedlist('clone', star(call('y')))), typ=['Root']), leaf()),
        'optional-node': grammar(rule('s', seq(named('o', opt(call('y'))), named('t', alt(call('y'), p))), typ=['Root']), leaf()),
        # nodes between two tokens in an un-named sequence, in a list, in a named group
        'token-delimited': grammar(rule('s', seq(p, call('y'), p), typ=['Paren']), leaf()),
        'token-delimited-list': grammar(rule('s', seq(a, star(call('y')), b), typ=['Block']), leaf()),
        'token-delimited-named': grammar(rule('s', named('args', seq(p, star(call('y')), p)), typ=['Call']), leaf()),
        # a class that is one rule's own type and another rule's declared base, the base chain declared by the earlier rule
        'own-type-and-base': grammar(rule('s', seq(named('l', call('lit')), named('t', opt(call('str_')))), typ=['Root']),
                                     rule('lit', named('v', ab), typ=['Literal', 'Expr']), rule('str_', named('w', p), typ=['String', 'Literal'])),
        # a type named like a Python builtin that is no conversion type, with a class of that name SUPPLIED by the user
        # (constructors=): the supplied class is the class of that name.  (Without one the builtin of that name is what "builtin
        # type names convert the value" yields, and the model-module generator leaves builtin names out on purpose: the other
        # routes are not compared for this grammar.)
        'builtin-named-class': grammar(rule('s', seq(named('l', call('y')), named('r', opt(call('z')))), typ=['Root']),
                                       rule('y', named('v', ab), typ=['Warning', 'Diag']), rule('z', named('w', p), typ=['Diag'])),
        # element names that are members of dict (items, keys): the AST spells them items_ / keys_; whatever the spelling, the classes
        # of the generated model module must give the same tree as the synthesized ones (the routes are compared with each other)
        'dict-member-names': grammar(rule('s', seq(named('items', call('y')), named('keys', opt(call('y')))), typ=['Root']), leaf()),
        # a node that a DISCARDED node also held: the typed rule y is answered from the memo in the later alternatives, the Macro built in
        # the second alternative is thrown away - the Leaf belongs to the node that is in the result
        'child-of-discarded-node': grammar(rule('s', alt(seq(ovr(call('c')), p), seq(ovr(call('m')), b), seq(ovr(call('c')), a))),
                                           rule('c', named('k', call('y')), typ=['Call']), rule('m', named('k', call('y')), typ=['Macro']), leaf()),
        'child-of-discarded-list': grammar(rule('s', alt(seq(ovr(call('c')), p), seq(ovr(call('m')), b), seq(ovr(call('c')), a))),
                                           rule('c', namedlist('ks', plus(call('y'))), typ=['Call']),
                                           rule('m', seq(named('k', call('y')), named('j', opt(call('y')))), typ=['Macro']), leaf()),
        # the routes compared with each other (as for dict-member-names): a typed rule with a named and an un-named alternative; element
        # names that are Python keywords
        'routes/named-and-unnamed-alternative': grammar(rule('s', alt(seq(named('l', call('y')), p, named('r', call('s'))), call('y')), typ=['Expr']), leaf()),
        'routes/keyword-names': grammar(rule('s', seq(named('from', call('y')), named('import', opt(call('y')))), typ=['Root']), leaf()),
        'deep': grammar(rule('s', seq(named('c', call('m')), opt(b)), typ=['Root']), rule('m', seq(named('d', call('y')), named('e', star(call('y')))), typ=['Mid']), leaf()),
    }


def mro_ok(spec_node, impl_node):
    want = [spec_node['__node__']] + spec_node['bases']
    mro = impl_node['mro']
    idx = [mro.index(n) if n in mro else -1 for n in want]
    return all(i >= 0 for i in idx) and idx == sorted(idx)


def cmp_tree(s, i, path='$', check_mro=True):
    """spec projection vs real projection -> reason or None"""
    if isinstance(s, dict) and '__node__' in s:
        if not (isinstance(i, dict) and i.get('__node__') == s['__node__']):
            return f'{path}: expected an instance of {s["__node__"]}, got {i.get("__node__") if isinstance(i, dict) else type(i).__name__}'
        if check_mro and not mro_ok(s, i):
            return f'{path}: class {s["__node__"]} must derive from {s["bases"]} in that order; MRO is {i["mro"]}'
        sa, ia = s['attrs'], {k: v for k, v in i['attrs'].items()}
        for k, v in sa.items():
            if k not in ia:
                if v is None:
                    continue
                return f'{path}.{k}: attribute missing'
            r = cmp_tree(v, ia[k], f'{path}.{k}', check_mro)
            if r:
                return r
        extra = [k for k, v in ia.items() if k not in sa and v is not None and not (k == 'ast' and 'ast' not in sa)]
        if extra:
            return f'{path}: unexpected attributes {extra}'
        return None
    if isinstance(s, dict):
        if not isinstance(i, dict) or '__node__' in i:
            return f'{path}: expected a dict AST'
        for k in (set(s) | set(i)) - {'__pi__'}:
            r = cmp_tree(s.get(k), i.get(k), f'{path}.{k}', check_mro)
            if r:
                return r
        return None
    if isinstance(s, list):
        if not isinstance(i, list) or len(i) != len(s):
            return f'{path}: list {i!r} != {s!r}'
        for n, (x, y) in enumerate(zip(s, i)):
            r = cmp_tree(x, y, f'{path}[{n}]', check_mro)
            if r:
                return r
        return None
    return None if s == i else f'{path}: {i!r} != {s!r}'


def strip_nodes(x):
    """real projection -> the plain AST it must mirror (node -> its attribute map / ast)"""
    if isinstance(x, dict) and '__node__' in x:
        at = x['attrs']
        if set(at) == {'ast'}:
            return strip_nodes(at['ast'])
        return {k: strip_nodes(v) for k, v in at.items() if k != 'ast'}
    if isinstance(x, dict):
        return {k: strip_nodes(v) for k, v in x.items() if k != '__pi__'}
    if isinstance(x, list):
        return [strip_nodes(v) for v in x]
    return x


def mirror(node_view, plain):
    """-> True if the node's attribute map does NOT mirror the plain AST.  Attributes a class inherits from a declared base class
    (another rule's names) are present with None and are not part of this rule's named elements: they are ignored."""
    if isinstance(node_view, dict) and isinstance(plain, dict):
        for k, v in node_view.items():
            if k not in plain:
                if v is None:
                    continue
                return True
            if mirror(v, plain[k]):
                return True
        return any(k not in node_view for k in plain)
    if isinstance(node_view, list) and isinstance(plain, list):
        return len(node_view) != len(plain) or any(mirror(a, b) for a, b in zip(node_view, plain))
    return node_view != plain


def run(tier):
    ck = Check('C07', tier)
    texts = all_texts(['a', 'b', '+', ' '], 3 if tier == 'quick' else 4) + [list(t) for t in ['a b + a', 'ab ba', 'a+b+a', '12 ab', '1 a', '21', 'a b a b']]
    jobs, cases, names = Jobs(), [], []
    for name, g in grammars().items():
        cfg = make_cfg(chars_of(g, texts), act='model')
        jobs.add(g, cfg, texts)
        from ..absgrammar import subexps
        classes = []
        for rl in g['rules']:
            typ = rl.get('typ') or []
            if not typ or typ[0] in ('int', 'str', 'list', 'dict', 'bool', 'float'):
                continue
            attrs = sorted({e['name'] for e in subexps(rl['exp']) if e['op'] in ('named', 'namedlist')})
            classes.append([typ[0], list(typ[1:]), attrs])
        cases.append(default_case(to_ebnf(g), texts, label=name, classes=classes))
        names.append(name)
    r, spec = run_oracle(jobs)
    ck.add_tlc(r, 'PegSemBatch(act=model)')
    impl = run_impl(cases, fn=run_obj_case, chunk=1)
    nn = 0
    for j, (c, im) in enumerate(zip(cases, impl), 1):
        if im['compile']['k'] != 'ok':
            ck.violation({'kind': 'parse', 'inputs': {'grammar': c['ebnf']}, 'expected': 'compiles, model module generates and loads',
                          'observed': im['compile']}, key='compile' + c['ebnf'])
            continue
        for t, (s, o) in enumerate(zip(spec[j], im['res'])):
            so = spec_outcome(s)
            text = c['texts'][t]
            if c['label'] == 'dict-member-names' or c['label'].startswith('routes/'):
                ref = o.get('asmodel')
                for how in ('builder', 'generated', 'typedefs'):
                    got = o.get(how)
                    if not ref or not got:
                        continue
                    ck.count(evaluations=1, traces=1)
                    def shape(x):         # class names and attribute maps; not the MRO, not the `ast` attribute of dataclass nodes
                        if isinstance(x, dict) and '__node__' in x:
                            return {'__node__': x['__node__'], 'attrs': {k: shape(v) for k, v in x['attrs'].items() if k != 'ast'}}
                        if isinstance(x, dict):
                            return {k: shape(v) for k, v in x.items()}
                        if isinstance(x, list):
                            return [shape(v) for v in x]
                        return x
                    navs = [nv for nv in (got.get('nav') or [])
                            if not (nv.startswith('LAZY-PARENT') and ck.known('KF-C07-2', f"{c['ebnf'].strip()} on {text!r} [{how}]: {nv}"))]
                    if c['label'].startswith('routes/'):
                        # classes with DECLARED fields (the generated model module, directly or through typedefs=): a node that sits in .ast
                        # although the class has fields is not among children(); only navigation is judged for these two grammars (which
                        # classes the asmodel route finds depends on what the process registered before: KF-C10-5)
                        kf = 'KF-C07-3' if 'unnamed' in c['label'] else 'KF-C07-4'
                        if how in ('generated', 'typedefs'):
                            navs = [nv for nv in navs if not ck.known(kf, f"{c['ebnf'].strip()} on {text!r} [{how}]: {nv}")]
                        if navs:
                            ck.violation({'kind': 'parse', 'inputs': {'grammar': c['ebnf'], 'text': text, 'how': how, 'label': c['label']},
                                          'expected': 'children/parent/walkers cover exactly the nodes stored in attributes', 'observed': navs,
                                          'why': f'navigation on the tree of the {how} route', 'spec': 'C07 navigation'}, key=c['ebnf'] + how + 'routesnav')
                        continue
                    if (ref['k'], shape(ref.get('v'))) != (got['k'], shape(got.get('v'))) or navs:
                        ck.violation({'kind': 'parse', 'inputs': {'grammar': c['ebnf'], 'text': text, 'how': how, 'label': c['label']},
                                      'expected': {'the tree built with synthesized classes (asmodel=True)': ref}, 'observed': got,
                                      'why': f'the {how} route does not give the same tree as synthesized classes', 'spec': 'PegSem!MkNode (ObjModel): one tree whatever the route'},
                                     key=c['ebnf'] + how + 'routes')
                continue
            for how in ('asmodel', 'builder', 'generated', 'typedefs', 'classic'):
                if how not in o or (c['label'] == 'builtin-named-class' and how != 'classic'):
                    continue
                ck.count(evaluations=1, traces=1)
                got = o[how]

                def bad(why, expected=None):
                    ck.violation({'kind': 'parse', 'inputs': {'grammar': c['ebnf'], 'text': text, 'how': how, 'label': c['label']},
                                  'expected': expected if expected is not None else so, 'observed': got, 'why': why,
                                  'spec': 'PegSem!MkNode (ObjModel)'}, key=c['ebnf'] + how + why.split(':')[0][:30])
                if so['k'] == 'fuel':
                    continue
                if (so['k'] == 'ok') != (got['k'] == 'ok'):
                    bad(f"spec {so['k']}, impl {got['k']}:{got.get('cls')} {got.get('msg', '')}")
                    continue
                if so['k'] != 'ok':
                    continue
                if isinstance(so['v'], dict) and '__node__' in so['v']:
                    nn += 1
                why = cmp_tree(so['v'], got['v'], check_mro=(how != 'generated' or True))
                if why:
                    bad(why)
                    continue
                # mirror of the plain AST of the same input
                if o['plain']['k'] == 'ok' and c['label'] not in ('builtin-int',):
                    if mirror(strip_nodes(got['v']), o['plain']['v']):
                        bad(f"attributes differ from the plain AST: {strip_nodes(got['v'])!r} vs {o['plain']['v']!r}", o['plain']['v'])
                for nav in (got.get('nav') or []) if c['label'] != 'method-names' else []:
                    if nav.startswith('LAZY-PARENT') and ck.known('KF-C07-2', f"{c['ebnf'].strip()} on {text!r} [{how}]: {nav}"):
                        continue
                    bad('navigation: ' + nav, 'children/parent/walkers cover exactly the nodes stored in attributes')
            if t == 30:
                ck.sample({'grammar': c['ebnf'], 'text': text, 'spec': so, 'impl': {k: o[k] for k in ('plain', 'asmodel')}})
    ck.cov['distinct_nontrivial'] = nn
    ck.cov['rule'] = ('11 typed grammars (flat, Base chains, ast attribute, override, untyped dict rule between nodes, nested lists, one class from '
                      'two rules, builtin int/str, attribute names equal to method names, optional nodes, three levels) x all texts over {a,b,+,space} '
                      'up to the bound x {asmodel=True, ModelBuilderSemantics(), generated model module as semantics, compile(typedefs=[module]) after asmodel}; non-trivial = accepted case whose value is a node')
    ck.cov['exhaustive'] = True
    return ck.finish()
