"""MANIFEST.setup_cmd: syntax-check every specification with SANY and byte-compile the harness. Offline, files on disk only."""
import compileall, glob, os, sys
from . import tlc

def main():
    bad = 0
    for f in sorted(glob.glob(os.path.join(tlc.SPEC, '*.tla'))):
        ok = tlc.sany(f)
        print(('ok   ' if ok else 'FAIL ') + os.path.basename(f))
        bad += not ok
    if not compileall.compile_dir(os.path.dirname(__file__), quiet=1):
        bad += 1
    return 1 if bad else 0

if __name__ == '__main__':
    sys.exit(main())
