"""The abstract grammar exchange form (see spec/PegGrammar.tla) and its projections:
   to_ebnf(g)  -> TatSu grammar text          (spec -> code)
   to_spec(g)  -> JSON for TLC                 (the constant of a behaviour)
   from_model(model) -> abstract grammar       (code -> spec; used by C13/C14/C15 and traces)
plus the enumerators/generators of the grammar universes."""
from __future__ import annotations

import itertools
import random

# ---------------------------------------------------------------- constructors


def tok(s): return {'op': 'tok', 's': list(s)}
def pat(cls, mn=1, many=False, cls2=(), mn2=0, many2=False):
    """a pattern over a character class; with cls2 a pattern with TWO groups: /(cls-run)(cls2-run)/ (docs/syntax.rst: the value has the semantics
    of re.findall(pattern, text)[0], a tuple if there is more than one group)"""
    return {'op': 'pat', 'cls': list(cls), 'min': mn, 'many': many, 'cls2': list(cls2), 'min2': mn2, 'many2': many2}
def zwpat(src): return {'op': 'zwpat', 'src': src}      # a pattern that can only match the empty string (\\b, (?=x), ^): consumes nothing
def dot(): return {'op': 'dot'}
def meta(kind): return {'op': 'meta', 'kind': kind}
def const(v): return {'op': 'const', 'v': val(v)}
def constbad(): return {'op': 'constbad'}
def void(): return {'op': 'void'}
def fail(): return {'op': 'fail'}
def eof(): return {'op': 'eof'}
def cut(): return {'op': 'cut'}
def emptyclosure(): return {'op': 'emptyclosure'}
def seq(*es): return {'op': 'seq', 'es': list(es)}
def alt(*es): return {'op': 'alt', 'es': list(es)}
def group(e): return {'op': 'group', 'e': e}
def skipgroup(e): return {'op': 'skipgroup', 'e': e}
def opt(e): return {'op': 'opt', 'e': e}
def star(e): return {'op': 'star', 'e': e}
def plus(e): return {'op': 'plus', 'e': e}
def join(sep, e, positive=False, keep=True): return {'op': 'join', 'e': e, 'sep': sep, 'plus': positive, 'keep': keep}
def and_(e): return {'op': 'and', 'e': e}
def not_(e): return {'op': 'not', 'e': e}
def call(name): return {'op': 'call', 'name': name}
def named(name, e): return {'op': 'named', 'name': name, 'e': e}
def namedlist(name, e): return {'op': 'namedlist', 'name': name, 'e': e}
def ovr(e): return {'op': 'ovr', 'e': e}
def ovrlist(e): return {'op': 'ovrlist', 'e': e}
def skipto(e): return {'op': 'skipto', 'e': e}


def rule(name, exp, isname=False, nomemo=False, lrec=False, memo=True, params=(), typ=(), nostak=False):
    r = {'name': name, 'exp': exp, 'tokn': name.lstrip('_')[:1].isupper(), 'isname': isname, 'nomemo': nomemo,
         'lrec': lrec, 'memo': memo, 'params': list(params), 'typ': list(typ)}
    if nostak:
        r['nostak'] = True        # @nostak: documented as keeping the rule off the call stack shown in traces; no effect on results
    return r


def grammar(*rules, keywords=()):
    return {'rules': list(rules), 'keywords': [list(k) for k in keywords]}


def val(v):
    """Python value -> tagged spec value."""
    if v is None:
        return {'t': 'n'}
    if v == () and isinstance(v, tuple):
        return {'t': 'u'}
    if isinstance(v, bool):
        return {'t': 'b', 'v': v}
    if isinstance(v, int):
        return {'t': 'i', 'v': -v, 'neg': True} if v < 0 else {'t': 'i', 'v': v}
    if isinstance(v, str):
        return {'t': 's', 'v': list(v)}
    if isinstance(v, (list, tuple)):
        return {'t': 'l', 'c': True, 'v': [val(x) for x in v]}
    if isinstance(v, dict):
        return {'t': 'd', 'v': [[k, val(x)] for k, x in v.items()]}
    raise TypeError(type(v))


def unval(v):
    """Tagged spec value (from TLC JSON) -> comparable Python value (lists for all sequences, dicts unordered)."""
    t = v['t']
    if t == 'n':
        return None
    if t == 'u':
        return ('()',)
    if t == 's':
        x = v['v']
        return ''.join(x) if isinstance(x, list) else x
    if t == 'i':
        return -v['v'] if v.get('neg') else v['v']
    if t == 'b':
        return v['v']
    if t == 'f':
        return float(''.join(v['v']).replace('_', ''))
    if t == 'l':
        return [unval(x) for x in v['v']]
    if t == 'd':
        return {('@' if k == '@' else k): unval(x) for k, x in v['v']}
    if t == 'g':
        return {'__tag__': v['r'], 'v': unval(v['v'])}
    if t == 'o':
        return {'__node__': v['cls'], 'bases': list(v['bases']), 'attrs': {k: unval(x) for k, x in v['v']}}
    raise ValueError(t)


def norm(x):
    """Project a value returned by the real parser onto the same comparable form."""
    if isinstance(x, dict):
        return {k: norm(v) for k, v in x.items() if k not in ('parseinfo', '__parseinfo__')}
    if x == () and isinstance(x, tuple):
        return ('()',)
    if isinstance(x, (list, tuple)):
        return [norm(v) for v in x]
    if isinstance(x, (str, int, bool, float)) or x is None:
        return x
    if hasattr(x, '__tag__'):
        return {'__tag__': x.__tag__, 'v': norm(x.v)}
    return repr(x)


# ---------------------------------------------------------------- rendering to TatSu EBNF

_ATOM = {'tok', 'pat', 'zwpat', 'dot', 'meta', 'const', 'constbad', 'void', 'fail', 'eof', 'cut', 'emptyclosure', 'group', 'skipgroup', 'opt', 'star',
         'plus', 'call', 'join'}


def _q(s):
    s = ''.join(s)
    return "'" + s.replace('\\', '\\\\').replace("'", "\\'").replace('\n', '\\n').replace('\t', '\\t') + "'"


def _cls(chars):
    out = ''
    for c in chars:
        if c in '\\]^-[/':
            out += '\\' + c
        elif c == '\n':
            out += '\\n'
        elif c == ' ':
            out += ' '
        else:
            out += c
    return out


def render(e, top=False):
    op = e['op']
    if op == 'tok':
        return _q(e['s'])
    if op == 'pat':
        cls = e['cls']
        body = _cls(cls) if len(cls) == 1 and cls[0].isalnum() else '[' + _cls(cls) + ']'
        q = {(1, False): '', (1, True): '+', (0, True): '*', (0, False): '?'}[(e['min'], e['many'])]
        if e.get('cls2'):
            cls2 = e['cls2']
            body2 = _cls(cls2) if len(cls2) == 1 and cls2[0].isalnum() else '[' + _cls(cls2) + ']'
            q2 = {(1, False): '', (1, True): '+', (0, True): '*', (0, False): '?'}[(e['min2'], e['many2'])]
            return '/(' + body + q + ')(' + body2 + q2 + ')/'
        return '/' + body + q + '/'
    if op == 'zwpat':
        return '/' + e['src'] + '/'
    if op == 'meta':
        return '@' + e['kind']
    if op == 'dot':
        return '/./'
    if op == 'const':
        v = e['v']
        return '`' + (''.join(v['v']) if v['t'] == 's' else str(v['v'])) + '`'
    if op == 'constbad':
        return '`{1/0}`'
    if op == 'void':
        return '()'
    if op == 'fail':
        return '!()'
    if op == 'eof':
        return '$'
    if op == 'cut':
        return '~'
    if op == 'emptyclosure':
        return '{}'
    if op == 'call':
        return e['name']
    if op == 'seq':
        return ' '.join(render(x) if x['op'] != 'alt' else '(' + render(x) + ')' for x in e['es'])
    if op == 'alt':
        return ' | '.join(render(x) if x['op'] != 'alt' else '(' + render(x) + ')' for x in e['es'])
    if op == 'group':
        return '(' + render(e['e']) + ')'
    if op == 'skipgroup':
        return '(?: ' + render(e['e']) + ')'
    if op == 'opt':
        return '[' + render(e['e']) + ']'
    if op == 'star':
        return '{' + render(e['e']) + '}'
    if op == 'plus':
        return '{' + render(e['e']) + '}+'
    if op == 'join':
        sep = render(e['sep'])
        if e['sep']['op'] not in ('tok', 'pat', 'call', 'group'):
            sep = '(' + sep + ')'
        return sep + ('%' if e['keep'] else '.') + '{' + render(e['e']) + '}' + ('+' if e['plus'] else '')
    sub = render(e['e'])
    if e['e']['op'] not in _ATOM:
        sub = '(' + sub + ')'
    if op == 'named':
        return e['name'] + ':' + sub
    if op == 'namedlist':
        return e['name'] + '+:' + sub
    if op == 'ovr':
        return '@:' + sub
    if op == 'ovrlist':
        return '@+:' + sub
    if op == 'not':
        return '!' + sub
    if op == 'and':
        return '&' + sub
    if op == 'skipto':
        return '->' + sub
    raise ValueError(op)


def to_ebnf(g, directives=None, name=None):
    lines = []
    if name:
        lines.append(f'@@grammar :: {name}')
    for k, v in (directives or {}).items():
        lines.append(f'@@{k} :: {v}')
    for kw in g.get('keywords', []):
        lines.append('@@keyword :: ' + ''.join(kw))
    for r in g['rules']:
        if r.get('isname'):
            lines.append('@name')
        if r.get('nomemo'):
            lines.append('@nomemo')
        if r.get('nostak'):
            lines.append('@nostak')
        params = ''
        if r.get('params'):
            params = '[' + ', '.join(r['params']) + ']'
        typ = ''.join('::' + t for t in r.get('typ', []))
        lines.append(f"{r['name']}{typ}{params} = {render(r['exp'])} ;")
    return '\n'.join(lines) + '\n'


# ---------------------------------------------------------------- spec-side configuration record

WS_DEFAULT = [' ', '\t', '\n', '\r']


def make_cfg(chars, ws=None, eolc='', cmt=('', ''), nameguard=True, namechars='', ignorecase=False, keywords=(),
             act='none', actrule='*', lr=True):
    chars = sorted(set(chars) | set(namechars))
    return {
        'ws': list(WS_DEFAULT if ws is None else ws),
        'eolc': list(eolc), 'cmto': list(cmt[0]), 'cmtc': list(cmt[1]),
        'nameguard': bool(nameguard), 'namechars': list(namechars), 'ignorecase': bool(ignorecase),
        'alpha': [c for c in chars if c.isalpha()], 'alnum': [c for c in chars if c.isalnum()],
        'fold': [[c, c.lower()] for c in chars if c.lower() != c and len(c.lower()) == 1],
        'keywords': [list(k) for k in keywords], 'act': act, 'actrule': actrule, 'lr': bool(lr),
    }


def chars_of(g, texts=()):
    out = set()

    def walk(e):
        if e['op'] == 'tok':
            out.update(e['s'])
        if e['op'] == 'pat':
            out.update(e['cls'])
            out.update(e.get('cls2') or ())
        if e['op'] == 'const' and e['v']['t'] == 's':
            out.update(e['v']['v'])
        for k in ('e', 'sep'):
            if k in e:
                walk(e[k])
        for x in e.get('es', []):
            walk(x)
    for r in g['rules']:
        walk(r['exp'])
    for kw in g.get('keywords', []):
        out.update(kw)
    for t in texts:
        out.update(t)
    return out


def all_texts(alphabet, maxlen):
    out = []
    for n in range(maxlen + 1):
        for t in itertools.product(alphabet, repeat=n):
            out.append(list(t))
    return out


# ---------------------------------------------------------------- walking helpers

def subexps(e):
    yield e
    for k in ('e', 'sep'):
        if k in e:
            yield from subexps(e[k])
    for x in e.get('es', []):
        yield from subexps(x)


def size(e):
    return sum(1 for _ in subexps(e))


def calls(e):
    return {x['name'] for x in subexps(e) if x['op'] == 'call'}


# ---------------------------------------------------------------- universes

class Gen:
    """Seeded random generator of core-language expressions (the thorough tier and the bulk of the quick tier).
    The exhaustive small universe is produced by enum_exprs below."""

    def __init__(self, rnd: random.Random, toks=('a', 'b', '+'), names=('x', 'w'), rules=('y', 'Z'), cuts=False,
                 full=True):
        self.r, self.toks, self.names, self.rules, self.cuts, self.full = rnd, toks, names, rules, cuts, full

    def leaf(self):
        r = self.r
        k = r.random()
        if k < 0.55:
            return tok(r.choice(self.toks))
        if k < 0.70 and self.rules:
            return call(r.choice(self.rules))
        if k < 0.80:
            return r.choice([pat(['a'], 1, True), pat(['a', 'b'], 1, False), pat(['b'], 0, True), dot(),
                             pat(['a', 'b'], 1, True)])
        if k < 0.86:
            return const(r.choice(['k', 7]))
        if k < 0.90:
            return void()
        if k < 0.93:
            return eof()
        if k < 0.95 and self.cuts:
            return cut()
        if k < 0.96:
            return emptyclosure()
        if k < 0.97:
            return fail()
        return tok(r.choice(self.toks))

    def exp(self, d):
        r = self.r
        if d <= 0:
            return self.leaf()
        kinds = ['leaf', 'seq', 'seq', 'alt', 'alt', 'opt', 'star', 'plus', 'group', 'named', 'named', 'and', 'not']
        if self.full:
            kinds += ['join', 'gather', 'namedlist', 'ovr', 'ovrlist', 'skipgroup', 'skipto']
        k = r.choice(kinds)
        if k == 'leaf':
            return self.leaf()
        if k in ('seq', 'alt'):
            return {'op': k, 'es': [self.exp(d - 1) for _ in range(r.randint(2, 3))]}
        if k in ('join', 'gather'):
            return join(r.choice([tok('+'), tok('b'), pat(['+'], 1, False)]), self.exp(d - 1), r.random() < 0.5, k == 'join')
        if k in ('named', 'namedlist'):
            return {'op': k, 'name': r.choice(self.names), 'e': self.exp(d - 1)}
        if k == 'skipto':
            return skipto(self.exp(d - 2))
        return {'op': k, 'e': self.exp(d - 1)}

    def grammar(self, depth=3):
        sub = Gen(self.r, self.toks, self.names, (), self.cuts, self.full)
        rules = [rule('s', self.exp(depth))]
        used = calls(rules[0]['exp'])
        if 'y' in used:
            rules.append(rule('y', sub.exp(max(1, depth - 1))))
        if 'Z' in used:
            rules.append(rule('Z', sub.exp(max(1, depth - 2))))
        return grammar(*rules)


LEAVES_SMALL = [tok('a'), tok('b'), pat(['a'], 1, True), dot(), void(), eof(), const('k'), call('y'), call('Z')]


def enum_exprs(n, leaves, unary=('opt', 'star', 'plus', 'group', 'and', 'not'), names=('x',), binary=('seq', 'alt'),
               named_ops=('named',)):
    """All expressions with exactly n operator nodes (leaves count 0), with light canonical pruning."""
    if n == 0:
        yield from leaves
        return
    for u in unary:
        for e in enum_exprs(n - 1, leaves, unary, names, binary, named_ops):
            if u == 'group' and e['op'] in ('group',) or (u == 'group' and e['op'] not in ('seq', 'alt')):
                continue
            if u in ('star', 'plus', 'opt') and e['op'] == 'group':
                continue
            yield {'op': u, 'e': e}
    for u in named_ops:
        for nm in names:
            for e in enum_exprs(n - 1, leaves, unary, names, binary, named_ops):
                if e['op'] in ('seq', 'alt'):
                    continue          # rendered with a group; enumerated through 'group' instead
                yield {'op': u, 'name': nm, 'e': e}
        if u in ('ovr', 'ovrlist'):
            pass
    for b in binary:
        for k in range(0, n):
            for l in enum_exprs(k, leaves, unary, names, binary, named_ops):
                if l['op'] == b:
                    continue          # associativity: flatten to the right
                for r in enum_exprs(n - 1 - k, leaves, unary, names, binary, named_ops):
                    es = [l] + (r['es'] if r['op'] == b else [r])
                    if b == 'seq' and any(x['op'] == 'alt' for x in es):
                        continue      # needs a group
                    yield {'op': b, 'es': es}
