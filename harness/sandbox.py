"""Concretisation of spec/SafeEval.tla shapes with every member of each name class present in the running interpreter, evaluated
through tatsu.util.safeeval directly and through a parser (`constant` and ^`alert`), under an audit hook and with sentinel effects."""
from __future__ import annotations

import builtins
import os
import re
import sys

# the property's allowed builtins: pure functions and constants.  Everything else in `builtins` is outside the set.
PURE = ['abs', 'all', 'any', 'ascii', 'bin', 'callable', 'chr', 'divmod', 'format', 'hash', 'hex', 'iter', 'len', 'max', 'min', 'next',
        'oct', 'ord', 'pow', 'repr', 'round', 'sorted', 'sum']
PURE_CONSTS = ['True', 'False', 'None', 'Ellipsis', 'NotImplemented']
PURE_ARGS = {'abs': '-3', 'all': "['a']", 'any': "['']", 'ascii': "'é'", 'bin': '5', 'callable': "'a'", 'chr': '65', 'divmod': '7, 2',
             'format': "3, '>4'", 'hash': "'a'", 'hex': '255', 'iter': "'ab'", 'len': "'ab'", 'max': "'ab'", 'min': "'ab'",
             'next': "iter('ab')", 'oct': '8', 'ord': "'a'", 'pow': '2, 5', 'repr': "'a'", 'round': '2.5', 'sorted': "'ba'", 'sum': '[1, 2]'}


def classify_builtins():
    out = {'pure': list(PURE), 'cap': [], 'type': [], 'exc': [], 'private': []}
    for name, v in vars(builtins).items():
        if name in PURE or name in PURE_CONSTS:
            continue
        if name.startswith('_'):
            out['private'].append(name)
        elif isinstance(v, type) and issubclass(v, BaseException):
            out['exc'].append(name)
        elif isinstance(v, type):
            out['type'].append(name)
        else:
            out['cap'].append(name)
    return {k: sorted(v) for k, v in out.items()}


def cap_args(name, sentinel):
    table = {
        'open': f"{sentinel!r}, 'w'", 'eval': f"'open({sentinel!r}, \"w\")'", 'exec': f"'open({sentinel!r}, \"w\")'",
        'compile': "'1', 'verif-sentinel', 'eval'", 'input': '', 'exit': '0', 'quit': '0', 'help': '', 'breakpoint': '',
        'print': "'verif-sentinel'", '__import__': "'os'", 'getattr': "'a', 'upper'", 'setattr': "'a', 'b', 1", 'delattr': "'a', 'b'",
        'hasattr': "'a', 'b'", 'globals': '', 'locals': '', 'vars': '', 'dir': '', 'id': "'a'", 'isinstance': "'a', 'b'",
        'issubclass': "'a', 'b'", 'aiter': "'a'", 'anext': "'a'", 'copyright': '', 'credits': '', 'license': '',
    }
    return table.get(name, "'ab'")


def concretise(show, classes, sentinel):
    """Abstract token string -> list of (concrete expression, {class: member}) for every member of the classes it mentions."""
    used = sorted(set(re.findall(r'N:(\w+)', show)))
    pools = []
    for cls in used:
        if cls == 'astkey':
            pools.append([('astkey', 'x')])
        elif cls == 'shadow':
            pools.append([('shadow', 'open'), ('shadow', 'exit')])
        elif cls == 'unknown':
            pools.append([('unknown', 'nosuchname'), ('unknown', 'os'), ('unknown', 'sys')])
        elif cls in ('type', 'exc', 'private') and (len(used) > 1 or len(show) > 14):
            ms = classes[cls]
            pools.append([(cls, m) for m in ms[::max(1, len(ms) // 5)]])       # a spread of members in the deeper shapes
        elif cls in ('cap', 'pure') and len(used) > 1:
            ms = classes[cls]
            pools.append([(cls, m) for m in ms[::3]])
        else:
            pools.append([(cls, m) for m in classes[cls]])
    out = []

    def rec(i, text, chosen):
        if i == len(used):
            if chosen.get('shadow') and chosen.get('shadow') in (chosen.get('cap'), chosen.get('pure')):
                return          # the same identifier cannot be both the AST key and the builtin
            e = text.replace('(lambda:K)()', "(lambda: 'ab')()").replace('[c_for_c_in_K]', "[c for c in 'ab']")
            e = e.replace('genx', "(0 for _ in 'ab')")
            # introspection attributes: the first one in a chain is a generator's frame, the following ones walk the callers
            if '.f_i' in e:
                e = e.replace('.f_i', '.gi_frame', 1)
                for nm in ('.f_back', '.f_globals', '.f_builtins'):
                    e = e.replace('.f_i', nm, 1)
                e = e.replace('.f_i', '.f_back')
            e = e.replace('FMT__', "'{0.__class__.__name__}'.format").replace('FMT', "'{0.real}'.format")
            # a dunder written with a compatibility low line (U+FF3F): identifiers are NFKC-normalised when the expression is compiled,
            # so this IS .__class__ although the text holds no ASCII double underscore
            alt_dunder = ('.__d__' in e) and (len(out) % 2 == 1)
            e = e.replace('.__d__', '._\uff3fclass_\uff3f' if alt_dunder else '.__class__').replace('.p', '.upper')
            # plausible arguments for a call by name
            for cls, m in chosen.items():
                if cls in ('cap', 'shadow'):      # an AST key that shadows a capability is called like the capability
                    e = e.replace(f'{m}(K)', f'{m}({cap_args(m, sentinel)})')
                if cls == 'pure' and m in PURE_ARGS:
                    e = e.replace(f'{m}(K)', f'{m}({PURE_ARGS[m]})')
            e = e.replace('K', "'ab'")
            # syntactic positions that are not expressions themselves (innermost first)
            while True:
                ms = list(re.finditer(r"(kwarg|compiter|compcond|lamdef|kwlam)<([^<>]*)>", e))
                if not ms:
                    break
                m0 = ms[-1]
                inner = m0.group(2)
                rep = {'kwarg': f"sorted('ab', key={inner})", 'compiter': f"['ab' for _ in [{inner}]]",
                       'compcond': f"['ab' for _ in 'ab' if {inner}]", 'lamdef': f"(lambda a={inner}: 'ab')()",
                       'kwlam': f"sorted('ab', key=lambda _a: {inner})"}[m0.group(1)]
                e = e[:m0.start()] + rep + e[m0.end():]
            # f-string nesting: F{...} -> an f-string whose field is the expression
            while 'F{' in e:
                j = e.rindex('F{')
                depth, k = 0, j + 1
                while True:
                    if e[k] == '{':
                        depth += 1
                    elif e[k] == '}':
                        depth -= 1
                        if depth == 0:
                            break
                    k += 1
                inner = e[j + 2:k]
                q = '"' if "'" in inner and '"' not in inner else "'"
                if "'" in inner and '"' in inner:
                    inner = inner.replace('"', "'")
                e = e[:j] + 'f' + q + '{' + inner + '}' + q + e[k + 1:]
            out.append((e, dict(chosen)))
            return
        for cls, m in pools[i]:
            rec(i + 1, text.replace(f'N:{cls}', m), {**chosen, cls: m})
    rec(0, show, {})
    return out


_state = {}


def _noaddr(s):
    return re.sub(r'0x[0-9a-f]+', '0x', s)


def _install(sentinel_dir):
    if _state:
        return
    _state['events'] = []
    _state['calls'] = []

    def hook(event, args):
        if event in ('open',) and args and isinstance(args[0], str) and 'verif-sentinel' in args[0]:
            _state['events'].append(('open', args[0]))
        elif event == 'compile' and len(args) > 1 and args[1] == 'verif-sentinel':
            _state['events'].append(('compile', 'verif-sentinel'))
        elif event in ('builtins.input', 'builtins.breakpoint', 'os.system', 'subprocess.Popen', 'socket.connect'):
            _state['events'].append((event, ''))
        elif event == 'import' and args and args[0] in ('antigravity', 'this'):
            _state['events'].append(('import', args[0]))
    sys.addaudithook(hook)
    for nm in ('input', 'exit', 'quit', 'help', 'breakpoint', 'copyright', 'credits', 'license'):
        def mk(nm):
            def rec(*a, **k):
                _state['calls'].append(nm)
                return None
            rec.__name__ = nm
            return rec
        setattr(builtins, nm, mk(nm))
    os.environ['PYTHONBREAKPOINT'] = '0'


def run_sandbox_points(case):
    """case: {points: [{show, allowed}], classes, sentinel_dir} -> list of mismatches"""
    sdir = case['sentinel_dir']
    _install(sdir)
    import tatsu
    from tatsu.exceptions import FailedParse
    from tatsu.util.safeeval import SecurityError, is_eval_safe, safe_builtins, safe_eval
    bad = []
    n = 0
    sentinel = os.path.join(sdir, f'verif-sentinel-{os.getpid()}')
    for pt in case['points']:
        for expr, chosen in concretise(pt['show'], case['classes'], sentinel):
            n += 1
            # the value bound in the AST: mostly ASCII, every fifth time a text with a character outside Latin-1 (the values of safe
            # expressions must not depend on what the bound text is made of)
            bound = 'ab' if n % 5 else 'a\u4e16'
            ctxkeys = {'x': bound}
            if 'shadow' in chosen:
                ctxkeys[chosen['shadow']] = bound
            context = safe_builtins() | ctxkeys
            _state['events'].clear(); _state['calls'].clear()
            if os.path.exists(sentinel):
                os.unlink(sentinel)
            # ---- helper route
            try:
                safe = is_eval_safe(expr, context)
            except Exception as e:  # noqa: BLE001
                bad.append({'expr': expr, 'route': 'is_eval_safe', 'observed': f'{type(e).__name__}: {e}', 'allowed': pt['allowed']})
                continue
            got = None
            if safe:
                try:
                    got = ('value', safe_eval(expr, context))
                except SecurityError as e:
                    got = ('security', str(e)[:80])
                except Exception as e:  # noqa: BLE001
                    got = ('error', type(e).__name__)
            effects = list(_state['events']) + [('call', c) for c in _state['calls']] + ([('file', 'created')] if os.path.exists(sentinel) else [])
            if effects:
                bad.append({'expr': expr, 'route': 'safe_eval', 'observed': f'effects {effects}', 'allowed': pt['allowed'], 'effect': True})
            if not pt['allowed'] and safe and not pt.get('lenient'):
                bad.append({'expr': expr, 'route': 'is_eval_safe', 'observed': f'accepted ({got and got[0]})', 'allowed': False,
                            'chosen': chosen})
            if pt['allowed']:
                # the value of a safe expression is unaffected: same as plain evaluation with the same names
                try:
                    want = ('value', eval(expr, {'__builtins__': builtins.__dict__}, dict(ctxkeys)))  # noqa: S307
                except Exception as e:  # noqa: BLE001
                    want = ('error', type(e).__name__)
                if not safe:
                    # rejecting more than the policy requires is not a violation of C17 (it is left as text); record only
                    pass
                elif want[0] == 'value' and callable(want[1]):
                    pass                # a function object: identity is not comparable across bindings
                elif want[0] == 'value' and not (got[0] == 'value' and (got[1] == want[1] or _noaddr(repr(got[1])) == _noaddr(repr(want[1])))):
                    bad.append({'expr': expr, 'route': 'safe_eval', 'observed': repr(got)[:120], 'expected': repr(want)[:120], 'allowed': True})
                elif want[0] == 'error' and got[0] == 'value':
                    bad.append({'expr': expr, 'route': 'safe_eval', 'observed': repr(got)[:120], 'expected': repr(want)[:120], 'allowed': True})
            # ---- parser route (constant and alert), every 3rd concretisation
            # (always when an AST key shadows a capability: what such a name resolves to depends on how the parser evaluates)
            if (n % 11 == 0 or 'shadow' in chosen) and '`' not in expr and '\n' not in expr:
                keyrule = ''.join(f" {k}:/a?b?/" for k in ctxkeys)
                for form in ('v:`%s`', '^`%s`'):
                    g = f"s ={keyrule} {form % expr} ;"
                    _state['events'].clear(); _state['calls'].clear()
                    try:
                        r = tatsu.compile(g).parse('ab')
                        res = ('ok', r.get('v') if hasattr(r, 'get') else r)
                    except FailedParse as e:
                        res = ('fail', type(e).__name__)
                    except Exception as e:  # noqa: BLE001
                        res = ('exc', f'{type(e).__name__}: {e}'[:100])
                    effects = list(_state['events']) + [('call', c) for c in _state['calls']] + ([('file', 'created')] if os.path.exists(sentinel) else [])
                    if os.path.exists(sentinel):
                        os.unlink(sentinel)
                    if effects:
                        bad.append({'expr': expr, 'route': 'parser ' + form[:2], 'observed': f'effects {effects}', 'allowed': pt['allowed'],
                                    'effect': True, 'grammar': g})
                    if res[0] == 'exc':
                        bad.append({'expr': expr, 'route': 'parser ' + form[:2], 'observed': res[1], 'allowed': pt['allowed'], 'grammar': g})
    return {'bad': bad[:40], 'n': n}
