"""Concretisation of spec/ConfigLayers.tla: for one (setting, compile layer, directive layer, parse layer) run the real API and
decode the value that was in effect from behaviour-revealing parses."""
from __future__ import annotations

import re

from .impl import clear_caches, load_generated

ABSENT = '-'

# setting -> (grammar body, {value: (directive text, python value)}, [probe texts], decoder(list of accepted flags / results) -> value)
G_AB = "s = 'a' 'b' $ ;\n"


def _dec_ws(acc):       # probes: 'a b', 'a\nb'
    return {(True, True): 'default', (True, False): 'blank', (False, False): 'none'}.get(tuple(acc), f'?{acc}')


def _dec_pair(names):
    def dec(acc):
        on = [n for n, a in zip(names, acc) if a]
        return on[0] if len(on) == 1 else ('nocomments' if not on else f'?{on}')
    return dec


SETTINGS = {
    'ignorecase': dict(grammar="s = 'a' $ ;\n", values={'True': ('True', True), 'False': ('False', False)},
                       probes=['A'], decode=lambda acc: 'True' if acc[0] else 'False'),
    'nameguard': dict(grammar=G_AB, values={'True': ('True', True), 'False': ('False', False)},
                      probes=['ab'], decode=lambda acc: 'False' if acc[0] else 'True'),
    'whitespace': dict(grammar=G_AB, values={'none': ('None', ''), 'blank': ('/[ \\t]+/', re.compile(r'[ \t]+'))},
                       probes=['a b', 'a\nb'], decode=_dec_ws),
    'eol_comments': dict(grammar=G_AB, values={'hash': ('/(?m)#.*?$/', r'(?m)#.*?$'), 'semi': ('/(?m);.*?$/', r'(?m);.*?$')},
                         probes=['a #x\nb', 'a ;x\nb'], decode=_dec_pair(['hash', 'semi'])),
    'comments': dict(grammar=G_AB, values={'paren': ('/\\(\\*.*?\\*\\)/', r'\(\*.*?\*\)'), 'brace': ('/\\{#.*?#\\}/', r'\{#.*?#\}')},
                     probes=['a (*x*) b', 'a {#x#} b'], decode=_dec_pair(['paren', 'brace'])),
    'namechars': dict(grammar="s = 'a' /[-$]/ $ ;\n", values={'dash': ("'-'", '-'), 'dollar': ("'$'", '$')},
                      probes=['a-', 'a$'],
                      decode=lambda acc: {(True, True): 'nochars', (False, True): 'dash', (True, False): 'dollar'}.get(tuple(acc), f'?{acc}')),
    'left_recursion': dict(grammar="s = s 'a' | 'a' ;\n", values={'True': ('True', True), 'False': ('False', False)},
                           probes=['a a'], decode=lambda acc: 'True' if acc[0] else 'False'),
    'parseinfo': dict(grammar="s = x:'a' ;\n", values={'True': ('True', True), 'False': ('False', False)},
                      probes=['a'], decode=lambda acc: 'True' if acc[0] else 'False'),
}


def _accepted(setting, fn, text):
    try:
        r = fn(text)
    except Exception as e:  # noqa: BLE001
        return False, type(e).__name__
    if setting == 'left_recursion':
        return (r == ['a', 'a'] or r == ('a', 'a')), repr(r)
    if setting == 'parseinfo':
        return getattr(r, 'parseinfo', None) is not None, repr(r)
    return True, repr(r)


def run_layers_case(case):
    """case: {setting, c, d, p, backend: model|generated|parse} -> {'eff': decoded value, 'again': decoded value of a later parse
    without explicit settings on the same object, 'detail': [...]}"""
    import tatsu
    s = case['setting']
    spec = SETTINGS[s]
    text = spec['grammar']
    if case['d'] != ABSENT:
        text = f"@@{s} :: {spec['values'][case['d']][0]}\n" + text
    ckw = {s: spec['values'][case['c']][1]} if case['c'] != ABSENT else {}
    pkw = {s: spec['values'][case['p']][1]} if case['p'] != ABSENT else {}
    clear_caches()
    out = {'detail': []}
    try:
        if case['backend'] == 'model':
            model = tatsu.compile(text, **ckw)
            run = lambda t, kw: model.parse(t, **kw)          # noqa: E731
        elif case['backend'] == 'parse':
            if ckw:
                return {'skip': 'tatsu.parse has no separate compile step'}
            run = lambda t, kw: tatsu.parse(text, t, **kw)    # noqa: E731
        elif case['backend'] == 'modelsource':
            # the parser class of the generated MODEL source: settings given to its constructor are the layer below the directives
            from tatsu.api import to_parsermodel_sourcecode
            src = to_parsermodel_sourcecode(text, name='L')
            ns = {}
            exec(compile(src, '<modelsource>', 'exec'), ns)
            parser = ns['LParser'](**ckw)
            run = lambda t, kw: parser.parse(t, **kw)         # noqa: E731
        else:
            src = tatsu.to_python_sourcecode(text, name='L', **ckw)
            ns = {}
            exec(compile(src, '<gen>', 'exec'), ns)
            parser = ns['LParser']()
            run = lambda t, kw: parser.parse(t, **kw)         # noqa: E731
    except Exception as e:  # noqa: BLE001
        # a grammar that cannot be compiled under the requested layers (left recursion switched off): decoded as all-rejected
        out['detail'].append(f'compile: {type(e).__name__}')
        acc = [False for _ in spec['probes']]
        out['eff'] = out['again'] = spec['decode'](acc)
        out['compile_error'] = type(e).__name__
        return out
    acc = []
    for t in spec['probes']:
        a, d = _accepted(s, lambda tt: run(tt, pkw), t)
        acc.append(a)
        out['detail'].append(d)
    out['eff'] = spec['decode'](acc)
    acc2 = []
    for t in spec['probes']:
        a, d = _accepted(s, lambda tt: run(tt, {}), t)
        acc2.append(a)
    out['again'] = spec['decode'](acc2)
    return out
