"""Shared plumbing: tiers/seeds, evidence files, violation replay files, known findings, worker pools."""
from __future__ import annotations

import hashlib
import json
import multiprocessing as mp
import os
import shutil
import sys
import time

VERIF = os.path.dirname(os.path.dirname(os.path.abspath(__file__)))
# VERIF_OUT (dev only: dev/mutmatrix.py runs checks against scratch worktrees in parallel) redirects everything a run writes
_OUT = os.environ.get('VERIF_OUT') or VERIF
EVID = os.path.join(_OUT, 'evidence')
REPLAY = os.path.join(_OUT, 'replay')
SCRATCH = os.path.join(_OUT, '.scratch')
KF_FILE = os.path.join(VERIF, 'KNOWN_FINDINGS.json')
GUARD = 'TATSU_VERIF'


def seed() -> int:
    try:
        return int(os.environ.get('VERIF_SEED', '0'))
    except ValueError:
        return 0


def tier(default='quick') -> str:
    t = os.environ.get('VERIF_TIER') or default
    return t if t in ('quick', 'thorough') else default


def known_findings(prop: str) -> list:
    if not os.path.exists(KF_FILE):
        return []
    return [k for k in json.load(open(KF_FILE)) if k.get('property') == prop and k.get('status') == 'known']


class Check:
    """One run of one property check: collects counts, samples, violations; writes evidence; decides exit code."""

    def __init__(self, prop: str, tier_: str, level: str = 'model_checking'):
        self.prop, self.tier, self.level = prop, tier_, level
        self.t0 = time.time()
        self.seed = seed()
        self.cov = {'states': 0, 'transitions': 0, 'traces_validated_against_impl': 0, 'samples': [],
                    'evaluations': 0, 'distinct_nontrivial': 0, 'rule': '', 'exhaustive': False}
        self.assumptions: list = []
        self.violations: list = []
        self.kf_hits: dict = {}
        self.notes: dict = {}
        self._kf = {k['id']: k for k in known_findings(prop)}
        self._viol_keys: set = set()

    # ---- accounting
    def add_tlc(self, r, name=None):
        self.cov['states'] += r.distinct
        self.cov['transitions'] += r.generated
        self.notes.setdefault('tlc_runs', []).append(
            {'spec': name, 'distinct': r.distinct, 'generated': r.generated, 'wall_s': round(r.wall, 1),
             **({'coverage': r.coverage} if r.coverage else {})})

    def sample(self, s, cap=6):
        if len(self.cov['samples']) < cap:
            self.cov['samples'].append(s)

    def count(self, evaluations=0, nontrivial=0, traces=0):
        self.cov['evaluations'] += evaluations
        self.cov['distinct_nontrivial'] += nontrivial
        self.cov['traces_validated_against_impl'] += traces

    # ---- verdicts
    def known(self, kfid: str, what: str = ''):
        """Record that a mismatch is explained by listed known finding kfid. Returns False if kfid is not listed."""
        if kfid not in self._kf:
            return False
        self.kf_hits.setdefault(kfid, {'count': 0, 'example': what})['count'] += 1
        return True

    def violation(self, replay: dict, key: str | None = None, max_files=20):
        """Report an unexplained mismatch: writes a replay file and prints the VIOLATION line."""
        body = json.dumps(replay, sort_keys=True, default=str)
        h = hashlib.sha1((key or body).encode()).hexdigest()[:16]
        if h in self._viol_keys:
            return
        self._viol_keys.add(h)
        self.violations.append(h)
        if len(self.violations) > max_files:
            return
        d = os.path.join(REPLAY, self.prop)
        os.makedirs(d, exist_ok=True)
        path = os.path.join(d, h + '.json')
        replay = dict(replay)
        replay.setdefault('property', self.prop)
        replay.setdefault('seed', self.seed)
        replay.setdefault('tier', self.tier)
        replay.setdefault('cmd', f'/venv/bin/python -m harness.replay {path}')
        with open(path, 'w') as f:
            json.dump(replay, f, indent=1, sort_keys=True, default=str)
        print(f'VIOLATION property={self.prop} replay={path}', flush=True)

    def finish(self) -> int:
        wall = time.time() - self.t0
        for kfid, h in sorted(self.kf_hits.items()):
            k = self._kf[kfid]
            print(f"KNOWN-FINDING: property={self.prop} {kfid} {k.get('what', '')} [{h['count']} instance(s) this run]",
                  flush=True)
        cov = dict(self.cov)
        if not cov['samples']:
            cov['samples'] = ['(no sample recorded)']
        if cov['distinct_nontrivial'] < 2 and self.level in ('exploration', 'fault_enumeration'):
            pass
        if self.level != 'model_checking' and not cov.get('states'):
            for k in ('states', 'transitions'):
                cov.pop(k, None)
        cov.update({k: v for k, v in self.notes.items()})
        cov['known_findings_printed'] = sorted(self.kf_hits)
        ev = {'property_id': self.prop, 'tier': self.tier, 'seed': self.seed, 'level': self.level, 'coverage': cov,
              'assumptions': self.assumptions, 'wall_s': round(wall, 2), 'violations': len(self.violations)}
        os.makedirs(EVID, exist_ok=True)
        tmp = os.path.join(EVID, f'.{self.prop}.json.tmp')
        with open(tmp, 'w') as f:
            json.dump(ev, f, indent=1, default=str)
        os.replace(tmp, os.path.join(EVID, f'{self.prop}.json'))
        st = 'FAIL' if self.violations else 'ok'
        print(f'[{self.prop}] {self.tier}: {st}; states={cov.get("states", 0)} evaluations={cov["evaluations"]} '
              f'impl-traces={cov["traces_validated_against_impl"]} violations={len(self.violations)} '
              f'known={sorted(self.kf_hits)} wall={wall:.1f}s', flush=True)
        return 1 if self.violations else 0


# ---------------------------------------------------------------- worker pools (real code runs here)

def _init_worker():
    sys.setrecursionlimit(3000)
    os.environ.setdefault('PYTHONHASHSEED', '0')


def pmap(fn, items, procs=16, chunk=50, recycle=300):
    """Ordered parallel map in recycled worker processes (TatSu leaks process-wide state, see DESIGN 4.1)."""
    items = list(items)
    if not items:
        return []
    if procs <= 1 or len(items) < 8:
        return [fn(x) for x in items]
    ctx = mp.get_context('fork')
    tasks_per_child = max(1, recycle // max(1, chunk))
    with ctx.Pool(procs, initializer=_init_worker, maxtasksperchild=tasks_per_child) as pool:
        return pool.map(fn, items, chunksize=chunk)


def clean_scratch():
    shutil.rmtree(SCRATCH, ignore_errors=True)


def dump_json(path, obj):
    with open(path, 'w') as f:
        json.dump(obj, f)
