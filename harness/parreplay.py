"""Spec -> code for C18: drive the real tatsu.parproc.pmap.executor_pmap along a behaviour of spec/ParProc.tla.

The executor is a ProcessPoolExecutor subclass that never forks (so the windowed branch is taken; a plain Executor for the
thread branch) and `as_completed` (a module-level name in tatsu.parproc.pmap) is replaced by a generator that follows the
schedule of the behaviour: Complete(t) actions run the real task function for t, Observe(t) hands that future to the loop.
After every step the abstract state (submitted, snapshot, yielded results) is compared with the specification's state."""
from __future__ import annotations

import concurrent.futures as cf
import threading


class Mismatch(Exception):
    pass


class Payload:
    """A payload implementing the protocol of tatsu/parproc/payload.py."""

    def __init__(self, tid, raises_decl=()):
        self.tid, self._raises = tid, tuple(raises_decl)
        self.path, self.payload = f'p{tid}', tid

    def raises(self):
        return self._raises

    def __repr__(self):
        return f'Payload({self.tid})'


def make_func(raising, exc_for):
    def func(payload, *a, **kw):
        if payload.tid in raising:
            raise exc_for[payload.tid]('boom %d' % payload.tid)
        return payload.tid * 10
    return func


def build_tasks(nt, raising, variant=0):
    """Payloads 1..nt; those in `raising` raise an exception the loop is asked to capture:
    either no declaration at all (raises() == ()) or a declared superclass of the raised type."""
    from tatsu.parproc.task import Task
    from tatsu.util import identity
    stop = threading.Event()
    exc_for, payloads = {}, []
    for t in range(1, nt + 1):
        if (t + variant) % 2 == 0:
            payloads.append(Payload(t, (LookupError, ValueError)))
            exc_for[t] = KeyError if t % 3 else ValueError          # KeyError is a strict subclass of the declared LookupError
        else:
            payloads.append(Payload(t, ()))
            exc_for[t] = RuntimeError if False else ZeroDivisionError
    func = make_func(set(raising), exc_for)
    tasks = [Task(stop=stop, func=func, payload=p, pickable=identity, reraise=False, args=(), kwargs={}) for p in payloads]
    return stop, tasks, exc_for


def replay_path(case):
    """case: {nt, window, mode, raises:[...], path:[[action, state]...], variant} -> {'ok': bool, 'why': str, 'steps': n}"""
    import tatsu.parproc.pmap as pmap_mod
    nt, window, mode = case['nt'], case['window'], case['mode']
    raising = set(case['raises'])
    stop, tasks, exc_for = build_tasks(nt, raising, case.get('variant', 0))
    from tatsu.parproc.task import taskproc
    from .dotgraph import split_action
    path = [(split_action(a)[0], s, split_action(a)[1]) for a, s in case['path']]
    pos = {'i': 0}
    log = []
    submitted = []          # task ids in submission order
    futs = {}               # task id -> Future
    done = set()

    class DetMixin:
        def __init__(self, max_workers=None, **kw):
            self.max_workers = max_workers

        def submit(self, fn, task, *a, **kw):
            f = cf.Future()
            tid = task.payload.tid
            futs[tid] = (f, fn, task)
            submitted.append(tid)
            return f

        def shutdown(self, wait=True, cancel_futures=False):
            pass

        def __enter__(self):
            return self

        def __exit__(self, *a):
            return False

    real_ppe, real_tpe, real_asc = cf.ProcessPoolExecutor, cf.ThreadPoolExecutor, pmap_mod.as_completed

    class DetProcessPool(DetMixin, real_ppe):
        pass

    class DetThreadPool(DetMixin, real_tpe):
        pass

    def complete(tid):
        if tid not in futs:
            raise Mismatch(f'spec completes task {tid} but the implementation never submitted it (submitted={submitted})')
        f, fn, task = futs[tid]
        if tid in done:
            raise Mismatch(f'task {tid} completed twice')
        try:
            f.set_result(fn(task))
        except BaseException as e:  # noqa: BLE001
            f.set_exception(e)
        done.add(tid)

    def next_action():
        return path[pos['i']][:2] if pos['i'] < len(path) else (None, None)

    def next_args():
        return path[pos['i']][2]

    def spec_state_before():
        return path[pos['i'] - 1][1] if pos['i'] > 0 else case['init']

    def sched_as_completed(fs, timeout=None):
        snapshot = {f: t.payload.tid for f, t in dict(fs).items()}
        tids = set(snapshot.values())
        # the specification's snapshot is taken by the While action that precedes the first Observe of this round
        while True:
            a, st = next_action()
            if a == 'Complete':
                complete(next_args()[0])
                pos['i'] += 1
                continue
            if a in ('InitialSubmit', 'While', 'Refill', 'Yield', 'Resume'):
                if a == 'While' and set(st['snap']) != tids and st['pc'] == 'For':
                    raise Mismatch(f'as_completed snapshot {sorted(tids)} but specification snapshot {sorted(st["snap"])}')
                if a == 'InitialSubmit' and sorted(st['futures']) != sorted(submitted):
                    raise Mismatch(f'initial submission {submitted} but specification {sorted(st["futures"])}')
                pos['i'] += 1
                continue
            if a == 'Observe':
                t = st['cur']
                if t not in tids:
                    raise Mismatch(f'spec observes {t}, not in the implementation snapshot {sorted(tids)}')
                if t not in done:
                    raise Mismatch(f'spec observes {t} before it completed')
                pos['i'] += 1
                fut = next(f for f, tid in snapshot.items() if tid == t)
                tids.discard(t)
                yield fut
                continue
            if a == 'ForEnd':
                if tids:
                    raise Mismatch(f'spec ends the as_completed round but the implementation snapshot still holds {sorted(tids)}')
                pos['i'] += 1
                return
            raise Mismatch(f'implementation iterates as_completed but the behaviour has {a!r} next')

    cf.ProcessPoolExecutor, cf.ThreadPoolExecutor = DetProcessPool, DetThreadPool
    pmap_mod.as_completed = sched_as_completed
    yielded = []
    try:
        try:
            # the thread branch of executor_pmap is reached through thread_pmap only when the GIL is disabled: bind both explicitly
            saved = pmap_mod.HAS_MULTITHREADING_SUPPORT
            pmap_mod.HAS_MULTITHREADING_SUPPORT = (mode == 'all')
            try:
                pm = pmap_mod.active_pmap()
            finally:
                pmap_mod.HAS_MULTITHREADING_SUPPORT = saved
            gen = pm(stop, taskproc, tasks, window - 1 if mode == 'window' else 4)
            for res in gen:
                # the generator has just executed ... Observe, Refill and is suspended at Yield
                while True:
                    a, st = next_action()
                    if a == 'Complete':
                        complete(next_args()[0])
                        pos['i'] += 1
                        continue
                    if a in ('Refill', 'While', 'InitialSubmit', 'Resume'):
                        pos['i'] += 1
                        continue
                    break
                if a != 'Yield':
                    raise Mismatch(f'implementation yields a result but the behaviour has {a!r} next')
                pos['i'] += 1
                tid = res.payload.tid
                if tid != st['yielded'][-1]['t']:
                    raise Mismatch(f'yielded task {tid}, specification yields {st["yielded"][-1]["t"]}')
                exc = res.exception is not None
                if exc != st['yielded'][-1]['exc']:
                    raise Mismatch(f'task {tid}: exception captured = {exc}, specification {st["yielded"][-1]["exc"]}')
                if exc and type(res.exception) is not exc_for[tid]:
                    raise Mismatch(f'task {tid}: captured {type(res.exception).__name__}, raised {exc_for[tid].__name__}')
                if not exc and res.outcome != tid * 10:
                    raise Mismatch(f'task {tid}: outcome {res.outcome!r}')
                if len(submitted) != st['unsub'] - 1:
                    raise Mismatch(f'after yielding {tid}: {len(submitted)} tasks submitted ({submitted}), specification {st["unsub"] - 1}')
                yielded.append(tid)
                # the consumer holds the Result: the behaviour may cancel now (the stop event every Result carries)
                while next_action()[0] in ('Cancel', 'Complete'):
                    a, st = next_action()
                    if a == 'Complete':
                        complete(next_args()[0])
                    else:
                        if res.stop is not stop:
                            raise Mismatch('the Result does not carry the stop event of this call')
                        res.stop.set()
                    pos['i'] += 1
            # generator finished: the rest of the behaviour may only be environment steps and the final While
            while pos['i'] < len(path):
                a, st = next_action()
                if a in ('Complete', 'While', 'ForEnd', 'Resume'):
                    pos['i'] += 1
                    continue
                raise Mismatch(f'implementation finished after yielding {yielded} but the behaviour continues with {a!r}')
            final = path[-1][1] if path else case['init']
            if [y['t'] for y in final['yielded']] != yielded:
                raise Mismatch(f'yielded {yielded}, specification {[y["t"] for y in final["yielded"]]}')
            if not final.get('stop') and sorted(yielded) != list(range(1, nt + 1)):
                raise Mismatch(f'not exactly one result per payload: {yielded}')
            if len(set(yielded)) != len(yielded):
                raise Mismatch(f'a payload yielded twice: {yielded}')
        except Mismatch as e:
            return {'ok': False, 'why': str(e), 'steps': pos['i'], 'yielded': yielded}
        except Exception as e:  # noqa: BLE001
            import traceback
            return {'ok': False, 'why': f'implementation raised {type(e).__name__}: {e}', 'steps': pos['i'], 'yielded': yielded,
                    'traceback': traceback.format_exc()[-1500:]}
        return {'ok': True, 'steps': pos['i'], 'yielded': yielded}
    finally:
        cf.ProcessPoolExecutor, cf.ThreadPoolExecutor = real_ppe, real_tpe
        pmap_mod.as_completed = real_asc
