"""Running the real TatSu code on one case (inside worker processes).  Every function here takes and returns plain
JSON-able data, so it can be shipped through multiprocessing and written to replay files unchanged."""
from __future__ import annotations

import os
import signal
import sys

from .absgrammar import norm

WRAP = 'w__'


class _Timeout(Exception):
    pass


def _alarm(signum, frame):
    raise _Timeout()


def with_wrapper(ebnf: str, start: str) -> str:
    """Add a rule that reports how much input `start` consumed: the rest of the text is captured by a pattern,
    which never skips whitespace."""
    return ebnf + f"{wrap_name(start)} = v:{start} r:/(?s).*/ ;\n"


def wrap_name(start: str) -> str:
    # a token (upper-case) start rule must not have whitespace skipped on its behalf by the wrapper
    return 'W__' if start.lstrip('_')[:1].isupper() else WRAP


def clear_caches():
    try:
        import tatsu.api.api as api
        for k, v in list(vars(api).items()):
            if k.endswith('__compiled_grammar_cache') and isinstance(v, dict):
                v.clear()
    except Exception:
        pass


def outcome(fn, text=None):
    """Run fn() and classify: ok / fail (a TatSu parse failure) / err (other TatSu exception) / exc (foreign exception)."""
    from tatsu.exceptions import FailedParse, ParseException
    try:
        v = fn()
        return {'k': 'ok', 'v': norm(v)}
    except FailedParse as e:
        if 'recursion limit exceeded' in str(getattr(e, 'msg', '')):
            # the engine reports a parse that ran out of stack as a parse failure (C08); for every other property it stays what it is:
            # unbounded (or too deep) recursion, never an ordinary rejection
            return {'k': 'exc', 'cls': 'RecursionError'}
        return {'k': 'fail', 'cls': type(e).__name__, 'pos': getattr(e, 'pos', None)}
    except ParseException as e:
        return {'k': 'err', 'cls': type(e).__name__, 'msg': str(e)[:200]}
    except RecursionError:
        return {'k': 'exc', 'cls': 'RecursionError'}
    except _Timeout:
        return {'k': 'exc', 'cls': 'Timeout'}
    except Exception as e:  # noqa: BLE001
        return {'k': 'exc', 'cls': type(e).__name__, 'msg': str(e)[:200]}


def make_semantics(kind, actrule='*'):
    """The action family of C06 (mirrors PegSem!Act)."""
    if kind in (None, 'none'):
        return None
    from tatsu.exceptions import FailedSemantics
    log = []

    class Tag:
        def __init__(self, r, v):
            self.__tag__, self.v = r, v

        def __repr__(self):
            return f'Tag({self.__tag__},{self.v!r})'

    class Custom(Exception):
        pass

    def hit(name, ast):
        return (actrule in ('*', name)) and (ast == 'b' or (isinstance(ast, dict) and 'b' in list(ast.values())))

    class Sem:
        calls = log

        def _default(self, ast, *a, **kw):
            name = kw.pop('__rule__', None)
            return ast

    def mk(name):
        def action(self, ast, *a, **kw):
            log.append((name, norm(ast)))
            if kind == 'id':
                return ast
            if kind == 'tag':
                return Tag(name, ast) if actrule in ('*', name) else ast
            if kind == 'failb':
                if hit(name, ast):
                    raise FailedSemantics('b')
                return ast
            if kind.startswith('raise'):
                if hit(name, ast):
                    exc = {'raise': Custom, 'raiseKeyError': KeyError, 'raiseValueError': ValueError,
                           'raiseTypeError': TypeError, 'raiseAttributeError': AttributeError,
                           'raiseIndexError': IndexError, 'raiseStopIteration': StopIteration,
                           'raiseAssertionError': AssertionError, 'raiseRuntimeError': RuntimeError,
                           'raiseLookupError': LookupError, 'raiseParseError': __import__('tatsu.exceptions', fromlist=['x']).ParseError,
                           'raiseGrammarError': __import__('tatsu.exceptions', fromlist=['x']).GrammarError}[kind]
                    raise exc('boom: bad arguments')
                return ast
            return ast
        return action
    for nm in ('s', 'y', 'Z', 'e', 't', 'a', 'x', 'f', 'n', 'id', 'start', WRAP):
        setattr(Sem, nm, mk(nm))
    return Sem()


def run_model_case(case):
    """case: {ebnf, texts:[str], start, settings:{}, sem:kind|None, actrule, wrap:bool, timeout}
    -> {'compile': outcome, 'res': [ {plain: outcome, wrapped: outcome|None} per text ]}"""
    sys.setrecursionlimit(case.get('reclimit', 3000))
    import tatsu
    signal.signal(signal.SIGALRM, _alarm)
    settings = dict(case.get('settings') or {})
    start = case.get('start', 's')
    ebnf = with_wrapper(case['ebnf'], start) if case.get('wrap', True) else case['ebnf']
    out = {'res': []}
    clear_caches()
    signal.alarm(case.get('timeout', 20))
    try:
        try:
            model = tatsu.compile(ebnf, **(case.get('compile_settings') or {}))
            out['compile'] = {'k': 'ok'}
        except _Timeout:
            out['compile'] = {'k': 'exc', 'cls': 'Timeout'}
            return out
        except Exception as e:  # noqa: BLE001
            out['compile'] = {'k': 'exc', 'cls': type(e).__name__, 'msg': str(e)[:300]}
            return out
        finally:
            signal.alarm(0)
        for text in case['texts']:
            r = {}
            signal.alarm(case.get('timeout', 20) if out.get('timeouts', 0) < 2 else 1)
            try:
                sem = make_semantics(case.get('sem'), case.get('actrule', '*'))
                kw = dict(settings)
                if sem is not None:
                    kw['semantics'] = sem
                r['plain'] = outcome(lambda: model.parse(text, start=start, **kw))
                if case.get('wrap', True):
                    sem2 = make_semantics(case.get('sem'), case.get('actrule', '*'))
                    if sem2 is not None:
                        kw['semantics'] = sem2
                    w = outcome(lambda: model.parse(text, start=wrap_name(start), **kw))
                    if w['k'] == 'ok' and isinstance(w['v'], dict) and 'r' in w['v']:
                        rest = w['v']['r']
                        w = {'k': 'ok', 'v': w['v'].get('v'),
                             'pos': (len(text) - len(rest)) if isinstance(rest, str) else f'rest={rest!r}'}
                    r['wrapped'] = w
            except _Timeout:
                r.setdefault('plain', {'k': 'exc', 'cls': 'Timeout'})
                out['timeouts'] = out.get('timeouts', 0) + 1
            finally:
                signal.alarm(0)
            out['res'].append(r)
    finally:
        signal.alarm(0)
    return out


def load_generated(ebnf, name='Gen'):
    """to_python_sourcecode -> compile() (valid-Python claim) -> exec -> parser class."""
    import tatsu
    src = tatsu.to_python_sourcecode(ebnf, name=name)
    code = compile(src, f'<generated {name}>', 'exec')
    ns = {'__name__': f'generated_{name}'}
    exec(code, ns)
    cls = ns.get(f'{name}Parser')
    if cls is None:
        cand = [v for k, v in ns.items() if k.endswith('Parser') and isinstance(v, type) and v.__module__ == ns['__name__']]
        cls = cand[-1]
    return cls, src


def run_generated_case(case):
    """Same contract as run_model_case, for the generated Python parser of the same grammar text."""
    sys.setrecursionlimit(case.get('reclimit', 3000))
    signal.signal(signal.SIGALRM, _alarm)
    settings = dict(case.get('settings') or {})
    start = case.get('start', 's')
    ebnf = with_wrapper(case['ebnf'], start) if case.get('wrap', True) else case['ebnf']
    out = {'res': []}
    clear_caches()
    signal.alarm(case.get('timeout', 20))
    try:
        try:
            cls, src = load_generated(ebnf)
            out['compile'] = {'k': 'ok'}
        except _Timeout:
            out['compile'] = {'k': 'exc', 'cls': 'Timeout'}
            return out
        except SyntaxError as e:
            out['compile'] = {'k': 'exc', 'cls': 'SyntaxError', 'msg': f'generated source is not valid Python: {e}'}
            return out
        except Exception as e:  # noqa: BLE001
            out['compile'] = {'k': 'exc', 'cls': type(e).__name__, 'msg': str(e)[:300]}
            return out
        finally:
            signal.alarm(0)
        for text in case['texts']:
            r = {}
            signal.alarm(case.get('timeout', 20))
            try:
                kw = dict(settings)
                sem = make_semantics(case.get('sem'), case.get('actrule', '*'))
                if sem is not None:
                    kw['semantics'] = sem
                r['plain'] = outcome(lambda: cls().parse(text, start=start, **kw))
                if case.get('wrap', True):
                    sem2 = make_semantics(case.get('sem'), case.get('actrule', '*'))
                    if sem2 is not None:
                        kw['semantics'] = sem2
                    w = outcome(lambda: cls().parse(text, start=wrap_name(start), **kw))
                    if w['k'] == 'ok' and isinstance(w['v'], dict) and 'r' in w['v']:
                        rest = w['v']['r']
                        w = {'k': 'ok', 'v': w['v'].get('v'),
                             'pos': (len(text) - len(rest)) if isinstance(rest, str) else f'rest={rest!r}'}
                    r['wrapped'] = w
            except _Timeout:
                r.setdefault('plain', {'k': 'exc', 'cls': 'Timeout'})
            finally:
                signal.alarm(0)
            out['res'].append(r)
        # one long-lived parser object must behave like fresh ones, whatever was parsed (or failed) on it before
        if case.get('reuse', True):
            shared = cls()
            variants = [dict(settings), {}, {'nameguard': False}, {'ignorecase': True}, dict(settings)]
            bad = []
            signal.alarm(case.get('timeout', 20) * 3)
            try:
                for text in case['texts'][:14]:
                    for kw in variants:
                        a = outcome(lambda: shared.parse(text, start=start, **kw))
                        b = outcome(lambda: cls().parse(text, start=start, **kw))
                        if (a['k'], a.get('v')) != (b['k'], b.get('v')) and len(bad) < 3:
                            bad.append({'text': text, 'settings': kw, 'reused_object': a, 'fresh_object': b})
            except _Timeout:
                bad.append({'timeout': True})
            finally:
                signal.alarm(0)
            out['reuse_mismatch'] = bad
    finally:
        signal.alarm(0)
    return out


def run_both_case(case):
    m = run_model_case(case)
    g = run_generated_case(case)
    return {'compile': m['compile'], 'res': m['res'], 'gen': g}


class _Quiet:
    """Discard everything written to fd 1/2 and the logging handlers while tracing."""

    def __enter__(self):
        import logging
        sys.stdout.flush(); sys.stderr.flush()
        self.null = os.open(os.devnull, os.O_WRONLY)
        self.o1, self.o2 = os.dup(1), os.dup(2)
        os.dup2(self.null, 1); os.dup2(self.null, 2)
        self.lvl = logging.root.manager.disable
        logging.disable(logging.CRITICAL)
        return self

    def __exit__(self, *a):
        import logging
        sys.stdout.flush(); sys.stderr.flush()
        os.dup2(self.o1, 1); os.dup2(self.o2, 2)
        os.close(self.o1); os.close(self.o2); os.close(self.null)
        logging.disable(self.lvl)


C04_MATRIX = [
    ('default', {}),
    ('memo-off', {'memoization': False}),
    ('plm-0.01', {'perlinememos': 0.01}),
    ('plm-0.5', {'perlinememos': 0.5}),
    ('plm-1', {'perlinememos': 1}),
    ('noprune', {'prune_memos_on_cut': False}),
    ('plm-1-noprune', {'perlinememos': 1, 'prune_memos_on_cut': False}),
    ('trace', {'trace': True, 'colorize': False}),
    ('trace-color', {'trace': True, 'colorize': True}),
    ('nocolor', {'colorize': False}),
    ('parseinfo', {'parseinfo': True}),
    ('parseinfo-plm-0.01', {'parseinfo': True, 'perlinememos': 0.01}),
    ('parseinfo-memo-off', {'parseinfo': True, 'memoization': False}),
]


def pinfo(x):
    """The parseinfo entries of a result, in place: (rule, pos, endpos) of every dict-like AST, nested as the AST is."""
    if isinstance(x, dict):
        pi = x.get('parseinfo') if not isinstance(x.get('parseinfo'), (str, list, dict)) else None
        me = [pi.rule if isinstance(pi.rule, str) else type(pi.rule).__name__, pi.pos, pi.endpos] if pi is not None else None
        return {'__pi__': me, **{k: pinfo(v) for k, v in x.items() if k not in ('parseinfo', '__parseinfo__')}}
    if isinstance(x, (list, tuple)):
        return [pinfo(v) for v in x]
    return None


def run_matrix_case(case):
    """Parse every text under every configuration of C04_MATRIX (memo-off skipped when case['lr']).
    -> {'compile':..., 'res': [ {config name: outcome} per text ]}"""
    sys.setrecursionlimit(case.get('reclimit', 3000))
    import tatsu
    signal.signal(signal.SIGALRM, _alarm)
    base = dict(case.get('settings') or {})
    start = case.get('start', 's')
    out = {'res': []}
    clear_caches()
    signal.alarm(case.get('timeout', 20))
    try:
        model = tatsu.compile(case['ebnf'])
        out['compile'] = {'k': 'ok'}
    except Exception as e:  # noqa: BLE001
        out['compile'] = {'k': 'exc', 'cls': type(e).__name__, 'msg': str(e)[:300]}
        return out
    finally:
        signal.alarm(0)
    for text in case['texts']:
        r = {}
        for name, kw in C04_MATRIX:
            if name.endswith('memo-off') and case.get('lr'):
                continue
            signal.alarm(case.get('timeout', 20))
            try:
                allkw = dict(base); allkw.update(kw)
                sem = make_semantics(case.get('sem'), case.get('actrule', '*'))
                if sem is not None:
                    allkw['semantics'] = sem
                raw = {}

                def go():
                    raw['v'] = model.parse(text, start=start, **allkw)
                    return raw['v']
                if kw.get('trace'):
                    with _Quiet():
                        r[name] = outcome(go)
                else:
                    r[name] = outcome(go)
                if kw.get('parseinfo') and r[name]['k'] == 'ok':
                    r[name]['pi'] = pinfo(raw['v'])
            except _Timeout:
                r[name] = {'k': 'exc', 'cls': 'Timeout'}
            finally:
                signal.alarm(0)
        out['res'].append(r)
    return out


SEM_KINDS = ['none', 'id', 'tag', 'tagdefault', 'failb', 'raise', 'raiseKeyError', 'raiseValueError', 'raiseTypeError',
             'raiseAttributeError', 'raiseIndexError', 'raiseStopIteration', 'raiseAssertionError', 'raiseRuntimeError',
             'raiseLookupError', 'raiseParseError', 'raiseGrammarError']


def make_semantics2(kind, rules, params=None, shape=None):
    """Semantics object for C06: one method per rule (or only _default for 'tagdefault'), recording every call.
    shape: how the OBJECT looks to Python, which must not matter - 'falsy' (defines __len__ -> 0), 'unhashable' (defines __eq__
    only), 'equal' (compares equal to, and hashes like, every other object of this shape)."""
    if kind == 'none':
        return None, []
    from tatsu.exceptions import FailedSemantics
    log = []
    params = params or {}

    class Tag:
        def __init__(self, r, v):
            self.__tag__, self.v = r, v

        def __repr__(self):
            return f'Tag({self.__tag__},{self.v!r})'

    class Custom(Exception):
        pass

    excs = {'raise': Custom, 'raiseKeyError': KeyError, 'raiseValueError': ValueError, 'raiseTypeError': TypeError,
            'raiseAttributeError': AttributeError, 'raiseIndexError': IndexError, 'raiseStopIteration': StopIteration,
            'raiseAssertionError': AssertionError, 'raiseRuntimeError': RuntimeError, 'raiseLookupError': LookupError,
            # TatSu's own exception types that are NOT parse failures: raised by an action they are "any other exception" too
            'raiseParseError': __import__('tatsu.exceptions', fromlist=['x']).ParseError,
            'raiseGrammarError': __import__('tatsu.exceptions', fromlist=['x']).GrammarError}

    def hit(ast):
        return ast == 'b' or (isinstance(ast, dict) and 'b' in list(ast.values()))

    def act(name, ast, a, kw):
        log.append((name, norm(ast), [str(x) for x in a]))
        want = params.get(name)
        if want is not None and [str(x) for x in a] != [str(x) for x in want]:
            raise AssertionError(f'rule {name}: declared params {want} but action received {a}')
        if kind == 'id':
            return ast
        if kind == 'tolist':
            return list(ast) if isinstance(ast, (list, tuple)) else ast
        if kind in ('tag', 'tagdefault'):
            return Tag(name, ast)
        if kind == 'failb':
            if hit(ast):
                raise FailedSemantics('b')
            return ast
        if kind == 'failfirst':
            # stateful: rejects the first evaluation of each rule, accepts afterwards (only a rule that is really re-evaluated,
            # as @nomemo promises, can get past it)
            if name not in first:
                first.add(name)
                raise FailedSemantics('first')
            return ast
        if hit(ast):
            raise excs[kind]('boom: bad arguments')
        return ast

    first = set()

    class Sem:
        pass

    if shape == 'falsy':
        Sem.__len__ = lambda self: 0
    elif shape == 'unhashable':
        Sem.__eq__ = lambda self, other: self is other          # defining __eq__ alone sets __hash__ to None
    elif shape == 'equal':
        Sem.__eq__ = lambda self, other: getattr(type(other), '_verif_equal', False)
        Sem.__hash__ = lambda self: 7
        Sem._verif_equal = True

    if kind == 'iddefault':
        # identity actions whose signature has a parameter with a default after the AST: the rule's declared parameters fill it, and
        # when the rule declares none it keeps its default
        for nm in rules:
            def mk2(nm):
                def action(self, ast, extra='dflt', *a, **kw):
                    want = [str(x) for x in (params.get(nm) or [])]
                    got = ([] if extra == 'dflt' else [str(extra)]) + [str(x) for x in a]
                    log.append((nm, norm(ast), got))
                    if got != want:
                        raise AssertionError(f'rule {nm}: declared params {want} but action(ast, extra={extra!r}, *{a!r})')
                    return ast
                return action
            setattr(Sem, nm, mk2(nm))
        return Sem(), log
    if kind == 'tagdefault':
        def _default(self, ast, *a, **kw):
            # _default is not told the rule name; tag with '?' and let the driver compare modulo the tag's name
            return act('?', ast, (), kw)
        Sem._default = _default
    else:
        for nm in rules:
            def mk(nm):
                def action(self, ast, *a, **kw):
                    return act(nm, ast, a, kw)
                action.__name__ = action.__qualname__ = nm          # as a method written `def <rule>(self, ast, ...)` is
                return action
            setattr(Sem, nm, mk(nm))
    return Sem(), log


def run_sem_case(case):
    """C06: {ebnf, texts, rules:[names], params:{rule:[..]}, kinds:[...], backend:'model'|'generated', settings}
    -> {'compile':..., 'res': [ {kind: outcome + {'calls': {rule: n}}} per text ]}"""
    sys.setrecursionlimit(case.get('reclimit', 3000))
    import tatsu
    signal.signal(signal.SIGALRM, _alarm)
    settings = dict(case.get('settings') or {})
    out = {'res': []}
    clear_caches()
    signal.alarm(case.get('timeout', 30))
    try:
        if case.get('backend') == 'generated':
            cls, _src = load_generated(case['ebnf'])
            parse = lambda text, **kw: cls().parse(text, **kw)   # noqa: E731
        else:
            model = tatsu.compile(case['ebnf'])
            parse = lambda text, **kw: model.parse(text, **kw)   # noqa: E731
        out['compile'] = {'k': 'ok'}
    except Exception as e:  # noqa: BLE001
        out['compile'] = {'k': 'exc', 'cls': type(e).__name__, 'msg': str(e)[:300]}
        return out
    finally:
        signal.alarm(0)
    for text in case['texts']:
        r = {}
        for kind in case['kinds']:
            extra = {}
            k2 = kind
            if kind.endswith('/memo-off'):
                k2 = kind.split('/')[0]
                extra = {'memoization': False}
            shape, route = None, None
            if '/' in kind and not kind.endswith('/memo-off'):
                k2, shape, *rest = kind.split('/')
                route = rest[0] if rest else None
            sem, log = make_semantics2(k2, case['rules'], case.get('params'), shape=shape)
            kw = dict(settings); kw.update(extra)
            if sem is not None:
                kw['semantics'] = sem
            if shape == 'equal':
                # an EQUAL object with other actions was used before (same parser route)
                other, _ = make_semantics2('id', case['rules'], case.get('params'), shape='equal')
                try:
                    parse(text, start=case.get('start', 's'), **dict(kw, semantics=other))
                except Exception:  # noqa: BLE001
                    pass
            signal.alarm(case.get('timeout', 30))
            try:
                if shape == 'compiled-twice' and case.get('backend') != 'generated':
                    # the semantics object given to compile(); a second compile of the same text with ANOTHER object OF THE SAME CLASS
                    # must not take the first model over: the first model keeps running the actions of its own object
                    class Two:
                        def __init__(self, tag):
                            self.tag = tag

                        def _default(self, ast, *a, **k):
                            return {'by': self.tag, 'v': ast}
                    kw2 = {k: v for k, v in kw.items() if k != 'semantics'}
                    m1 = tatsu.compile(case['ebnf'], semantics=Two('first'))
                    tatsu.compile(case['ebnf'], semantics=Two('second'))
                    o = outcome(lambda: m1.parse(text, start=case.get('start', 's'), **kw2))
                    clear_caches()
                    o['ref'] = outcome(lambda: tatsu.compile(case['ebnf'], semantics=Two('first')).parse(text, start=case.get('start', 's'), **kw2))
                elif shape == 'assigned-late' and case.get('backend') != 'generated':
                    # the semantics object is supplied by assignment to the model AFTER the model has parsed once without any; then it is
                    # replaced by another object: each parse must run the actions of the object the model holds at that moment
                    class Late:
                        def __init__(self, tag):
                            self.tag = tag

                        def _default(self, ast, *a, **k):
                            return {'by': self.tag, 'v': ast}
                    kw2 = {k: v for k, v in kw.items() if k != 'semantics'}
                    clear_caches()
                    m1 = tatsu.compile(case['ebnf'])
                    outcome(lambda: m1.parse(text, start=case.get('start', 's'), **kw2))
                    m1.semantics = Late('first')
                    o1 = outcome(lambda: m1.parse(text, start=case.get('start', 's'), **kw2))
                    m1.semantics = Late('second')
                    o2 = outcome(lambda: m1.parse(text, start=case.get('start', 's'), **kw2))
                    clear_caches()
                    r1 = outcome(lambda: tatsu.compile(case['ebnf'], semantics=Late('first')).parse(text, start=case.get('start', 's'), **kw2))
                    clear_caches()
                    r2 = outcome(lambda: tatsu.compile(case['ebnf'], semantics=Late('second')).parse(text, start=case.get('start', 's'), **kw2))
                    clear_caches()
                    o = {'k': 'pair', 'v': [o1, o2], 'ref': {'k': 'pair', 'v': [r1, r2]}}
                elif route == 'api':
                    o = outcome(lambda: tatsu.parse(case['ebnf'], text, start=case.get('start', 's'), **kw))
                else:
                    o = outcome(lambda: parse(text, start=case.get('start', 's'), **kw))
            except _Timeout:
                o = {'k': 'exc', 'cls': 'Timeout'}
            finally:
                signal.alarm(0)
            calls = {}
            for nm, _a, _p in log:
                calls[nm] = calls.get(nm, 0) + 1
            o['calls'] = calls
            r[kind] = o
        out['res'].append(r)
    # C06 on a long-lived generated parser object: the semantics object of each call is the one that is used
    if case.get('backend') == 'generated' and case.get('reuse_kinds'):
        shared = cls()
        bad = []
        for text in case['texts'][:10]:
            for kind in case['reuse_kinds']:
                sem, _ = make_semantics2(kind, case['rules'], case.get('params'))
                sem2, _ = make_semantics2(kind, case['rules'], case.get('params'))
                kw = dict(settings)
                a = outcome(lambda: shared.parse(text, start=case.get('start', 's'), **({'semantics': sem} if sem is not None else {}), **kw))
                b = outcome(lambda: cls().parse(text, start=case.get('start', 's'), **({'semantics': sem2} if sem2 is not None else {}), **kw))
                if (a['k'], a.get('v'), a.get('cls')) != (b['k'], b.get('v'), b.get('cls')) and len(bad) < 3:
                    bad.append({'text': text, 'semantics': kind, 'reused_object': a, 'fresh_object': b})
        out['reuse_mismatch'] = bad
    return out


def run_error_case(case):
    """C08: {ebnf, texts, settings?} -> per text and per input implementation / parseinfo setting: outcome; for failures the position,
    the line/column/source line reported by the exception, and whether the message renders."""
    sys.setrecursionlimit(case.get('reclimit', 3000))
    import tatsu
    from tatsu.exceptions import FailedParse, ParseException
    from tatsu.input.buffer import Buffer
    signal.signal(signal.SIGALRM, _alarm)
    clear_caches()
    out = {'res': []}
    signal.alarm(case.get('timeout', 20))
    try:
        model = tatsu.compile(case['ebnf'])
        out['compile'] = {'k': 'ok'}
    except _Timeout:
        out['compile'] = {'k': 'exc', 'cls': 'Timeout'}
        return out
    except ParseException as e:
        out['compile'] = {'k': 'err', 'cls': type(e).__name__}
        return out
    except Exception as e:  # noqa: BLE001
        out['compile'] = {'k': 'exc', 'cls': type(e).__name__, 'msg': str(e)[:200]}
        return out
    finally:
        signal.alarm(0)
    for text in case['texts']:
        r = {}
        for how in ('textlines', 'textlines+pi', 'buffer', 'buffer+pi'):
            kw = dict(case.get('settings') or {})
            if how.endswith('+pi'):
                kw['parseinfo'] = True
            inp = Buffer(text) if how.startswith('buffer') else text
            # a grammar that hangs is reported by its first time-outs; the remaining parses of the case get a short fuse
            signal.alarm(case.get('timeout', 20) if out.get('timeouts', 0) < 2 else 1)
            try:
                v = model.parse(inp, **kw)
                o = {'k': 'ok', 'v': norm(v)}
            except FailedParse as e:
                o = {'k': 'fail', 'cls': type(e).__name__}
                try:
                    info = e.info
                    o.update(pos=e.pos, line=info.line, col=info.col, text=info.text, start=info.start)
                except Exception as e2:  # noqa: BLE001
                    o['info_error'] = f'{type(e2).__name__}: {e2}'[:120]
                try:
                    msg = str(e)
                    o['rendered'] = isinstance(msg, str) and len(msg) > 0
                except Exception as e2:  # noqa: BLE001
                    o['render_error'] = f'{type(e2).__name__}: {e2}'[:120]
            except ParseException as e:
                o = {'k': 'err', 'cls': type(e).__name__}
            except RecursionError:
                o = {'k': 'exc', 'cls': 'RecursionError'}
            except _Timeout:
                o = {'k': 'exc', 'cls': 'Timeout'}
                out['timeouts'] = out.get('timeouts', 0) + 1
            except Exception as e:  # noqa: BLE001
                o = {'k': 'exc', 'cls': type(e).__name__, 'msg': str(e)[:160]}
            finally:
                signal.alarm(0)
            r[how] = o
        out['res'].append(r)
    return out


NODEINFO_CONFIGS = [('default', {}), ('memo-off', {'memoization': False}), ('plm-0.01', {'perlinememos': 0.01}), ('plm-1', {'perlinememos': 1}),
                    ('noprune', {'prune_memos_on_cut': False}), ('plm-2-noprune', {'perlinememos': 2, 'prune_memos_on_cut': False})]


def nodeinfo(x, depth=0):
    """A parse result with object-model nodes, projected with the parse information of every node and dict-like AST."""
    from tatsu.objectmodel import Node
    if depth > 40:
        return '...'
    if isinstance(x, Node):
        pi = x.parseinfo
        me = [pi.rule if isinstance(pi.rule, str) else type(pi.rule).__name__, pi.pos, pi.endpos] if pi is not None else None
        attrs = {k: nodeinfo(v, depth + 1) for k, v in vars(x).items() if not k.startswith('_') and k not in ('parseinfo', 'ctx', 'comments')}
        return {'__node__': type(x).__name__, '__pi__': me, **attrs}
    if isinstance(x, dict):
        pi = x.get('parseinfo') if not isinstance(x.get('parseinfo'), (str, list, dict)) else None
        me = [pi.rule if isinstance(pi.rule, str) else type(pi.rule).__name__, pi.pos, pi.endpos] if pi is not None else None
        return {'__pi__': me, **{k: nodeinfo(v, depth + 1) for k, v in x.items() if k not in ('parseinfo', '__parseinfo__')}}
    if isinstance(x, (list, tuple)):
        return [nodeinfo(v, depth + 1) for v in x]
    return x if isinstance(x, (str, int, float, bool, type(None))) else repr(x)[:40]


def run_nodeinfo_case(case):
    """Object-model parses with parse information under the memo configurations: -> {'compile':..., 'res': [{config: outcome} per text]}"""
    sys.setrecursionlimit(3000)
    import tatsu
    signal.signal(signal.SIGALRM, _alarm)
    out = {'res': []}
    clear_caches()
    signal.alarm(20)
    try:
        model = tatsu.compile(case['ebnf'], asmodel=True)
        out['compile'] = {'k': 'ok'}
    except Exception as e:  # noqa: BLE001
        out['compile'] = {'k': 'exc', 'cls': type(e).__name__, 'msg': str(e)[:300]}
        return out
    finally:
        signal.alarm(0)
    from tatsu.exceptions import FailedParse
    for text in case['texts']:
        r = {}
        for name, st in NODEINFO_CONFIGS:
            signal.alarm(10)
            try:
                with _Quiet():
                    v = model.parse(text, start='start', parseinfo=True, **st)
                r[name] = {'k': 'ok', 'v': nodeinfo(v)}
            except FailedParse as e:
                r[name] = {'k': 'fail', 'cls': type(e).__name__}
            except Exception as e:  # noqa: BLE001
                r[name] = {'k': 'exc', 'cls': type(e).__name__, 'msg': str(e)[:200]}
            finally:
                signal.alarm(0)
        out['res'].append(r)
    return out
