"""Code -> spec for arbitrary real grammars: project the rules a parse context really runs (the *optimized* peg model) onto the
abstract grammar of spec/PegGrammar.tla, and build the oracle tables the trace specification needs for what it does not model:

  * regular expressions: `opat` leaves carry an index into Cfg.pm, a table position -> [n (matched length or -1), v (value)] computed
    here with Python's `re` (the trusted oracle for regexes) following the documented rule "the value of a pattern is the match, or
    its group(s)";
  * whitespace and comments: Cfg.skip[p+1] = the position after skipping from p, computed here as the documented fixpoint
    (whitespace, end-of-line comments, comments until nothing more is eaten) from the effective patterns of the parse.

Anything the machine does not model raises Unsupported(feature); such traces are skipped and counted, never reported."""
from __future__ import annotations

import re

from .absgrammar import val

MAXLEN = int(__import__("os").environ.get("VERIF_TRACE_MAXLEN", "1500"))


class Unsupported(Exception):
    pass


META = {'NameMeta': 'name', 'IntMeta': 'int', 'UIntMeta': 'uint', 'FloatMeta': 'float', 'BoolMeta': 'bool'}
UNARY = {'Group': 'group', 'SkipGroup': 'skipgroup', 'Optional': 'opt', 'Closure': 'star', 'PositiveClosure': 'plus',
         'Lookahead': 'and', 'NegativeLookahead': 'not', 'Override': 'ovr', 'OverrideList': 'ovrlist', 'SkipTo': 'skipto'}
JOINS = {'Join': (False, True), 'PositiveJoin': (True, True), 'Gather': (False, False), 'PositiveGather': (True, False)}


class Projector:
    def __init__(self):
        self.pats: list[str] = []

    def pid(self, pattern: str) -> int:
        if pattern not in self.pats:
            self.pats.append(pattern)
        return self.pats.index(pattern) + 1

    def exp(self, m, depth=0):
        if depth > 60:
            raise Unsupported('nesting')
        T = type(m).__name__
        if T == 'Token':
            if not m.token:
                raise Unsupported('empty token')
            return {'op': 'tok', 's': list(m.token)}
        if T == 'Pattern':
            p = m.pattern or r'\\'
            return {'op': 'opat', 'id': self.pid(p), 'nul': bool(re.compile(p).match(''))}
        if T == 'Dot':
            return {'op': 'dot'}
        if T in META:
            return {'op': 'meta', 'kind': META[T]}
        if T == 'Void':
            return {'op': 'void'}
        if T == 'Fail':
            return {'op': 'fail'}
        if T == 'EOF':
            return {'op': 'eof'}
        if T == 'EOL':
            return {'op': 'eol'}
        if T == 'Cut':
            return {'op': 'cut'}
        if T == 'EmptyClosure':
            return {'op': 'emptyclosure'}
        if T == 'Alert':
            return {'op': 'oalert'}            # the message is evaluated like a constant (value from the "const" event), nothing is appended
        if T == 'Constant':
            if isinstance(m.literal, str):
                return {'op': 'oconst'}        # evaluated value comes from the recorded "const" event
            return {'op': 'const', 'v': val(m.literal)}
        if T == 'Sequence':
            return {'op': 'seq', 'es': [self.exp(x, depth + 1) for x in m.sequence]}
        if T == 'Choice':
            return {'op': 'alt', 'es': [self.exp(o, depth + 1) for o in m.options]}
        if T == 'Option':
            return self.exp(m.exp, depth + 1)
        if T in UNARY:
            return {'op': UNARY[T], 'e': self.exp(m.exp, depth + 1)}
        if T in JOINS:
            plus, keep = JOINS[T]
            return {'op': 'join', 'e': self.exp(m.exp, depth + 1), 'sep': self.exp(m.sep, depth + 1), 'plus': plus, 'keep': keep}
        if T == 'Call':
            return {'op': 'call', 'name': m.name}
        if T == 'Named':
            return {'op': 'named', 'name': m.name, 'e': self.exp(m.exp, depth + 1)}
        if T == 'NamedList':
            return {'op': 'namedlist', 'name': m.name, 'e': self.exp(m.exp, depth + 1)}
        if T == 'RuleInclude':
            if m.exp is None:
                raise Unsupported('unlinked include')
            return self.exp(m.exp, depth + 1)
        raise Unsupported(T)

    def rule(self, r):
        T = type(r).__name__
        if getattr(r, 'no_stak', False):
            raise Unsupported('@nostak rule (not on the call stack: events carry the caller name)')
        if T == 'BasedRule':
            e = self.exp(r.rhs)
        elif T == 'Rule':
            e = self.exp(r.exp)
        else:
            raise Unsupported(T)
        return {'name': r.name, 'exp': e, 'tokn': bool(r.is_tokn), 'isname': bool(r.is_name), 'nomemo': bool(r.no_memo),
                'lrec': bool(r.is_lrec), 'memo': bool(r.is_memo), 'params': [str(p) for p in (r.params or ())], 'typ': []}


def pattern_value(m):
    """docs/syntax.rst: the value of a pattern is the matched text; with one group the group; with several the first."""
    g = m.groups(default='')
    if len(g) == 0:
        return m.group()
    return g[0]


def skip_table(text, ws_re, eol_re, cmt_re):
    """position after skipping whitespace and comments from each position 0..len (the documented fixpoint)."""
    def eat(rx, p):
        moved = False
        while rx is not None:
            m = rx.match(text, p)
            if not m or m.end() == p:
                break
            p, moved = m.end(), True
        return p, moved
    out = []
    for p0 in range(len(text) + 1):
        p = p0
        while True:
            q = p
            p, _ = eat(ws_re, p)
            while True:
                p, mv = eat(eol_re, p)
                if not mv:
                    break
                p, _ = eat(ws_re, p)
            p, _ = eat(cmt_re, p)
            if p == q:
                break
        out.append(p)
    return out


def eol_table(text, eol_re, cmt_re):
    """$-> from each position (docs/syntax.rst): whitespace in the sense of str.isspace() other than the line separator, and
    comments, are skipped; then a line break (os.linesep) or the end of the text must follow; -1 where it does not.  The skipping
    of blanks and comments after the line break follows the code (input/textlines.py: matcheol), the documents do not mention it."""
    n = len(text)

    def eat(rx, p):
        moved = False
        while rx is not None:
            m = rx.match(text, p)
            if not m or m.end() == p:
                break
            p, moved = m.end(), True
        return p, moved

    def blanks(p):
        while p < n and text[p].isspace() and text[p] != '\n':
            p += 1
        return p

    def spaces(p):
        while True:
            q = p
            p = blanks(p)
            p, mv = eat(eol_re, p)
            if mv:
                p = blanks(p)
            p, _ = eat(cmt_re, p)
            if p == q:
                return p
    out = []
    for p0 in range(n + 1):
        p = spaces(p0)
        if p >= n:
            pass                      # end of text: a whitespace-only rest is a line end
        else:
            nl = text.find('\n', p)
            end = nl if nl != -1 else n
            if any(not c.isspace() for c in text[p:end]):
                out.append(-1)
                continue
            p = nl + 1 if nl != -1 else n
        out.append(spaces(p))
    return out


def _rx(x):
    if x is None or x == '':
        return None
    return x if isinstance(x, re.Pattern) else re.compile(str(x))


class _PatRow(dict):
    """Filled lazily by finish_tables() for the positions at which the engine tried some pattern."""

    def __init__(self, pattern, text):
        super().__init__()
        self.rx, self.text = re.compile(pattern), text

    def fill(self, positions):
        for i in positions:
            m = self.rx.match(self.text, i)
            self[str(i)] = {'n': -1, 'v': {'t': 'n'}} if m is None else {'n': m.end() - i, 'v': val(pattern_value(m))}


def finish_tables(head, positions):
    """Tabulate every pattern at every position where the engine tried a pattern (positions come from the recorder)."""
    for row in head['cfg']['pm']:
        row.fill(sorted(set(positions)))


_BOOT: dict = {}


def boot_rules():
    """The rules of TatSu's own grammar (tatsu/_tatsu.ebnf, compiled and optimized): the grammar the checked-in bootstrap parser is
    supposed to implement.  Validating the bootstrap parser's executions against PegMachine instantiated with THIS grammar is C15
    stated on the specification."""
    if 'rules' not in _BOOT:
        import os
        import tatsu
        _BOOT['busy'] = True
        try:
            src = open(os.path.join(os.path.dirname(tatsu.__file__), '_tatsu.ebnf'), encoding='utf-8').read()
            model = tatsu.compile(src, name='TatSuVerifBoot')
            _BOOT['rules'] = {r.name: r for r in model.rules}      # the code generator walks the model as written (not optimized)
        finally:
            _BOOT['busy'] = False
    return _BOOT['rules']


def project(ctx, positions=None):
    """A live parse context (model interpreter, or the bootstrap parser) -> dict(g, cfg, inp) or raises Unsupported."""
    rulemap = getattr(ctx, '_rulemap', None)
    backend = 'model'
    if not rulemap:
        backend = 'gen'
        if _BOOT.get('busy'):
            raise Unsupported('(internal) compiling the TatSu grammar for the bootstrap traces')
        if any(c.__name__ == 'TatSuBootstrapParser' for c in type(ctx).__mro__):
            rulemap = boot_rules()
        else:
            raise Unsupported('generated parser other than the bootstrap parser (no grammar model in the context)')
    cfg0 = ctx.config
    inp = ctx.cursor.input
    text = inp.textstr
    if len(text) > MAXLEN:
        raise Unsupported(f'text longer than {MAXLEN}')
    if type(inp).__name__ != 'TextLines':
        raise Unsupported('input ' + type(inp).__name__)
    pj = Projector()
    rules = [pj.rule(r) for r in rulemap.values()]
    names = {r['name'] for r in rules}

    def check_calls(e):
        if e['op'] == 'call' and e['name'] not in names:
            raise Unsupported('call of an undefined rule')
        for k in ('e', 'sep'):
            if k in e:
                check_calls(e[k])
        for x in e.get('es', []):
            check_calls(x)
    for r in rules:
        check_calls(r['exp'])
    kws = sorted(str(k) for k in (getattr(ctx, 'keywords', None) or ()))
    g = {'rules': rules, 'keywords': [list(k) for k in kws]}
    chars = set(text)
    for k in kws:
        chars.update(k)

    def walk(e):
        if e['op'] == 'tok':
            chars.update(e['s'])
        for k in ('e', 'sep'):
            if k in e:
                walk(e[k])
        for x in e.get('es', []):
            walk(x)
    for r in rules:
        walk(r['exp'])
    namechars = str(cfg0.namechars or '')
    chars.update(namechars)
    chars = sorted(chars)
    pm = [_PatRow(p, text) for p in pj.pats]
    cfg = {
        'ws': [], 'eolc': [], 'cmto': [], 'cmtc': [],
        'skip': skip_table(text, inp.whitespace_re, _rx(cfg0.eol_comments), _rx(cfg0.comments)),
        'pm': pm, 'eol': eol_table(text, _rx(cfg0.eol_comments), _rx(cfg0.comments)),
        'nameguard': bool(inp.nameguard), 'namechars': list(namechars), 'ignorecase': bool(cfg0.ignorecase),
        'alpha': [c for c in chars if c.isalpha()], 'alnum': [c for c in chars if c.isalnum()],
        'fold': [[c, c.lower()] for c in chars if c.lower() != c and len(c.lower()) == 1],
        'keywords': [list(k) for k in kws], 'act': 'oracle' if cfg0.semantics is not None else 'none', 'actrule': '*', 'lr': bool(cfg0.left_recursion),
        'memoize': bool(cfg0.memoization), 'prune': bool(cfg0.prune_memos_on_cut), 'maxmiss': 100000, 'backend': backend,
    }
    return {'g': g, 'cfg': cfg, 'inp': list(text)}
