"""Spec -> code for C10: replay API call histories (paths of the ApiHistory state graph) in one fresh interpreter each and compare
every response with the same call executed alone in a fresh interpreter."""
from __future__ import annotations

G = {
    'g1': "@@grammar :: One\nstart::Foo = x:'a' {'b'} ;\n",
    'g2': "@@grammar :: Two\nstart::Bar = y:/[a-z]+/ ['b'] ;\n",
    # a rule type named like a class of the grammar-model library itself
    'g3': "@@grammar :: Three\nstart::Token = z:'a' {'c'} ;\n",
}
TEXT = {'g1': 'a b', 'g2': 'abc b', 'g3': 'a c'}

_sems = {}


def sem_obj(name):
    if name == 'none':
        return None
    if name not in _sems:
        class S:
            def __init__(self, tag):
                self.tag = tag

            def start(self, ast, *a, **k):
                return (self.tag, dict(ast) if hasattr(ast, 'items') else ast)
        _sems[name] = S(name)
    return _sems[name]


def fingerprint(result):
    """-> (abstract response, concrete fingerprint)"""
    import hashlib
    if isinstance(result, BaseException):
        return {'k': 'failed'}, {'error': type(result).__name__}
    if isinstance(result, str) and 'class ' in result and 'Parser' in result:
        import re
        m = re.search(r'class (\w+)Parser', result)
        g = 'g1' if 'Foo' in result else ('g3' if "'c'" in result and 'Token' in result and 'z' in result else 'g2')
        return {'k': 'source', 'g': g, 'name': m.group(1) if m else '?'}, {'sha1': hashlib.sha1(result.encode()).hexdigest()}
    if isinstance(result, tuple) and len(result) == 2 and isinstance(result[0], str) and result[0].startswith('s'):
        inner = result[1]
        g = ('g1' if 'x' in inner else 'g3' if 'z' in inner else 'g2') if isinstance(inner, dict) else 'g2'
        return {'k': 'parse', 'g': g, 'sem': result[0]}, {'sem': result[0], 'v': repr(sorted(inner.items())) if isinstance(inner, dict) else repr(inner)}
    tname = type(result).__name__
    if tname in ('Foo', 'Bar', 'Token') and hasattr(result, 'parseinfo'):
        g = {'Foo': 'g1', 'Bar': 'g2', 'Token': 'g3'}[tname]
        attrs = {k: repr(getattr(result, k, None)) for k in ('x', 'y', 'z')}
        return {'k': 'parse', 'g': g, 'sem': 'builder'}, {'node': tname, 'attrs': attrs}
    if hasattr(result, 'items'):
        g = 'g1' if 'x' in result else ('g3' if 'z' in result else 'g2')
        return {'k': 'parse', 'g': g, 'sem': 'none'}, {'ast': repr(sorted((k, v) for k, v in result.items() if 'parseinfo' not in k))}
    return {'k': '?', 'type': tname}, {'repr': repr(result)[:200]}


def do_call(c, handles):
    """Execute one abstract call against the real API. handles: list of (model, creating call)."""
    import tatsu
    op = c['op']
    try:
        if op == 'compile':
            kw = {}
            if c['name'] != 'none':
                kw['name'] = c['name']
            if c['sem'] != 'none':
                kw['semantics'] = sem_obj(c['sem'])
            if c['asmodel']:
                kw['asmodel'] = True
            m = tatsu.compile(G[c['g']], **kw)
            if len(handles) < 2:
                handles.append((m, c))
            r = m.parse(TEXT[c['g']])
            a, f = fingerprint(r)
            a = dict(a, k='model', name=c['name'])       # the model's observable behaviour; the requested name is checked through sources
            return a, f
        if op == 'parse':
            kw = {}
            if c['sem'] != 'none':
                kw['semantics'] = sem_obj(c['sem'])
            if c['asmodel']:
                kw['asmodel'] = True
            return fingerprint(tatsu.parse(G[c['g']], TEXT[c['g']], **kw))
        if op == 'source':
            kw = {'name': c['name']} if c['name'] != 'none' else {}
            return fingerprint(tatsu.to_python_sourcecode(G[c['g']], **kw))
        if op == 'load':
            import json as _json
            from tatsu.peg import Grammar
            js = _json.dumps(tatsu.compile(G[c['g']]).asjson())          # the JSON text (produced here; loading is what is observed)
            return fingerprint(Grammar.load(_json.loads(js)).parse(TEXT[c['g']]))
        if op in ('modelparse', 'failedparse'):
            m, cc = handles[c['h'] - 1]
            text = TEXT[cc['g']] if op == 'modelparse' else '%% nonsense'
            return fingerprint(m.parse(text))
    except Exception as e:  # noqa: BLE001
        return fingerprint(e)
    raise ValueError(op)


def run_history(case):
    """case: {'calls': [abstract call dicts]} -> list of (abstract, fingerprint) per call; runs in a fresh process (one task per child)."""
    handles = []
    out = []
    for c in case['calls']:
        if c['op'] in ('modelparse', 'failedparse') and c['h'] > len(handles):
            out.append(({'k': 'skip'}, {}))
            continue
        out.append(do_call(c, handles))
    return out


def run_threads(case):
    """N threads parse different inputs on ONE shared model under a very small switch interval; every result must equal the
    sequential result of the same input."""
    import sys
    import threading
    import tatsu
    from .absgrammar import norm
    grammar = case['grammar']
    model = tatsu.compile(grammar, **case.get('compile_kw', {}))
    inputs = case['inputs']

    def parse(t):
        try:
            return ('ok', repr(norm(model.parse(t, **case.get('parse_kw', {})))))
        except Exception as e:  # noqa: BLE001
            from tatsu.exceptions import FailedParse
            import traceback as _tb
            return ('err', type(e).__name__) if isinstance(e, FailedParse) else ('err', type(e).__name__, str(e)[:200], _tb.format_exc()[-1800:])
    want = {t: parse(t) for t in inputs}
    old = sys.getswitchinterval()
    sys.setswitchinterval(1e-6)
    bad = []
    # cold-start rounds: a FRESH model per round (compile cache cleared), all threads released together, and - forced overlap - every
    # thread is held at the entry of Grammar.optimized() until the others are inside too (the check-then-act window of the cached
    # optimized copy); the warm `model` above only supplies the expected results
    from tatsu.peg import base as _base
    from .impl import clear_caches
    orig_opt = _base.Grammar.optimized
    gate = {'b': None}

    def held_optimized(self):
        b = gate['b']
        if b is not None:
            try:
                b.wait(timeout=0.3)
            except threading.BrokenBarrierError:
                pass
        return orig_opt(self)
    warm = model
    try:
        for rnd in range(case.get('rounds', 6)):
            results = {}
            barrier = threading.Barrier(case['threads'])
            if rnd % 2 == 1:
                clear_caches()
                model = tatsu.compile(grammar, **case.get('compile_kw', {}))      # noqa: PLW2901  (cold model, used by parse())
                gate['b'] = threading.Barrier(case['threads'])
                _base.Grammar.optimized = held_optimized
            else:
                model = warm
                gate['b'] = None
                _base.Grammar.optimized = orig_opt

            def work(k):
                barrier.wait()
                for j in range(len(inputs)):
                    t = inputs[(j + k) % len(inputs)]
                    results[(k, t)] = parse(t)
            ths = [threading.Thread(target=work, args=(k,)) for k in range(case['threads'])]
            for th in ths:
                th.start()
            for th in ths:
                th.join()
            for (k, t), r in results.items():
                if r != want[t] and len(bad) < 5:
                    bad.append({'thread': k, 'input': t, 'expected': want[t], 'observed': r, 'round': rnd})
    finally:
        sys.setswitchinterval(old)
        _base.Grammar.optimized = orig_opt
    return bad


def run_genparser_pairs(case):
    """One generated parser object, every ordered pair of per-call settings: the second call must answer like a fresh object."""
    import tatsu
    src = tatsu.to_python_sourcecode(G[case['g']], name='H')
    ns = {}
    exec(compile(src, '<gen>', 'exec'), ns)
    cls = ns['HParser']
    variants = {'plain': {}, 'asmodel': {'asmodel': True}, 's1': {'semantics': sem_obj('s1')}, 'ignorecase': {'ignorecase': True},
                'parseinfo': {'parseinfo': True}, 'start': {'start': 'start'}}
    text = TEXT[case['g']]
    bad = []

    def call(p, kw, t=text):
        try:
            return fingerprint(p.parse(t, **kw))
        except Exception as e:  # noqa: BLE001
            return fingerprint(e)
    for a, ka in variants.items():
        for b, kb in variants.items():
            for first_text in (text, '%% nonsense'):
                p = cls()
                call(p, ka, first_text)
                got = call(p, kb)
                want = call(cls(), kb)
                if got[1] != want[1]:
                    bad.append({'first': a, 'first_failed': first_text != text, 'second': b, 'expected': want[0], 'observed': got[0]})
    return bad


def run_identity(case):
    """Replay one behaviour of spec/SemIdentity.tla (design ById: New / Drop / Parse with address reuse) in this fresh interpreter.
    New(o) at an address a dead object had: allocate until the real id() equals the dead object's (bounded); Drop(o): drop the only
    reference and collect; Parse(o): model.parse(text, semantics=<o>) - the actions that run must be those of o."""
    import gc
    import tatsu
    from .dotgraph import split_action
    model = tatsu.compile("start = x:'a' {'b'} ;")

    import dataclasses

    class Plain:
        pass

    class Tag:
        def start(self, ast, *a, **k):
            return ('TAG', dict(ast))

    @dataclasses.dataclass(frozen=True)
    class Equal:                                   # e1 == e2 and hash(e1) == hash(e2): the tag takes no part in comparisons
        tag: str = dataclasses.field(default='', compare=False)

        def start(self, ast, *a, **k):
            return ('TAG' + self.tag, dict(ast))

    @dataclasses.dataclass
    class Unhashable:                              # eq without frozen: __hash__ is None
        n: int = 0

        def start(self, ast, *a, **k):
            return ('TAG', dict(ast))

    class Falsy:
        def __len__(self):
            return 0

        def start(self, ast, *a, **k):
            return ('TAG', dict(ast))

    def make(name):
        if name.startswith('e'):
            return Equal('A' if name == 'e1' else 'B')
        return {'p': Plain, 't': Tag, 'u': Unhashable, 'f': Falsy}[name[0]]()

    def beh(name):
        return 'plain' if name.startswith('p') else 'tagA' if name == 'e1' else 'tagB' if name == 'e2' else 'tag'
    objs, oldid, bad, reused, steps = {}, {}, [], 0, 0
    for label, st in case['path']:
        act, args = split_action(label)
        steps += 1
        if act == 'New':
            o = args[0]
            a = st['addr'][o]
            want = oldid.get(a)
            junk = []
            obj = make(o)
            if want is not None and id(obj) != want:
                for _ in range(4000):
                    junk.append(obj)
                    obj = make(o)
                    if id(obj) == want:
                        break
            if want is not None and id(obj) == want:
                reused += 1
            del junk
            objs[o] = obj
            oldid[a] = id(obj)
        elif act == 'Drop':
            objs.pop(args[0], None)
            gc.collect()
        elif act == 'Parse':
            o = args[0]
            try:
                r = model.parse('a b', semantics=objs[o])
                got = {'TAG': 'tag', 'TAGA': 'tagA', 'TAGB': 'tagB'}.get(r[0], 'plain') if isinstance(r, tuple) and r else 'plain'
            except Exception as e:  # noqa: BLE001
                got = f'raised {type(e).__name__}: {str(e)[:80]}'
            want_beh = beh(o)
            if got != want_beh:
                bad.append({'step': steps, 'object': o, 'expected': want_beh, 'observed': got,
                            'history': [lbl for lbl, _s in case['path'][:steps]]})
    return {'bad': bad, 'reused': reused}


BO_GRAMMAR = "@@grammar :: Bo\nstart::Thing = x:'a' ;\n"


def run_builder_history(case):
    """Replay one behaviour of spec/BuilderOptions.tla (compile with builder options / parse with a model obtained earlier) in this
    fresh interpreter.  -> [{'call':..., 'observed': option the built node derives from, 'ideal':..., 'as_coded':...}]"""
    import tatsu
    from tatsu.objectmodel import Node
    from .dotgraph import split_action

    class BaseA(Node):
        pass

    class BaseB(Node):
        pass
    bases = {'A': BaseA, 'B': BaseB}

    def reveal(node):
        return 'A' if isinstance(node, BaseA) else 'B' if isinstance(node, BaseB) else 'plain' if isinstance(node, Node) else f'?{type(node).__name__}'
    handles, out = [], []
    for label, st in case['path']:
        c = st['last']
        try:
            if c['op'] == 'compile':
                kw = {'asmodel': True} if c['o'] == 'plain' else {'basetype': bases[c['o']]}
                m = tatsu.compile(BO_GRAMMAR, **kw)
                if len(handles) < 2:
                    handles.append((m, c['o']))
                obs = reveal(m.parse('a'))
                ideal = c['o']
            else:
                m, o = handles[c['h'] - 1]
                obs = reveal(m.parse('a'))
                ideal = o
        except Exception as e:  # noqa: BLE001
            obs, ideal = f'raised {type(e).__name__}: {str(e)[:80]}', (c.get('o') or '?')
        out.append({'call': c, 'observed': obs, 'ideal': ideal, 'as_coded': st['resp']})
    return out
