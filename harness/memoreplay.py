"""The memo table (spec/MemoCache.tla, spec/MemoTrace.tla) bound to the code in both directions.

spec -> code: every edge of MemoCache's state graph (dumped under the view <<cfg, cache>>) is replayed onto a real BoundedDict through
the real ParserCore / ParserEngine methods, inside a real `bound()` context; the whole ordered content of the table (and the answer of
every lookup) is compared with the specification's state after every step.

code -> spec: the memo operations of real parses are recorded by wrapping the same methods (names looked up at call time on the
classes; no source hook) and validated by TLC against MemoTrace."""
from __future__ import annotations

import collections
import json
import os
import sys

from .dotgraph import Graph, split_action


# ------------------------------------------------------------------------------------------------ spec -> code

def _tojson(v):
    if isinstance(v, (list, tuple)):
        return [_tojson(x) for x in v]
    if isinstance(v, frozenset):
        return sorted(_tojson(x) for x in v)
    if isinstance(v, dict):
        return {k: _tojson(x) for k, x in v.items()}
    return v


def graph_jobs(dot, nchunks=32):
    """-> jobs: [{'targets': [{'cfg':..., 'path': [[name, args], ...], 'cache': expected, 'edges': [[name, args, expected cache, selfloop]]}]}]
    every state is reached by a shortest path from its initial state; every outgoing edge of it is then replayed from there."""
    g = Graph(dot)
    pred = {}
    dq = collections.deque(g.init)
    seen = set(g.init)
    while dq:
        n = dq.popleft()
        for lab, b in g.out.get(n, []):
            if b not in seen:
                seen.add(b)
                pred[b] = (n, lab)
                dq.append(b)
    targets = []
    nedges = 0
    for n in sorted(seen):
        path = []
        m = n
        while m in pred:
            a, lab = pred[m]
            nm, args = split_action(lab)
            path.append([nm, _tojson(args), _tojson(g.states[m]['cache'])])
            m = a
        path.reverse()
        edges = []
        for lab, b in g.out.get(n, []):
            nm, args = split_action(lab)
            edges.append([nm, _tojson(args), _tojson(g.states[b]['cache']), b == n])
        nedges += len(edges)
        targets.append({'cfg': _tojson(g.states[n]['cfg']), 'path': path, 'cache': _tojson(g.states[n]['cache']), 'edges': edges})
    jobs = [{'targets': targets[i::nchunks], 'variant': i % 2} for i in range(nchunks)]
    return [j for j in jobs if j['targets']], {'states': len(seen), 'edges': nedges}


class _Rig:
    """A real parse context bound to a text, with the capacity / pruning / memoization of one specification configuration."""

    def __init__(self, cfg, variant):
        from tatsu.contexts.context import ParseContext
        from tatsu.contexts.infos import RuleInfo
        cap = cfg['cap']
        if variant == 0 or cap == 1:
            text, plm = 'abc', float(cap)            # one line: capacity = perlinememos
        else:
            text, plm = 'a\nb\nc'[:2 * cap - 1] + ('c' if cap == 2 else ''), 0.3     # cap lines: capacity = number of lines
        self.ctx = ParseContext()
        self.cm = self.ctx.bound(text, perlinememos=plm, prune_memos_on_cut=cfg['prune'], memoization=cfg['memoization'])
        self.cm.__enter__()

        def m(ctx):
            return None

        def n(ctx):
            return None
        n.no_memo = True
        self.ri = {'m': RuleInfo.new(None, m), 'n': RuleInfo.new(None, n)}
        self.vals = {}
        self.capacity = self.ctx._memos.capacity

    def close(self):
        try:
            self.cm.__exit__(None, None, None)
        except Exception:  # noqa: BLE001
            pass

    def key(self, k):
        from tatsu.contexts.infos import MemoKey
        return MemoKey(k[0], self.ri[k[1]])

    def val(self, name):
        from tatsu.contexts.infos import RuleResult
        if name not in self.vals:
            self.vals[name] = self.ctx.newexcept('x') if name == 'ko' else RuleResult(name, 1)
        return self.vals[name]

    def name(self, v):
        from tatsu.exceptions import FailedLeftRecursion
        if v is None:
            return 'none'
        if isinstance(v, FailedLeftRecursion):
            return 'guard'
        for nm, o in self.vals.items():
            if o is v:
                return nm
        return repr(v)[:60]

    def project(self):
        return [[[k.pos, k.ruleinfo.name], self.name(v)] for k, v in self.ctx._memos.items()]

    def apply(self, nm, args):
        """-> answer of a lookup (else None)"""
        c = self.ctx
        if nm == 'Store':
            c.memoize(self.key(args[0]), self.val(args[1]))
        elif nm == 'Guard':
            c.set_left_recursion_guard(self.key(args[0]))
        elif nm == 'Lookup':
            return self.name(c.memo(self.key(args[0])))
        elif nm == 'Cut':
            c.cursor.goto(args[0])
            c.cut()
        elif nm == 'ClearGuards':
            c.clear_recursion_errors()
        elif nm == 'Update':
            c._memos.update({self.key(args[0]): self.val(args[1]), self.key(args[2]): self.val(args[3])})
        else:
            raise ValueError(nm)
        return None


def _lookup_expected(cache, key):
    for k, v in cache:
        if k == key:
            return v
    return 'none'


def replay_job(job):
    """-> {'steps': n, 'bad': [...], 'capacity_unexpected': n}"""
    out = {'steps': 0, 'bad': [], 'capacity_unexpected': 0, 'evictions': 0}

    def reach(t):
        rig = _Rig(t['cfg'], job['variant'])
        if rig.capacity != t['cfg']['cap']:
            out['capacity_unexpected'] += 1
            rig.close()
            return None
        hist = []
        for nm, args, exp in t['path']:
            rig.apply(nm, args)
            hist.append([nm, args])
            out['steps'] += 1
            got = rig.project()
            if got != exp:
                out['bad'].append({'cfg': t['cfg'], 'history': hist[:], 'expected': exp, 'observed': got, 'variant': job['variant']})
                rig.close()
                return None
        return rig

    for t in job['targets']:
        if len(out['bad']) > 5:
            break
        rig = reach(t)
        if rig is None:
            continue
        hist = [[nm, args] for nm, args, _e in t['path']]
        for nm, args, exp, selfloop in t['edges']:
            before = rig.project()
            try:
                ans = rig.apply(nm, args)
            except Exception as e:  # noqa: BLE001
                out['bad'].append({'cfg': t['cfg'], 'history': hist + [[nm, args]], 'expected': exp, 'observed': f'{type(e).__name__}: {e}',
                                   'variant': job['variant']})
                rig.close()
                rig = reach(t)
                if rig is None:
                    break
                continue
            out['steps'] += 1
            got = rig.project()
            if len(got) < len(before) + (1 if nm in ('Store', 'Guard') else 0) and nm in ('Store', 'Guard', 'Update'):
                out['evictions'] += 1
            ok = got == exp
            if nm == 'Lookup':
                want = _lookup_expected(t['cache'], args[0])
                ok = ok and ans == want
            if not ok:
                out['bad'].append({'cfg': t['cfg'], 'history': hist + [[nm, args]], 'expected': {'table': exp, **({'answer': _lookup_expected(t['cache'], args[0])} if nm == 'Lookup' else {})},
                                   'observed': {'table': got, **({'answer': ans} if nm == 'Lookup' else {})}, 'variant': job['variant']})
            if not selfloop or not ok:
                rig.close()
                rig = reach(t)
                if rig is None:
                    break
        if rig is not None:
            rig.close()
    return out


# ------------------------------------------------------------------------------------------------ code -> spec

class Recorder:
    """Wraps ParserCore.memo / memoize / cut / _initialize_caches and ParserEngine.clear_recursion_errors on the classes."""

    def __init__(self):
        self.segments = []
        self.cur = None
        self.names = {}
        self.keep = []
        self.installed = False

    def install(self):
        if os.environ.get('TATSU_VERIF') != '1':
            raise RuntimeError('the memo recorder is installed only under TATSU_VERIF=1')
        if self.installed:
            return
        from tatsu.contexts.core import ParserCore
        from tatsu.contexts.engine import ParserEngine
        rec = self
        o_init, o_memo, o_memoize, o_cut, o_clear = (ParserCore._initialize_caches, ParserCore.memo, ParserCore.memoize, ParserCore.cut,
                                                     ParserEngine.clear_recursion_errors)

        def _initialize_caches(self):
            o_init(self)
            rec.start(self)

        def memo(self, key):
            r = o_memo(self, key)
            rec.event(self, 'lookup', key, r)
            return r

        def memoize(self, key, memo):
            r = o_memoize(self, key, memo)
            rec.event(self, 'store', key, memo)
            return r

        def cut(self):
            o_cut(self)
            rec.event(self, 'cut', None, None)

        def clear_recursion_errors(self):
            o_clear(self)
            rec.event(self, 'clear', None, None)

        ParserCore._initialize_caches = _initialize_caches
        ParserCore.memo = memo
        ParserCore.memoize = memoize
        ParserCore.cut = cut
        ParserCore._cut = cut
        ParserEngine.clear_recursion_errors = clear_recursion_errors
        self.installed = True

    def start(self, ctx):
        self.cur = {'cap': ctx._memos.capacity, 'prune': bool(ctx.config.prune_memos_on_cut), 'memoization': bool(ctx.config.memoization),
                    'nonmemo': set(), 'ev': [], 'table': id(ctx._memos)}
        self.segments.append(self.cur)
        self.names = {}
        self.keep = []

    def valname(self, v):
        from tatsu.exceptions import FailedLeftRecursion
        if v is None:
            return 'none'
        if isinstance(v, FailedLeftRecursion):
            return 'guard'
        if id(v) not in self.names:
            self.keep.append(v)
            self.names[id(v)] = ('ko' if isinstance(v, BaseException) else 'ok') + str(len(self.names) + 1)
        return self.names[id(v)]

    def event(self, ctx, op, key, v):
        if self.cur is None or self.cur['table'] != id(ctx._memos):
            self.start(ctx)
        tab = ctx._memos
        old = next(iter(tab), None)
        e = {'op': op, 'pos': key.pos if key is not None else ctx.pos, 'rule': key.ruleinfo.name if key is not None else '',
             'val': self.valname(v) if op in ('lookup', 'store') else '', 'len': len(tab),
             'oldp': old.pos if old is not None else 0, 'oldr': old.ruleinfo.name if old is not None else ''}
        if key is not None and not key.ruleinfo.memoizable:
            self.cur['nonmemo'].add(key.ruleinfo.name)
        self.cur['ev'].append(e)

    def take(self):
        """The operations of the parse that just ended: the longest segment since the last take()."""
        segs, self.segments, self.cur = self.segments, [], None
        if not segs:
            return None
        s = max(segs, key=lambda x: len(x['ev']))
        s = dict(s)
        s['nonmemo'] = sorted(s['nonmemo'])
        s.pop('table')
        s['ev'] = s['ev'] + [{'op': 'end', 'pos': 0, 'rule': '', 'val': '', 'len': 0, 'oldp': 0, 'oldr': ''}]
        return s


_REC = Recorder()

RECORD_SETTINGS = [
    {'perlinememos': 0.01}, {'perlinememos': 2}, {'perlinememos': 3}, {},
    {'perlinememos': 0.01, 'prune_memos_on_cut': False}, {'perlinememos': 2, 'prune_memos_on_cut': False},
    {'perlinememos': 3, 'memoization': False},
]


def record_case(case):
    """case = {'ebnf', 'texts': [str], 'settings_idx': [...]} -> list of recorded executions (each with '_case')"""
    from .impl import _Quiet, clear_caches
    import tatsu
    sys.setrecursionlimit(3000)
    _REC.install()
    clear_caches()
    out = []
    try:
        with _Quiet():
            model = tatsu.compile(case['ebnf'])
    except Exception:  # noqa: BLE001
        return out
    for ti, text in enumerate(case['texts']):
        for si in case['settings_idx']:
            _REC.take()
            st = RECORD_SETTINGS[si]
            try:
                with _Quiet():
                    model.parse(text, start=case.get('start', 's'), **st)
                oc = 'ok'
            except Exception as e:  # noqa: BLE001
                oc = type(e).__name__
            s = _REC.take()
            if s is None or len(s['ev']) < 2 or len(s['ev']) > 400:
                continue
            s['_case'] = {'ebnf': case['ebnf'], 'text': text, 'settings': st, 'outcome': oc}
            out.append(s)
    return out


def corrupt(rec, k):
    """One logged field changed / one event dropped: every variant touches something MemoTrace binds."""
    c = json.loads(json.dumps({x: y for x, y in rec.items() if not x.startswith('_')}))
    ev = c['ev']
    hits = [i for i, e in enumerate(ev) if e['op'] == 'lookup' and e['val'] != 'none']
    stores = [i for i, e in enumerate(ev) if e['op'] == 'store' and e['len'] > 0]
    kind = k % 5
    what = None
    if kind == 0 and hits:
        ev[hits[-1]]['val'] = 'none'
        what = 'a hit reported as a miss'
    elif kind == 1 and hits:
        ev[hits[0]]['val'] = 'ok9999'
        what = 'a lookup answers with a foreign value'
    elif kind == 2 and stores:
        ev[stores[-1]]['len'] += 1
        what = 'length after a store'
    elif kind == 3:
        # a store whose value a later lookup answers with: without it that hit has no explanation
        for i in stores:
            if any(e['op'] == 'lookup' and e['val'] == ev[i]['val'] and e['val'] != 'guard' and (e['pos'], e['rule']) == (ev[i]['pos'], ev[i]['rule'])
                   for e in ev[i + 1:]):
                del ev[i]
                what = 'a store dropped'
                break
    if what is None:
        misses = [i for i, e in enumerate(ev) if e['op'] == 'lookup' and e['val'] == 'none']
        if misses:
            ev[misses[0]]['val'] = 'ok9999'
            what = 'a miss reported as a hit'
        else:
            ev[0] = dict(ev[0], len=ev[0]['len'] + 3)
            what = 'length of the first event'
    c['_corrupt'] = what
    return c


TRACE_INVS = ['Bounded', 'NoDupKeys', 'Sound', 'YoungestKept', 'NothingBeforeCut']


def tlc_group(arg):
    from . import tlc
    d, gi, recs = arg
    path = os.path.join(d, f'memotr_{gi}.json')
    json.dump([{k: v for k, v in r.items() if not k.startswith('_')} for r in recs], open(path, 'w'))
    cfg = os.path.join(d, f'memotr_{gi}.cfg')
    open(cfg, 'w').write('CONSTANTS Positions = {0}\nRules = {"m"}\nCaps = {1}\nRefreshOnRead = FALSE\nEvictYoung = FALSE\n'
                         'INIT TraceInit\nNEXT TNext\n' + ''.join(f'INVARIANT {i}\n' for i in TRACE_INVS)
                         + 'CHECK_DEADLOCK FALSE\nPOSTCONDITION AllAccepted\n')
    return tlc.run_tlc('MemoTrace', cfg=cfg, env={'VERIF_TRACES': path}, workers=1, timeout=900, heap='2g')
