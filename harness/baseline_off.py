"""Run the repository's pinned baseline with the verification guard OFF and
compare with /root/.vp/BASELINE.json: every stable_pass test must pass."""
import json, os, subprocess, sys, tempfile, xml.etree.ElementTree as ET

def main():
    env = dict(os.environ)
    env.pop('TATSU_VERIF', None)
    base = json.load(open('/root/.vp/BASELINE.json'))
    want = set(base['stable_pass'])
    with tempfile.TemporaryDirectory() as d:
        out = os.path.join(d, 'junit.xml')
        cmd = ['/venv/bin/python', '-m', 'pytest', '-ra', '-q', '-p', 'no:cacheprovider', '--timeout=900',
               '--continue-on-collection-errors', f'--junitxml={out}']
        subprocess.run(cmd, cwd='/repo', env=env, stdout=subprocess.DEVNULL, stderr=subprocess.DEVNULL)
        passed = set()
        for tc in ET.parse(out).getroot().iter('testcase'):
            if not any(ch.tag in ('failure', 'error', 'skipped') for ch in tc):
                passed.add(f"{tc.get('classname')}::{tc.get('name')}")
    missing = sorted(want - passed)
    print(f'baseline: {len(want)} pinned, {len(want & passed)} pass, {len(passed)} pass in total')
    for m in missing[:50]:
        print('  NOT PASSING:', m)
    return 1 if missing else 0

if __name__ == '__main__':
    sys.exit(main())
