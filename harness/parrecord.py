"""Code -> spec for C18: record executions of the REAL parallel loop (tatsu.parproc.parproc over real ThreadPoolExecutor /
ProcessPoolExecutor workers) as traces for spec/ParProcTrace.tla.

No source hook is needed: the executor classes are looked up in concurrent.futures when active_pmap() runs and `as_completed`
is a module-level name of tatsu.parproc.pmap, so recording subclasses / a recording wrapper are installed around the real
objects.  Every event is appended in the generator's own thread (submit, as_completed call, each future handed over, the end of
the iteration) or by the consumer (each Result received, the end), i.e. in program order: the trace is totally ordered without
any clock.  Worker completions are not logged - ParProcTrace infers them.

usage (a non-daemonic process is needed to start pools):  python -m harness.parrecord <cases.json> <out.json>"""
from __future__ import annotations

import json
import sys
import time


class Payload:
    def __init__(self, tid, raises_decl=()):
        self.tid, self._raises = tid, tuple(raises_decl)
        self.path, self.payload = f'p{tid}', tid

    def raises(self):
        return self._raises

    def __repr__(self):
        return f'Payload({self.tid})'


class TwoArg(LookupError):
    """An ordinary user exception: two constructor arguments, one message handed to Exception.  It pickles (by reference to the class
    and `args`), but unpickling calls TwoArg('3-boom') and fails - the commonest way an exception cannot cross a process boundary."""

    def __init__(self, a, b):
        super().__init__(f'{a}-{b}')
        self.a, self.b = a, b


from tatsu.parproc.payload import VisualPayload  # noqa: E402  (the tree under test: PYTHONPATH)


class VPayload(VisualPayload):
    """A VisualPayload (the payload class of TatSu's own tools, for which taskproc() retries a TypeError with the payload's path)."""

    def raises(self):
        return self._raises

    def __repr__(self):
        return f'VPayload({self.tid})'


def visual_payload(tid, raises_decl=()):
    from pathlib import Path
    p = VPayload(Path(f'p{tid}'), tid)
    p.tid, p._raises = tid, tuple(raises_decl)
    return p


def _work(payload, raising, delays, exc_kind='plain'):
    d = delays.get(payload.tid, 0)        # (called with a path - the retry of taskproc() - this is an AttributeError: still one exception result)
    if d:
        time.sleep(d / 1000.0)
    if payload.tid in raising:
        if exc_kind == 'twoarg':
            raise TwoArg(payload.tid, 'boom')
        if exc_kind == 'typeerror':
            raise TypeError('unsupported operand type(s) for +: int and str (payload %d)' % payload.tid)    # a genuine, data-dependent TypeError
        raise (KeyError if payload.tid % 2 == 0 else ZeroDivisionError)('boom %d' % payload.tid)
    return payload.tid * 10


def _ev(ev, t=0, ts=(), exc=False):
    return {'ev': ev, 't': t, 'ts': list(ts), 'exc': bool(exc)}


def record_run(case):
    """case: {n, raising, workers, branch: process|thread|seq, delays: {tid: ms}, iterable?: generator, entry?: legacy,
    cancel_after?: k, second_loop?: bool} -> trace record for ParProcTrace"""
    import concurrent.futures as cf
    import tatsu.parproc.pmap as pmap_mod
    from tatsu.parproc import parproc
    pp_mod = sys.modules['tatsu.parproc.parproc']        # the attribute of the package is the function
    n, raising, branch = case['n'], set(case['raising']), case['branch']
    delays = {int(k): v for k, v in case.get('delays', {}).items()}
    events, tid_of = [], {}
    real_ppe, real_tpe, real_asc = cf.ProcessPoolExecutor, cf.ThreadPoolExecutor, pmap_mod.as_completed

    class RecMixin:
        def submit(self, fn, task, *a, **kw):
            f = super().submit(fn, task, *a, **kw)
            tid_of[f] = task.payload.tid
            events.append(_ev('submit', t=task.payload.tid))
            return f

    class RecProcessPool(RecMixin, real_ppe):
        pass

    class RecThreadPool(RecMixin, real_tpe):
        pass

    def rec_as_completed(fs, timeout=None):
        def gen():
            events.append(_ev('snapshot', ts=sorted(tid_of[f] for f in list(fs))))
            for f in real_asc(fs, timeout):
                events.append(_ev('observe', t=tid_of[f]))
                yield f
            events.append(_ev('forend'))
        return gen()

    # declared exception classes: even payloads declare the superclass of what they raise, odd ones declare nothing
    mk = visual_payload if case.get('payload_kind') == 'visual' else Payload
    payloads = [mk(t, (LookupError,) if t % 2 == 0 else ()) for t in range(1, n + 1)]
    saved = (pmap_mod.HAS_MULTITHREADING_SUPPORT, pp_mod.HAS_MULTITHREADING_SUPPORT)
    cf.ProcessPoolExecutor, cf.ThreadPoolExecutor, pmap_mod.as_completed = RecProcessPool, RecThreadPool, rec_as_completed
    if branch == 'thread':
        pmap_mod.HAS_MULTITHREADING_SUPPORT = pp_mod.HAS_MULTITHREADING_SUPPORT = True
    err = None
    try:
        try:
            if case.get('prelude') == 'typeerror':
                # an earlier, complete run in this interpreter (sequential, not recorded) in which the function raised a TypeError for one
                # visual payload
                list(parproc(_work, [visual_payload(50 + t) for t in range(1, 4)], {52}, {}, 'typeerror', parallel=False))
            source = (p for p in payloads) if case.get('iterable') == 'generator' else payloads     # any iterable of payloads
            kw = {'parallel': branch != 'seq', 'max_workers': case['workers']}
            if case.get('entry') == 'legacy':
                from tatsu.parproc import parallel_proc
                loop = parallel_proc(source, _work, raising, delays, case.get('exc_kind', 'plain'), **kw)
            else:
                loop = parproc(_work, source, raising, delays, case.get('exc_kind', 'plain'), **kw)
            other = None
            if case.get('second_loop'):
                # another call of parproc() is alive at the same time (its events are not recorded): it is started first, advanced
                # by one result, and cancelled by ITS consumer after this loop's first result - which must not concern this loop
                saved_rec = (cf.ProcessPoolExecutor, cf.ThreadPoolExecutor, pmap_mod.as_completed)
                cf.ProcessPoolExecutor, cf.ThreadPoolExecutor, pmap_mod.as_completed = real_ppe, real_tpe, real_asc
                try:
                    other = parproc(_work, [Payload(100 + t) for t in range(1, 5)], set(), {}, parallel=True, max_workers=2)
                    other_first = next(other)
                finally:
                    cf.ProcessPoolExecutor, cf.ThreadPoolExecutor, pmap_mod.as_completed = saved_rec
            nres = 0
            for res in loop:
                nres += 1
                events.append(_ev('yield', t=res.payload.tid, exc=res.exception is not None))
                if other is not None and nres == 1:
                    other_first.stop.set()
                    other.close()
                if case.get('cancel_after') == nres:
                    res.stop.set()                       # the stop event every Result carries
                    events.append(_ev('cancel'))
                if case.get('consumer_delay'):
                    time.sleep(case['consumer_delay'] / 1000.0)
            events.append(_ev('end'))
        except BaseException as e:  # noqa: BLE001
            import traceback
            err = f'{type(e).__name__}: {e}'
            tb = traceback.format_exc()[-3000:]
            events.append(_ev('raised'))
    finally:
        cf.ProcessPoolExecutor, cf.ThreadPoolExecutor, pmap_mod.as_completed = real_ppe, real_tpe, real_asc
        pmap_mod.HAS_MULTITHREADING_SUPPORT, pp_mod.HAS_MULTITHREADING_SUPPORT = saved
    mode = 'single' if n == 1 else {'process': 'window', 'thread': 'all', 'seq': 'seq'}[branch]
    rec = {'mode': mode, 'raises': sorted(raising), 'ev': events, 'nt': n,
           'window': 1 + case['workers'] if mode == 'window' else 2, '_case': case}
    if err:
        rec['_error'] = err
        rec['_traceback'] = tb
    return rec


def main(argv):
    cases = json.load(open(argv[1]))
    json.dump([record_run(c) for c in cases], open(argv[2], 'w'))


if __name__ == '__main__':
    main(sys.argv)
