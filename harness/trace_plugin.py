"""pytest plugin (and plain library) that records every parse performed through ParseContext as a trace record for spec/PegTrace.tla.

    TATSU_VERIF=1 VERIF_TRACE_OUT=<file.jsonl> PYTHONPATH=/verif python -m pytest -p harness.trace_plugin tests/...

Every parse context gets a recording Tracer (public protocol of tatsu/contexts/tracing.py; installed by wrapping
ParserCore.update_tracer, which the engine calls at the start and at the end of every parse).  At the first rule entry the grammar the
context really runs, the effective configuration and the text are projected (harness/frompeg.py); at the end of the parse the record is
appended to the output file.  Parses the machine does not model are written as {"skip": feature} lines."""
from __future__ import annotations

import json
import os

_state = {'installed': False, 'n': 0}


def _out():
    return os.environ.get('VERIF_TRACE_OUT')


def install():
    if _state['installed']:
        return
    if os.environ.get('TATSU_VERIF') != '1':
        raise RuntimeError('recorders are only installed when TATSU_VERIF=1')
    from tatsu.contexts import core
    from tatsu.contexts.tracing import NullTracer
    from .frompeg import Unsupported, boot_rules, finish_tables, project
    from .recorder import proj
    if os.environ.get('VERIF_TRACE_BOOT', '1') == '1':
        boot_rules()          # compiled before any recorder is installed

    class Rec(NullTracer):
        def __init__(self, ctx):
            self.ctx = ctx
            self.events = []
            self.head = None
            self.skip = None
            self.keep = []
            self.patpos = set()
            self.start = None

        def _first(self, ctx):
            if self.head is None and self.skip is None:
                try:
                    self.head = project(ctx)
                    self.start = ctx.callstack[-1].name
                except Unsupported as e:
                    self.skip = str(e)
                except Exception as e:  # noqa: BLE001
                    self.skip = f'projection failed: {type(e).__name__}: {e}'[:200]

        def trace_entry(self, ctx):
            self._first(ctx)
            if self.skip is None:
                self.events.append({'ev': 'enter', 'rule': ctx.callstack[-1].name, 'pos': ctx.pos})

        def trace_success(self, ctx):
            if self.skip is None:
                self.events.append({'ev': 'ok', 'rule': ctx.callstack[-1].name, 'pos': ctx.pos, 'v': proj(ctx.last_node)})

        def trace_failure(self, ctx, ex=None):
            if self.skip is None:
                self.events.append({'ev': 'fail', 'rule': ctx.callstack[-1].name, 'pos': ctx.pos})

        def trace_cut(self, ctx):
            if self.skip is None:
                self.events.append({'ev': 'cut', 'pos': ctx.pos})

        def trace_match(self, ctx, token, name=None, failed=False):
            if self.skip is None:
                self.events.append({'ev': 'match', 'ok': not failed, 'pos': ctx.pos, 'kind': 'm'})

    def flush(rec):
        out = _out()
        if not out or (rec.head is None and rec.skip is None):
            return
        _state['n'] += 1
        src = os.environ.get('PYTEST_CURRENT_TEST', '')
        if rec.skip is not None:
            line = {'skip': rec.skip, 'src': src}
        else:
            evs = []
            for e in rec.events:
                e = dict(e)
                e.setdefault('rule', '')
                e.setdefault('ok', True)
                e.setdefault('kind', '')
                e.setdefault('v', {'t': 'n'})
                e.setdefault('arg', {'t': 'n'})
                evs.append(e)
            last = evs[-1] if evs else None
            if not last or last['rule'] != rec.start or last['ev'] not in ('ok', 'fail'):
                line = {'skip': 'parse aborted by a foreign exception (trace has no final outcome event)', 'src': src}
            else:
                finish_tables(rec.head, rec.patpos)
                line = dict(rec.head, start=rec.start, ok=last['ev'] == 'ok', ev=evs, src=src)
        with open(out, 'a') as f:
            f.write(json.dumps(line) + '\n')

    from tatsu.contexts import engine as _engine
    from tatsu.exceptions import FailedSemantics
    orig_sem = _engine.ParserEngine.semantics_call

    def semantics_call(self, ri, node, pos):
        rec = getattr(self, 'tracer', None)
        if not isinstance(rec, Rec) or rec.skip is not None or self.config.semantics is None:
            return orig_sem(self, ri, node, pos)
        if ri.is_name:
            self.validate_is_not_keyword(node)          # raises KeywordError before the action is reached: no act event
        arg = proj(node)
        try:
            res = orig_sem(self, ri, node, pos)
        except FailedSemantics:
            rec.events.append({'ev': 'act', 'rule': ri.name, 'pos': pos, 'ok': False, 'arg': arg})
            raise
        rec.events.append({'ev': 'act', 'rule': ri.name, 'pos': pos, 'ok': True, 'arg': arg, 'v': proj(res)})
        rec.keep.append(res)                            # keep action results alive: identities are part of the trace
        return res
    _engine.ParserEngine.semantics_call = semantics_call
    from tatsu.contexts import context as _context
    orig_pat = _context.ParseContext.pattern

    def pattern(self, pattern):
        rec = getattr(self, 'tracer', None)
        if isinstance(rec, Rec):
            rec.patpos.add(self.pos)           # where regexes are tried: the rows of the oracle table (not an event)
        return orig_pat(self, pattern)
    _context.ParseContext.pattern = pattern
    _context.ParseContext._pattern = pattern
    orig_const = _engine.ParserEngine.constant

    def constant(self, literal, capture=True):
        rec = getattr(self, 'tracer', None)
        if not isinstance(rec, Rec) or rec.skip is not None or not isinstance(literal, str):
            return orig_const(self, literal, capture)
        try:
            res = orig_const(self, literal, capture)
        except FailedSemantics:
            rec.events.append({'ev': 'const', 'pos': self.pos, 'ok': False})
            raise
        rec.events.append({'ev': 'const', 'pos': self.pos, 'ok': True, 'v': proj(res)})
        return res
    _engine.ParserEngine.constant = constant
    _engine.ParserEngine._constant = constant          # the alias generated parsers call

    orig = core.ParserCore.update_tracer

    def update_tracer(self):
        old = getattr(self, 'tracer', None)
        if isinstance(old, Rec):
            try:
                flush(old)
            except Exception as e:  # noqa: BLE001
                with open(_out() or os.devnull, 'a') as f:
                    f.write(json.dumps({'skip': f'flush failed: {type(e).__name__}: {e}'[:200]}) + '\n')
        self.tracer = Rec(self)
        return self.tracer
    core.ParserCore.update_tracer = update_tracer
    _state['installed'] = True
    _state['orig'] = orig


def pytest_configure(config):
    if _out():
        install()
