"""Code side of C07: parse with model building (asmodel=True, ModelBuilderSemantics(), classes from the generated model module) and project
the resulting object tree; check children/parent and the walkers on the real objects."""
from __future__ import annotations


def proj(x):
    """Real value -> comparable projection (same form as absgrammar.unval for 'o' values)."""
    from tatsu.objectmodel import Node
    if isinstance(x, Node):
        cls = type(x)
        mro = [c.__name__ for c in cls.__mro__]
        skip = {'ctx', 'parseinfo', '_parent_ref'}
        attrs = {}
        for k, v in vars(x).items():
            if k in skip or k.startswith('_'):
                continue
            if k == 'ast' and v is None:
                continue
            attrs[k] = proj(v)
        # attributes declared by generated dataclasses that were never set stay None and are part of the tree
        pi = getattr(x, 'parseinfo', None)
        return {'__node__': cls.__name__, 'mro': mro, 'attrs': attrs,
                'pi': None if pi is None else [pi.rule, pi.pos, pi.endpos, pi.line]}
    if isinstance(x, dict):
        d = {k: proj(v) for k, v in x.items() if k not in ('parseinfo', '__parseinfo__')}
        pi = x.get('parseinfo') if hasattr(x, 'get') else None
        if pi is not None and hasattr(pi, 'rule'):
            d['__pi__'] = [pi.rule, pi.pos, pi.endpos, pi.line]
        return d
    if x == () and isinstance(x, tuple):
        return ('()',)
    if isinstance(x, (list, tuple)):
        return [proj(v) for v in x]
    if isinstance(x, (str, int, bool, float)) or x is None:
        return x
    return repr(x)


def nodes_in(x, cross=False):
    """Nodes reachable from value x through lists/dicts without crossing another node (cross=True: all descendants)."""
    from tatsu.objectmodel import Node
    out = []
    if isinstance(x, Node):
        out.append(x)
        if cross:
            for k, v in vars(x).items():
                if not k.startswith('_') and k not in ('ctx', 'parseinfo'):
                    out += nodes_in(v, True)
        return out
    if isinstance(x, dict):
        for k, v in x.items():
            if not str(k).startswith('_'):
                out += nodes_in(v, cross)
    elif isinstance(x, (list, tuple)):
        for v in x:
            out += nodes_in(v, cross)
    return out


def check_navigation(root):
    """children()/parent and the three walkers on a real tree -> list of problems."""
    from tatsu.objectmodel import Node
    from tatsu.walkers import BreadthFirstWalker, DepthFirstWalker, PostOrderDepthFirstWalker
    bad = []
    if not isinstance(root, Node):
        return bad
    alln = list({id(x): x for x in nodes_in(root, True)}.values())
    # straight after the parse, before anything has asked a node for its children: every stored node names its holder as parent
    lazy = 0
    for n in alln:
        for k, v in vars(n).items():
            if not k.startswith('_') and k not in ('ctx', 'parseinfo'):
                for c in nodes_in(v):
                    if c.parent is not n:
                        lazy += 1
    if lazy:
        bad.append('LAZY-PARENT: straight after the parse stored nodes do not name their holder as parent (.parent is None until children() of '
                   'the holder has been called)')
    for n in alln:
        want, seen_ids = [], set()
        for k, v in vars(n).items():
            if not k.startswith('_') and k not in ('ctx', 'parseinfo'):
                for c in nodes_in(v):
                    if id(c) not in seen_ids:
                        seen_ids.add(id(c))
                        want.append(c)
        got = list(n.children())
        if sorted(map(id, got)) != sorted(map(id, want)):
            bad.append(f'{type(n).__name__}.children() = {[type(c).__name__ for c in got]}, nodes stored in its attributes: '
                       f'{[type(c).__name__ for c in want]}')
        for c in want:
            if c.parent is not n:
                bad.append(f'{type(c).__name__}.parent is {type(c.parent).__name__ if c.parent is not None else None}, it is stored in {type(n).__name__}')
    for W in (DepthFirstWalker, BreadthFirstWalker, PostOrderDepthFirstWalker):
        seen = []

        class V(W):
            def walk_Node(self, node, *a, **k):
                seen.append(node)
                return node
        try:
            V().walk(root)
        except Exception as e:  # noqa: BLE001
            bad.append(f'{W.__name__} raised {type(e).__name__}: {e}')
            continue
        if sorted(map(id, seen)) != sorted(map(id, alln)):
            bad.append(f'{W.__name__} visited {len(seen)} nodes {[type(c).__name__ for c in seen]}, the tree has {len(alln)}')
    # one walker OBJECT used again: after a complete walk, and after a walk that one of its methods aborted with an exception half way -
    # "the tree walkers reach every node" holds for every walk, not only for the first walk of a fresh object
    for W in (DepthFirstWalker, BreadthFirstWalker, PostOrderDepthFirstWalker):
        seen, state = [], {'abort_at': 0, 'n': 0}

        class Boom(Exception):
            pass

        class R(W):
            def walk_Node(self, node, *a, **k):
                state['n'] += 1
                if state['abort_at'] and state['n'] == state['abort_at']:
                    raise Boom()
                seen.append(node)
                return node
        w = R()
        for label, abort_at in (('a first complete walk', 0), ('a walk aborted by an exception at its 2nd node', 2), ('a walk aborted at its 1st node', 1)):
            state.update(abort_at=abort_at, n=0)
            try:
                w.walk(root)
            except Boom:
                pass
            except Exception as e:  # noqa: BLE001
                bad.append(f'{W.__name__} ({label}) raised {type(e).__name__}: {e}')
            seen.clear()
            state.update(abort_at=0, n=0)
            try:
                w.walk(root)
            except Exception as e:  # noqa: BLE001
                bad.append(f'{W.__name__}: the same walker object used again after {label} raised {type(e).__name__}: {e}')
                continue
            if sorted(map(id, seen)) != sorted(map(id, alln)):
                bad.append(f'{W.__name__}: the same walker object used again after {label} visited {len(seen)} nodes, the tree has {len(alln)}')
    # dispatch: a walker method named after a node's class (or the nearest base class that has one) receives the node - also in a
    # walker SUBCLASS defined after its parent class has already walked such nodes
    names = sorted({type(n).__name__ for n in alln})
    log = []

    class P(DepthFirstWalker):
        def walk_Node(self, node, *a, **k):
            log.append(('Node', type(node).__name__))
            return node
    try:
        P().walk(root)
        log.clear()
        S = type('S', (P,), {f'walk_{nm}': (lambda nm: lambda self, node, *a, **k: log.append((nm, type(node).__name__)) or node)(nm)
                             for nm in names})
        S().walk(root)
        wrong = [(m, c) for m, c in log if m != c]
        if wrong or sorted(c for _m, c in log) != sorted(type(n).__name__ for n in alln):
            bad.append(f'walker subclass defined after its parent walked the tree: nodes dispatched to {wrong[:4]} '
                       f'({len(log)} calls for {len(alln)} nodes)')
    except Exception as e:  # noqa: BLE001
        bad.append(f'walker subclass dispatch raised {type(e).__name__}: {e}')
    return bad


def run_obj_case(case):
    """{ebnf, texts} -> per text: plain AST, synthesized tree (asmodel=True), ModelBuilderSemantics(), generated-module tree, navigation problems."""
    import tatsu
    from tatsu.semantics import ModelBuilderSemantics
    from .impl import clear_caches, outcome
    clear_caches()
    out = {'res': []}
    try:
        plain = tatsu.compile(case['ebnf'])
        model = tatsu.compile(case['ebnf'], asmodel=True)
        src = tatsu.to_python_model(case['ebnf'], name='Gen')
        import sys
        import types
        mod = types.ModuleType('genmodel_' + str(abs(hash(case['ebnf']))))
        sys.modules[mod.__name__] = mod
        ns = mod.__dict__
        exec(compile(src, '<model>', 'exec'), ns)
        gensem = [v for k, v in ns.items() if k.endswith('ModelBuilderSemantics') and isinstance(v, type) and v.__module__ == ns['__name__']]
        # after the synthesized-class model was compiled: the same grammar compiled against the generated module's classes
        typed = tatsu.compile(case['ebnf'], typedefs=[mod])
        # hand-written model classes in the style of docs/mini-tutorial.rst: Node subclasses that declare their attributes as plain
        # class attributes
        from tatsu.objectmodel import Node
        cmod = types.ModuleType('classic_' + str(abs(hash(case['ebnf']))))
        sys.modules[cmod.__name__] = cmod
        classic = {}
        for cname, bases, attrs in case.get('classes') or []:
            chain = [cname, *bases]                      # name::T::Base::Top : T(Base), Base(Top), Top(Node)
            for i in range(len(chain) - 1, -1, -1):
                nm = chain[i]
                if nm not in classic:
                    parent = classic[chain[i + 1]] if i + 1 < len(chain) else Node
                    classic[nm] = type(nm, (parent,), {'__module__': cmod.__name__})
            for a in attrs:
                setattr(classic[cname], a, None)
        for k2, v2 in classic.items():
            setattr(cmod, k2, v2)
        out['compile'] = {'k': 'ok'}
    except Exception as e:  # noqa: BLE001
        import traceback
        out['compile'] = {'k': 'exc', 'cls': type(e).__name__, 'msg': str(e)[:300], 'tb': traceback.format_exc()[-600:]}
        return out
    for text in case['texts']:
        r = {}
        r['plain'] = outcome(lambda: plain.parse(text, **case.get('settings', {})))
        for how, fn in (('asmodel', lambda: model.parse(text, **case.get('settings', {}))),
                        ('builder', lambda: plain.parse(text, semantics=ModelBuilderSemantics(), **case.get('settings', {}))),
                        ('generated', lambda: plain.parse(text, semantics=gensem[-1](), **case.get('settings', {}))),
                        ('typedefs', lambda: typed.parse(text, **case.get('settings', {}))),
                        *([('classic', lambda: plain.parse(text, semantics=ModelBuilderSemantics(constructors=list(classic.values())),
                                                           **case.get('settings', {})))] if classic else [])):
            try:
                v = fn()
                r[how] = {'k': 'ok', 'v': proj(v), 'nav': check_navigation(v)}
                if how in ('generated', 'typedefs'):
                    foreign = sorted({f'{type(n).__module__}.{type(n).__name__}' for n in nodes_in(v, True) if type(n).__module__ != mod.__name__})
                    if foreign:
                        r[how]['nav'].append(f'nodes are not instances of the generated model module classes: {foreign}')
                if case.get('parseinfo'):
                    r[how]['pi'] = [[type(n).__name__, n.parseinfo.rule, n.parseinfo.pos, n.parseinfo.endpos, n.parseinfo.line]
                                    if n.parseinfo is not None else [type(n).__name__, None]
                                    for n in nodes_in(v, True)]
            except tatsu.exceptions.FailedParse as e:
                r[how] = {'k': 'fail', 'cls': type(e).__name__}
            except Exception as e:  # noqa: BLE001
                r[how] = {'k': 'exc', 'cls': type(e).__name__, 'msg': str(e)[:200]}
        out['res'].append(r)
    return out
