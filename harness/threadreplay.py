"""Spec -> code for the thread clause of C10: force a behaviour of spec/ThreadShare.tla (an interleaving of the shared-state steps
of N threads that parse with ONE freshly compiled asmodel model) onto the real code and compare the abstract state after every
action.

No source hook: the yield points are wrappers installed from here around names the code looks up at call time -
    optEntry   Grammar.optimized                      (method)            before `_optimized` is read
    optLock    tatsu.peg.base._OPTIMIZED_LOCK         (module global)     before the lock is acquired
    optBuild   the same proxy, after acquiring        (holding the lock, the cache still empty: the code is about to build)
    find       ModelBuilder._find_existing_constructor (method)           before the builder's registry is read
    lookup     tatsu.objectmodel.builder.synthesize   (module global)     before the module registry is read
    create     tatsu.objectmodel.synth.types.new_class (module attribute) after the lookup missed, before the class exists
    register   ModelBuilder._register_constructor     (method)            before the conflict check and the store
A scheduled thread blocks at every point until the scheduler (the caller's thread) lets it run to its next point; one
specification action of thread t = one such run.  Threads that are not scheduled (compilation in the main thread) pass through."""
from __future__ import annotations

import threading
import types as _types

_LOCAL = threading.local()


class Sched:
    def __init__(self):
        self.go, self.at, self.fin = {}, {}, {}
        self.cv = threading.Condition()

    def register(self, t):
        _LOCAL.tid = t
        _LOCAL.sched = self
        self.go[t] = threading.Semaphore(0)

    def point(self, name):
        t = getattr(_LOCAL, 'tid', None)
        if t is None or getattr(_LOCAL, 'sched', None) is not self:
            return
        with self.cv:
            self.at[t] = name
            self.cv.notify_all()
        self.go[t].acquire()

    def finish(self, t, how):
        with self.cv:
            self.at[t] = how
            self.fin[t] = True
            self.cv.notify_all()

    def wait_at(self, t, timeout=10.0):
        with self.cv:
            ok = self.cv.wait_for(lambda: t in self.at, timeout)
            return self.at.get(t) if ok else None

    def step(self, t, timeout=10.0):
        """let thread t run from its current point to its next one (or to its end); None = it did not get there"""
        if self.fin.get(t):
            return None
        with self.cv:
            self.at.pop(t, None)
        self.go[t].release()
        return self.wait_at(t, timeout)

    def release_all(self):
        for t, s in self.go.items():
            for _ in range(1000):
                s.release()


GRAMMARS = {
    'W2': ("start = x $ ;\nx::{X} = 'a' ;\n", 'a', ['X', 'X']),
    'W4': ("start = x y $ ;\nx::{X} = 'a' ;\ny::{Y} = 'b' ;\n", 'a b', ['X', 'X', 'Y', 'Y']),
    'W3b': ("start = x $ ;\nx::{X}::{B} = 'a' ;\n", 'a', ['B', 'X', 'X']),
}


def _install(sched, model_holder, created, used):
    """wrappers around the real functions; returns an undo function"""
    import tatsu.peg.base as base
    import tatsu.objectmodel.builder as bmod
    import tatsu.objectmodel.synth as synth
    real_opt, real_lock = base.Grammar.optimized, base._OPTIMIZED_LOCK
    real_find, real_reg = bmod.ModelBuilder._find_existing_constructor, bmod.ModelBuilder._register_constructor
    real_get, real_synth, real_types = bmod.ModelBuilder._get_constructor, bmod.synthesize, synth.types

    def optimized(self):
        if getattr(_LOCAL, 'tid', None) is not None and self is model_holder['model']:
            sched.point('optEntry')
        return real_opt(self)

    class LockProxy:
        def __enter__(self):
            sched.point('optLock')
            real_lock.acquire()
            if getattr(_LOCAL, 'tid', None) is not None and not isinstance(model_holder['model']._optimized, base.Grammar):
                sched.point('optBuild')
            return self

        def __exit__(self, *a):
            real_lock.release()
            return False

        def acquire(self, *a, **kw):
            return real_lock.acquire(*a, **kw)

        def release(self):
            return real_lock.release()

    def find(self, typename):
        if typename in model_holder['names']:
            sched.point('find')
        return real_find(self, typename)

    def synthesize(name, bases, **kw):
        if name in model_holder['names']:
            sched.point('lookup')
        return real_synth(name, bases, **kw)

    class TypesProxy:
        def __getattr__(self, k):
            return getattr(_types, k)

        def new_class(self, name, *a, **kw):
            if name in model_holder['names']:
                sched.point('create')
            c = _types.new_class(name, *a, **kw)
            if name in model_holder['names']:
                created.append(c)
            return c

    def register(self, constructor):
        if getattr(constructor, '__name__', None) in model_holder['names']:
            sched.point('register')
        return real_reg(self, constructor)

    def get_constructor(self, typename, base, **args):
        c = real_get(self, typename, base, **args)
        t = getattr(_LOCAL, 'tid', None)
        if t is not None and typename in model_holder['names']:
            used.setdefault(t, []).append((typename, c))
        return c

    base.Grammar.optimized, base._OPTIMIZED_LOCK = optimized, LockProxy()
    bmod.ModelBuilder._find_existing_constructor, bmod.ModelBuilder._register_constructor = find, register
    bmod.ModelBuilder._get_constructor, bmod.synthesize, synth.types = get_constructor, synthesize, TypesProxy()

    def undo():
        base.Grammar.optimized, base._OPTIMIZED_LOCK = real_opt, real_lock
        bmod.ModelBuilder._find_existing_constructor, bmod.ModelBuilder._register_constructor = real_find, real_reg
        bmod.ModelBuilder._get_constructor, bmod.synthesize, synth.types = real_get, real_synth, real_types
    return undo


_COUNTER = [0]


def replay_threads(case):
    """case: {work: 'W2'|'W4'|'W3b', nthreads, path: [[action, state], ...], init: state}
    -> {'ok': bool, 'why': str, 'steps': n, 'responses': {...}}"""
    import os
    import tatsu
    import tatsu.peg.base as base
    import tatsu.objectmodel.synth as synth
    from .dotgraph import split_action
    _COUNTER[0] += 1
    uniq = f'{os.getpid()}x{_COUNTER[0]}'
    gtext, text, work = GRAMMARS[case['work']]
    real = {a: f'{a}v{uniq}' for a in set(work)}                       # fresh type names: a cold registry for every behaviour
    abstract = {v: k for k, v in real.items()}
    grammar = gtext.format(**real)
    threads = list(range(1, case['nthreads'] + 1))
    sched, created, used = Sched(), [], {}
    holder = {'model': None, 'names': set(real.values())}
    undo = _install(sched, holder, created, used)
    results = {}
    try:
        model = tatsu.compile(grammar, asmodel=True)
        holder['model'] = model

        def body(t):
            sched.register(t)
            try:
                r = model.parse(text)
                results[t] = ('ok', r)
                sched.finish(t, 'done')
            except Exception as e:  # noqa: BLE001
                results[t] = ('raised', f'{type(e).__name__}: {str(e)[:160]}')
                sched.finish(t, 'error' if type(e).__name__ == 'TypeResolutionError' else f'crash:{type(e).__name__}')

        ths = [threading.Thread(target=body, args=(t,), daemon=True) for t in threads]
        for th in ths:
            th.start()
        for t in threads:
            if sched.wait_at(t) != 'optEntry':
                return {'ok': False, 'why': f'thread {t} did not reach the entry of Grammar.optimized(): {sched.at.get(t)!r}', 'steps': 0}

        def cid(c):
            return 0 if c is None else (created.index(c) + 1 if c in created else -1)

        def observe():
            breg = model.semantics._builder._registry if hasattr(model.semantics, '_builder') else {}
            return {'opt': 'ready' if isinstance(model._optimized, base.Grammar) else 'none',
                    'synthReg': {a: cid(vars(synth).get(rn)) for a, rn in real.items()},
                    'bldReg': {a: cid(breg.get(rn)) for a, rn in real.items()},
                    'ncls': len(created),
                    'pc': [sched.at.get(t) for t in threads],
                    'used': [[[abstract[n], cid(c)] for n, c in used.get(t, [])] for t in threads]}

        def spec_view(st):
            return {'opt': st['opt'], 'synthReg': dict(st['synthReg']), 'bldReg': dict(st['bldReg']), 'ncls': st['ncls'],
                    'pc': list(st['pc']), 'used': [[list(x) for x in u] for u in st['used']]}

        got = observe()
        if got != spec_view(case['init']):
            return {'ok': False, 'why': f'initial state: implementation {got}, specification {spec_view(case["init"])}', 'steps': 0}
        n = 0
        for action, st in case['path']:
            name, args = split_action(action)
            if name == 'Next' or not args:          # the final stuttering disjunct
                continue
            t = args[0]
            arrived = sched.step(t)
            n += 1
            if arrived is None:
                return {'ok': False, 'steps': n, 'why': f'{action}: thread {t} did not reach its next step within the time limit '
                                                         f'(blocked or lost); implementation state {observe()}'}
            got, want = observe(), spec_view(st)
            if got != want:
                diff = {k: {'implementation': got[k], 'specification': want[k]} for k in got if got[k] != want[k]}
                return {'ok': False, 'steps': n, 'why': f'after {action}: ' + '; '.join(
                    f'{k}: implementation {v["implementation"]}, specification {v["specification"]}' for k, v in diff.items()),
                    'responses': {t2: (r[0] if r[0] == 'ok' else r[1]) for t2, r in results.items()}}
        # a finished thread's response: every node of a type is an instance of the one class the specification says
        final = case['path'][-1][1] if case['path'] else case['init']
        for i, t in enumerate(threads):
            if final['pc'][i] == 'done' and results.get(t, ('', ''))[0] != 'ok':
                return {'ok': False, 'steps': n, 'why': f'thread {t}: specification done, implementation {results.get(t)}'}
        return {'ok': True, 'steps': n, 'responses': {t: r[0] for t, r in results.items()}}
    finally:
        sched.release_all()
        undo()


def dry_run(workname):
    """machinery self-check: the points ONE scheduled thread passes, in order (must be the specification's sequential behaviour)"""
    case = {'work': workname, 'nthreads': 1, 'path': [], 'init': None}
    import os
    import tatsu
    _COUNTER[0] += 1
    uniq = f'{os.getpid()}d{_COUNTER[0]}'
    gtext, text, work = GRAMMARS[workname]
    real = {a: f'{a}v{uniq}' for a in set(work)}
    sched, created, used = Sched(), [], {}
    holder = {'model': None, 'names': set(real.values())}
    undo = _install(sched, holder, created, used)
    seq = []
    try:
        model = tatsu.compile(gtext.format(**real), asmodel=True)
        holder['model'] = model

        def body():
            sched.register(1)
            try:
                model.parse(text)
                sched.finish(1, 'done')
            except Exception as e:  # noqa: BLE001
                sched.finish(1, f'crash:{type(e).__name__}: {e}')
        th = threading.Thread(target=body, daemon=True)
        th.start()
        p = sched.wait_at(1)
        while p is not None:
            seq.append(p)
            if sched.fin.get(1):
                break
            p = sched.step(1)
        return seq
    finally:
        sched.release_all()
        undo()
