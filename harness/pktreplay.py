"""Spec -> code for C19: codec points and queue behaviours of spec/PacketQueue.tla replayed on real PacketzQueue objects
over real files (inside a scratch directory that is also the working directory: the package creates ./.packetz)."""
from __future__ import annotations

import os
import shutil
import tempfile

CH = {'n': '\n', '~': '~', 'a': 'a', '1': '1', 'B': '\\', 'e': 'e', 'E': '\x1b', 'q': '"', '@': '@', ':': ':', '_': '_'}


def conc(chars):
    return ''.join(CH.get(c, c) for c in chars)


def run_codec_points(case):
    """case: {'points': [RES records]} -> list of mismatches"""
    from tatsu.packetz.compact import rle_decode, rle_encode
    from tatsu.packetz.packet import Packet, pack, unpack
    bad = []
    for pt in case['points']:
        s = conc(pt['s'] if isinstance(pt['s'], list) else [])
        enc = conc(pt['enc'] if isinstance(pt['enc'], list) else [])
        try:
            e = rle_encode(s)
            if e != enc:
                bad.append({'layer': 'rle_encode', 's': s, 'expected': enc, 'observed': e})
            d = rle_decode(enc)
            if d != s:
                bad.append({'layer': 'rle_decode', 's': s, 'encoded': enc, 'expected': s, 'observed': d})
        except Exception as ex:  # noqa: BLE001
            bad.append({'layer': 'rle', 's': s, 'observed': f'{type(ex).__name__}: {ex}'})
        for kind, data in (('str', s), ('key', {s: 1}), ('item', [s, s])):
            try:
                p = Packet(to='rcpt', data=data)
                u = unpack(pack(p))
                got = (getattr(u, 'to', None), getattr(u, 'data', None), getattr(u, 'id', None))
                ok = got == ('rcpt', data, p.id)
                obs = repr(got[1])[:80]
            except Exception as ex:  # noqa: BLE001
                ok, obs = False, f'{type(ex).__name__}: {str(ex)[:80]}'
            if not ok:
                bad.append({'layer': 'pack/unpack', 'kind': kind, 's': s, 'expected': repr(data), 'observed': obs,
                            'as_coded_ok': bool(pt[kind])})
    return bad


class QueueRig:
    """A queue file plus reader objects; abstract bytes <-> real bytes of the real serialisations."""

    def __init__(self, np_, rl, readers, payloads):
        from tatsu.packetz.packet import Packet, pack
        from tatsu.packetz.queue import PacketzQueue
        self.dir = tempfile.mkdtemp(prefix='pktz-', dir=os.environ.get('VERIF_SCRATCH', None))
        self.cwd = os.getcwd()
        os.chdir(self.dir)
        self.path = os.path.join(self.dir, 'q.jsonl')
        self.rl = rl
        self.packets = [Packet(to=f'r{p}', data=payloads[(p - 1) % len(payloads)]) for p in range(1, np_ + 1)]
        self.ids = {pk.id: i + 1 for i, pk in enumerate(self.packets)}
        self.records = [(pack(pk) + '\n').encode('utf-8') for pk in self.packets]
        open(self.path, 'wb').close()
        self.readers = {r: PacketzQueue(self.path) for r in readers}
        self.written = []          # per record: number of real bytes in the file
        self.corrupted = {}        # record index -> real offset of the flipped byte

    def close(self):
        os.chdir(self.cwd)
        shutil.rmtree(self.dir, ignore_errors=True)

    def real_len(self, j, k):
        """real bytes of record j (1-based) corresponding to k abstract bytes"""
        n = len(self.records[j - 1])
        if k >= self.rl:
            return n
        if k <= 0:
            return 0
        return max(1, min(n - 1, (k * n) // self.rl))

    def content(self, upto_abstract=None):
        """the real file content for an abstract length"""
        out = b''
        total = upto_abstract
        for j, rec in enumerate(self.records, 1):
            k = self.abs_written[j - 1] if j <= len(self.abs_written) else 0
            if total is not None:
                k = min(k, max(0, total - (j - 1) * self.rl))
            r = bytearray(rec[:self.real_len(j, k)])
            if j in self.corrupted and self.corrupted[j] < len(r):
                off = self.corrupted[j]
                # the damaged byte: an ASCII letter, a byte that is never valid UTF-8, or a lead byte without its continuation
                b = (ord('x'), 0xFF, 0xC3)[self.corrupt_kind % 3]
                r[off] = b if r[off] != b else ord('y')
            out += bytes(r)
        return out

    abs_written: list = []
    corrupt_kind = 0


def replay_queue_path(case):
    """case: {np, rl, readers, init, path:[(label, state)], payloads} -> {'ok':..., 'why':...}"""
    from .dotgraph import split_action
    rig = QueueRig(case['np'], case['rl'], case['readers'], case['payloads'])
    rig.abs_written = []
    rig.corrupt_kind = case.get('corrupt_kind', 0)
    step = 0
    try:
        for label, st in case['path']:
            step += 1
            name, args = split_action(label)
            if name == 'SendBegin':
                rig.abs_written.append(0)
            elif name == 'SendChunk':
                rig.abs_written[-1] += args[0]
            elif name == 'Corrupt':
                j, b = args
                n = len(rig.records[j - 1])
                # flip a byte of the data part (never the newline, never the structural hash prefix only)
                rig.corrupted[j] = max(1, min(n - 2, (b * n) // rig.rl))
            elif name == 'Receive':
                r, vis = args
                full = rig.content()
                view = rig.content(upto_abstract=vis)
                with open(rig.path, 'wb') as f:
                    f.write(view)
                try:
                    got = [rig.ids.get(pk.id, f'?{pk.id}') for pk in rig.readers[r].receive()]
                except Exception as e:  # noqa: BLE001
                    return {'ok': False, 'why': f'receive() raised {type(e).__name__}: {e}', 'step': step}
                finally:
                    with open(rig.path, 'wb') as f:
                        f.write(full)
                q = rig.readers[r]
                want_got = list(st['got'][r])
                # delivered so far = previous deliveries + this batch
                case.setdefault('_got', {}).setdefault(r, [])
                case['_got'][r] += got
                if case['_got'][r] != want_got:
                    return {'ok': False, 'why': f'reader {r}: delivered {case["_got"][r]}, specification {want_got}', 'step': step}
                # _told must be the real offset of the abstract line boundary
                want_told = sum(len(rig.records[j]) for j in range(st['told'][r] // rig.rl))
                if q._told != want_told:
                    return {'ok': False, 'why': f'reader {r}: _told={q._told}, specification offset {want_told} '
                                                f'(after {st["told"][r] // rig.rl} records)', 'step': step}
                if sorted(str(rig.ids.get(i, i)) for i in q._seen) != sorted(str(v) for v in st['seen'][r]):
                    return {'ok': False, 'why': f'reader {r}: _seen={sorted(str(rig.ids.get(i, i)) for i in q._seen)}, specification {sorted(st["seen"][r])}',
                            'step': step}
            if name in ('SendBegin', 'SendChunk', 'Corrupt'):
                with open(rig.path, 'wb') as f:
                    f.write(rig.content())
        return {'ok': True, 'steps': step}
    finally:
        rig.close()


def truncation_sweep(case):
    """Every byte offset of the last record: a reader that receives while the file is cut there must deliver exactly the earlier
    records, leave its offset at the last line boundary, and deliver the last record once the file is whole again."""
    from tatsu.packetz.packet import Packet, pack
    from tatsu.packetz.queue import PacketzQueue
    d = tempfile.mkdtemp(prefix='pktz-', dir=os.environ.get('VERIF_SCRATCH', None))
    cwd = os.getcwd()
    os.chdir(d)
    bad = []
    try:
        pks = [Packet(to='r', data=x) for x in case['payloads']]
        recs = [(pack(p) + '\n').encode('utf-8') for p in pks]
        head = b''.join(recs[:-1])
        last = recs[-1]
        path = os.path.join(d, 'q.jsonl')
        for cut in range(0, len(last) + 1):
            open(path, 'wb').write(head + last[:cut])
            q = PacketzQueue(path)
            try:
                first = [p.id for p in q.receive()]
                told1 = q._told
                open(path, 'wb').write(head + last)
                second = [p.id for p in q.receive()]
                third = [p.id for p in q.receive()]
            except Exception as e:  # noqa: BLE001
                bad.append({'cut': cut, 'observed': f'{type(e).__name__}: {e}'})
                continue
            ids = [p.id for p in pks]
            want_first = ids[:-1] if cut < len(last) else ids
            if first != want_first or first + second != ids or third != [] or (cut < len(last) and told1 != len(head)):
                bad.append({'cut': cut, 'of': len(last), 'first': first, 'second': second, 'third': third, 'told': told1,
                            'boundary': len(head), 'ids': ids})
        return {'bad': bad[:5], 'n': len(last) + 1}
    finally:
        os.chdir(cwd)
        shutil.rmtree(d, ignore_errors=True)
