"""Spec -> code conformance for the PEG engine properties: TLC evaluates PegSem on a job file, the real parser is run on
the same cases in worker processes, outcomes are compared case by case."""
from __future__ import annotations

import json
import os
import shutil

from . import tlc
from .absgrammar import chars_of, make_cfg, to_ebnf, unval
from .common import pmap
from .impl import run_model_case


class Jobs:
    """Builder for a PegSemBatch job file with de-duplicated grammars/cfgs/textsets."""

    def __init__(self):
        self.grammars, self.cfgs, self.textsets, self.jobs = [], [], [], []
        self._g, self._c, self._t = {}, {}, {}
        self.meta = []          # per job: free-form (ebnf text, settings, ...)

    def _intern(self, table, index, obj):
        k = json.dumps(obj, sort_keys=True)
        if k not in index:
            table.append(obj)
            index[k] = len(table)
        return index[k]

    def add(self, g, cfg, texts, start='s', **meta):
        j = {'g': self._intern(self.grammars, self._g, g), 'c': self._intern(self.cfgs, self._c, cfg),
             'ts': self._intern(self.textsets, self._t, texts), 'start': start}
        self.jobs.append(j)
        self.meta.append(meta)
        return len(self.jobs)

    def ncases(self):
        return sum(len(self.textsets[j['ts'] - 1]) for j in self.jobs)

    def dump(self, path):
        with open(path, 'w') as f:
            json.dump({'grammars': self.grammars, 'cfgs': self.cfgs, 'textsets': self.textsets, 'jobs': self.jobs}, f)


def run_oracle(jobs: Jobs, module='PegSemBatch', timeout=1800, extra_env=None):
    """-> (TlcResult, {job index (1-based): [result per text]})"""
    d = tlc.scratch_dir('jobs')
    try:
        path = os.path.join(d, 'cases.json')
        jobs.dump(path)
        env = {'VERIF_CASES': path}
        env.update(extra_env or {})
        r = tlc.run_tlc(module, env=env, timeout=timeout)
    finally:
        shutil.rmtree(d, ignore_errors=True)
    out = {}
    for key, v in r.res.items():
        j, t = key.split('.')
        out.setdefault(int(j), {})[int(t)] = v
    want = jobs.ncases()
    got = sum(len(v) for v in out.values())
    if got != want:
        raise tlc.MachineryError(f'{module}: expected {want} RES lines, got {got}\n' + r.stdout[-3000:])
    return r, {j: [v[t] for t in sorted(v)] for j, v in out.items()}


def spec_outcome(res):
    """RES record -> comparable outcome."""
    r = res['r']
    o = {'k': r['k'], 'pos': r['pos'], 'unspec': bool(res.get('u')), 'lr': bool(res.get('lr'))}
    if r['k'] == 'ok':
        o['v'] = unval(r['v'])
    return o


def compare(spec, impl, check_value=True, check_pos=True):
    """-> None if the implementation outcome conforms to the specification outcome, else a short reason."""
    if spec['k'] == 'fuel':
        return None
    p = impl.get('plain') or {}
    w = impl.get('wrapped')
    if p.get('k') == 'exc':
        return f"foreign exception {p.get('cls')}"
    if spec['k'] == 'raise':
        return None if p.get('k') in ('exc', 'raise') else f"spec: action exception propagates; impl: {p.get('k')}"
    if spec['k'] == 'ok':
        if p.get('k') != 'ok':
            return f"spec accepts, impl {p.get('k')}:{p.get('cls')}"
        if check_pos and w is not None:
            if w.get('k') != 'ok':
                return f"spec accepts, wrapped impl {w.get('k')}:{w.get('cls')}"
            if w.get('pos') != spec['pos']:
                return f"end position: spec {spec['pos']} impl {w.get('pos')}"
        if check_value and not spec['unspec']:
            if p['v'] != spec['v']:
                return 'value'
            if w is not None and w.get('k') == 'ok' and w['v'] != spec['v']:
                return 'value (as a callee)'
        return None
    # spec fails
    if p.get('k') == 'ok':
        return 'spec rejects, impl accepts'
    if p.get('k') != 'fail':
        return f"spec rejects with a parse failure, impl {p.get('k')}:{p.get('cls')}"
    return None


def default_case(ebnf, texts, start='s', settings=None, **kw):
    c = {'ebnf': ebnf, 'texts': [''.join(t) for t in texts], 'start': start, 'settings': settings or {}}
    c.update(kw)
    return c


def run_impl(cases, procs=16, chunk=8, fn=run_model_case):
    return pmap(fn, cases, procs=procs, chunk=chunk, recycle=240)
