"""Spec -> code conformance for the PEG engine properties: TLC evaluates PegSem on a job file, the real parser is run on
the same cases in worker processes, outcomes are compared case by case."""
from __future__ import annotations

import json
import os
import shutil

from . import tlc
from .absgrammar import chars_of, make_cfg, to_ebnf, unval
from .common import pmap
from .impl import run_model_case


class Jobs:
    """Builder for a PegSemBatch job file with de-duplicated grammars/cfgs/textsets."""

    def __init__(self):
        self.grammars, self.cfgs, self.textsets, self.jobs = [], [], [], []
        self._g, self._c, self._t = {}, {}, {}
        self.meta = []          # per job: free-form (ebnf text, settings, ...)

    def _intern(self, table, index, obj):
        k = json.dumps(obj, sort_keys=True)
        if k not in index:
            table.append(obj)
            index[k] = len(table)
        return index[k]

    def add(self, g, cfg, texts, start='s', **meta):
        j = {'g': self._intern(self.grammars, self._g, g), 'c': self._intern(self.cfgs, self._c, cfg),
             'ts': self._intern(self.textsets, self._t, texts), 'start': start}
        self.jobs.append(j)
        self.meta.append(meta)
        return len(self.jobs)

    def ncases(self):
        return sum(len(self.textsets[j['ts'] - 1]) for j in self.jobs)

    def dump(self, path):
        with open(path, 'w') as f:
            json.dump({'grammars': self.grammars, 'cfgs': self.cfgs, 'textsets': self.textsets, 'jobs': self.jobs}, f)


def run_oracle(jobs: Jobs, module='PegSemBatch', timeout=1800, extra_env=None):
    """-> (TlcResult, {job index (1-based): [result per text]})"""
    d = tlc.scratch_dir('jobs')
    try:
        path = os.path.join(d, 'cases.json')
        jobs.dump(path)
        env = {'VERIF_CASES': path}
        env.update(extra_env or {})
        r = tlc.run_tlc(module, env=env, timeout=timeout)
    finally:
        shutil.rmtree(d, ignore_errors=True)
    out = {}
    for key, v in r.res.items():
        j, t = key.split('.')
        out.setdefault(int(j), {})[int(t)] = v
    want = jobs.ncases()
    got = sum(len(v) for v in out.values())
    if got != want:
        raise tlc.MachineryError(f'{module}: expected {want} RES lines, got {got}\n' + r.stdout[-3000:])
    return r, {j: [v[t] for t in sorted(v)] for j, v in out.items()}


def spec_outcome(res):
    """RES record -> comparable outcome."""
    r = res['r']
    o = {'k': r['k'], 'pos': r['pos'], 'unspec': bool(res.get('u')), 'lr': bool(res.get('lr'))}
    if res.get('ua'):
        o['k'] = 'fuel'         # acceptance itself is left open by the documents for this grammar (PegGrammar!UnspecifiedAcceptance): no verdict
    if r['k'] == 'ok':
        o['v'] = unval(r['v'])
    return o


def compare(spec, impl, check_value=True, check_pos=True):
    """-> None if the implementation outcome conforms to the specification outcome, else a short reason."""
    if spec['k'] == 'fuel':
        return None
    p = impl.get('plain') or {}
    w = impl.get('wrapped')
    if p.get('k') == 'exc':
        return f"foreign exception {p.get('cls')}"
    if spec['k'] == 'raise':
        return None if p.get('k') in ('exc', 'raise') else f"spec: action exception propagates; impl: {p.get('k')}"
    if spec['k'] == 'ok':
        if p.get('k') != 'ok':
            return f"spec accepts, impl {p.get('k')}:{p.get('cls')}"
        if check_pos and w is not None:
            if w.get('k') != 'ok':
                return f"spec accepts, wrapped impl {w.get('k')}:{w.get('cls')}"
            if w.get('pos') != spec['pos']:
                return f"end position: spec {spec['pos']} impl {w.get('pos')}"
        if check_value and not spec['unspec']:
            if p['v'] != spec['v']:
                return 'value'
            if w is not None and w.get('k') == 'ok' and w['v'] != spec['v']:
                return 'value (as a callee)'
        return None
    # spec fails
    if p.get('k') == 'ok':
        return 'spec rejects, impl accepts'
    if p.get('k') != 'fail':
        return f"spec rejects with a parse failure, impl {p.get('k')}:{p.get('cls')}"
    return None


def default_case(ebnf, texts, start='s', settings=None, **kw):
    c = {'ebnf': ebnf, 'texts': [''.join(t) for t in texts], 'start': start, 'settings': settings or {}}
    c.update(kw)
    return c


def run_impl(cases, procs=16, chunk=8, fn=run_model_case):
    return pmap(fn, cases, procs=procs, chunk=chunk, recycle=240)


def conformance(ck, items, check_value=True, check_pos=True, timeout=3000, classify=None, sample_every=500, impl_fn=run_model_case,
                nontrivial=lambda so: so['k'] == 'ok', also_generated=False):
    """items: dicts {g, texts, start?, cfg (spec cfg kwargs)?, settings (parse kwargs)?, label?, directives?, case (extra case fields)?}.
    Evaluates PegSem on every (item, text), runs the real parser, compares.  classify(item, text, so, ir, why) may return a
    known-finding id (the mismatch is then reported as KNOWN-FINDING if that id is listed) or None (-> VIOLATION).
    Returns the list of mismatches [(item, text, so, ir, why)]."""
    jobs, cases = Jobs(), []
    for it in items:
        ts = it['texts']
        cfg = make_cfg(chars_of(it['g'], ts), **(it.get('cfg') or {}))
        jobs.add(it['g'], cfg, ts, start=it.get('start', 's'))
        ebnf = it.get('ebnf') or to_ebnf(it['g'], directives=it.get('directives'))
        cases.append(default_case(ebnf, ts, start=it.get('start', 's'), settings=it.get('settings'), **(it.get('case') or {})))
    r, spec = run_oracle(jobs, timeout=timeout)
    ck.add_tlc(r, 'PegSemBatch')
    if also_generated:
        from .impl import run_both_case
        impl_fn = run_both_case
    impl = run_impl(cases, fn=impl_fn, chunk=4 if also_generated else 8)
    mism = []
    seen = set()
    n = 0
    for j, (it, c, im) in enumerate(zip(items, cases, impl), 1):
        if im['compile']['k'] != 'ok':
            ck.violation({'kind': 'parse', 'inputs': {'grammar': c['ebnf']}, 'expected': 'grammar compiles',
                          'observed': im['compile'], 'spec': 'PegGrammar'}, key='compile' + c['ebnf'])
            continue
        backends = [('model', im['res'])]
        if also_generated:
            if im['gen']['compile']['k'] != 'ok':
                ck.violation({'kind': 'parse', 'inputs': {'grammar': c['ebnf']}, 'expected': 'generated source is valid Python and loads',
                              'observed': im['gen']['compile']}, key='gencompile' + c['ebnf'])
            else:
                backends.append(('generated', im['gen']['res']))
                for m in im['gen'].get('reuse_mismatch') or []:
                    ck.violation({'kind': 'history', 'inputs': {'grammar': c['ebnf'], **{k2: v for k2, v in m.items() if k2 in ('text', 'settings')}},
                                  'expected': m.get('fresh_object'), 'observed': m.get('reused_object'),
                                  'why': 'a generated parser object used before behaves differently from a fresh one'},
                                 key='reuse' + c['ebnf'])
        for backend, results in backends:
          for t, (s, ir) in enumerate(zip(spec[j], results)):
            so = spec_outcome(s)
            n += 1
            ck.count(evaluations=1, traces=1)
            if nontrivial(so):
                seen.add((c['ebnf'], json.dumps(c['settings'], sort_keys=True, default=str), repr(so.get('v')), so['pos']))
            why = compare(so, ir, check_value=check_value, check_pos=check_pos)
            if n % sample_every == 1:
                ck.sample({'label': it.get('label'), 'grammar': c['ebnf'], 'settings': c['settings'], 'text': c['texts'][t],
                           'spec': so, 'impl': ir})
            if not why:
                continue
            mism.append((it, c['texts'][t], so, ir, why))
            kf = classify(it, c['texts'][t], so, ir, why) if classify else None
            if kf and ck.known(kf, f"{c['ebnf'].strip()} on {c['texts'][t]!r}: {why}"):
                continue
            ck.violation({'kind': 'parse', 'inputs': {'grammar': c['ebnf'], 'text': c['texts'][t], 'start': c['start'],
                                                      'settings': c['settings'], 'label': it.get('label'), 'backend': backend},
                          'expected': so, 'observed': ir, 'why': why, 'spec': 'PegSem!Parse'},
                         key=c['ebnf'] + why.split(':')[0] + backend)
    ck.cov['distinct_nontrivial'] += len(seen)
    return mism


def read_marks_case(case):
    """compile the grammar texts and read back the left-recursion marks the code computed (Rule.is_lrec / is_memo)"""
    import tatsu
    from .impl import clear_caches
    out = []
    for ebnf in case['ebnfs']:
        clear_caches()
        try:
            m = tatsu.compile(ebnf)
            out.append({r.name: [bool(r.is_lrec), bool(r.is_memo and not r.no_memo)] for r in m.rules})
        except Exception as e:  # noqa: BLE001
            out.append({'__error__': f'{type(e).__name__}: {e}'[:120]})
    return out


def with_marks(grammars):
    """-> the same abstract grammars with lrec/memo set to the marks of the real analysis"""
    import copy
    ebnfs = [to_ebnf(g) for g in grammars]
    res = [x for ch in pmap(read_marks_case, [{'ebnfs': ebnfs[i:i + 30]} for i in range(0, len(ebnfs), 30)], procs=16, chunk=1, recycle=10) for x in ch]
    out = []
    for g, marks in zip(grammars, res):
        g2 = copy.deepcopy(g)
        for r in g2['rules']:
            if r['name'] in marks:
                r['lrec'], r['memo'] = marks[r['name']]
        out.append(g2)
    return out


def run_machine(jobs: Jobs, timeout=3000, cfgname='PegMachineMC'):
    """Model-check PegMachine on a job file -> (TlcResult, {job: {text index: machine outcome record}})"""
    d = tlc.scratch_dir('mach')
    try:
        path = os.path.join(d, 'cases.json')
        jobs.dump(path)
        print(f'[machine] {len(jobs.jobs)} jobs, {jobs.ncases()} cases, json {os.path.getsize(path)} bytes', flush=True)
        r = tlc.run_tlc('PegMachineMC', cfg=cfgname, env={'VERIF_CASES': path}, timeout=timeout)
    finally:
        shutil.rmtree(d, ignore_errors=True)
    out = {}
    for key, v in r.res.items():
        j, t = key.split('.')
        out.setdefault(int(j), {})[int(t)] = v
    return r, out


def machine_vs_impl(mrec, impl_plain):
    """The machine is an exact transcription: its outcome (value included, on every shape) must be the implementation's."""
    def ren(x):
        if isinstance(x, dict):
            return {('@' if k == '__vallue__' else k): ren(v) for k, v in x.items()}
        if isinstance(x, list):
            return [ren(v) for v in x]
        return x
    m = mrec['r']
    if (m['k'] == 'ok') != (impl_plain.get('k') == 'ok'):
        return f"machine {m['k']}, implementation {impl_plain.get('k')}:{impl_plain.get('cls')}"
    if m['k'] == 'ok' and unval(m['v']) != ren(impl_plain['v']):
        return f"machine value {unval(m['v'])!r}, implementation {ren(impl_plain['v'])!r}"
    return None


def _tlc_traces(path_and_n):
    path, n = path_and_n
    r = tlc.run_tlc('PegTrace', env={'VERIF_TRACES': path}, workers=1, timeout=3000, heap='3g')
    acc = r.res.get('accepted')
    if not acc:
        raise tlc.MachineryError('PegTrace produced no acceptance report:\n' + r.stdout[-2000:])
    return {'accepted': acc['accepted'] if isinstance(acc['accepted'], list) else [], 'reached': acc['reached'], 'distinct': r.distinct,
            'generated': r.generated, 'wall': r.wall}


def trace_validate(ck, cases, shards=12, label='traces', corrupt_selftest=True):
    """Record executions of the real engine for `cases` (recorder.record_case format) and validate every trace against PegTrace.
    A rejected trace is a violation; the report carries the longest matched prefix and the events around the rejection point."""
    import concurrent.futures as cf
    import copy
    import random as _r
    from .recorder import record_case
    recs = [r for ch in pmap(record_case, cases, procs=16, chunk=4, recycle=120) for r in ch]
    errs = [r for r in recs if 'error' in r]
    recs = [r for r in recs if 'error' not in r]
    for e in errs[:3]:
        ck.violation({'kind': 'trace', 'inputs': {'recording': e}, 'expected': 'a parse that can be recorded', 'observed': e['error']},
                     key='recerr' + e['error'][:30])
    return validate_records(ck, recs, shards=shards, label=label, corrupt_selftest=corrupt_selftest)


def validate_records(ck, recs, shards=12, label='traces', corrupt_selftest=True, describe=None):
    """Validate trace records (PegTrace format) with TLC; a rejected trace is a violation."""
    import concurrent.futures as cf
    import copy
    import random as _r
    if not recs:
        return 0
    # binding self-test: corrupt one logged field of some traces; each corrupted copy must be REJECTED
    corrupted = []
    if corrupt_selftest:
        rr = _r.Random(7)
        pool = [r for r in recs if len(r['ev']) >= 4][:200]
        for r in rr.sample(pool, min(24, len(pool))):
            c = copy.deepcopy(r)
            k = rr.randrange(len(c['ev']))
            e = c['ev'][k]
            if e['ev'] in ('ok',) and rr.random() < 0.5:
                e['v'] = {'t': 's', 'v': list('corrupted')}
                what = 'value of an ok event'
            elif e['ev'] in ('enter', 'ok', 'cut') or (e['ev'] == 'match' and e['ok']):
                e['pos'] = e['pos'] + 1
                what = f'position of a {e["ev"]} event'
            elif e['ev'] == 'match':
                e['ok'] = not e['ok']
                what = 'outcome of a match event'
            else:
                c['ev'].pop(k)
                what = f'dropped a {e["ev"]} event'
            c['_corrupt'] = what
            corrupted.append(c)
    allrecs = recs + corrupted
    d = tlc.scratch_dir('traces')
    try:
        size = max(1, -(-len(allrecs) // shards))
        parts = [allrecs[i:i + size] for i in range(0, len(allrecs), size)]
        paths = []
        for i, part in enumerate(parts):
            p = os.path.join(d, f't{i}.json')
            json.dump([{k: v for k, v in r.items() if not k.startswith('_')} for r in part], open(p, 'w'))
            paths.append((p, len(part)))
        with cf.ThreadPoolExecutor(max_workers=min(16, len(paths))) as ex:
            results = list(ex.map(_tlc_traces, paths))
    finally:
        shutil.rmtree(d, ignore_errors=True)
    nacc = 0
    fake = type('R', (), {})
    for part, res in zip(parts, results):
        fr = fake()
        fr.distinct, fr.generated, fr.wall, fr.coverage = res['distinct'], res['generated'], res['wall'], {}
        ck.add_tlc(fr, f'PegTrace ({label})')
        acc = set(res['accepted'])
        for i, r in enumerate(part, 1):
            reached = res['reached'][i - 1] if isinstance(res['reached'], list) else 0
            if '_corrupt' in r:
                if i in acc:
                    ck.notes.setdefault('corruptions_not_rejected', []).append(r['_corrupt'])
                else:
                    ck.notes['corruptions_rejected'] = ck.notes.get('corruptions_rejected', 0) + 1
                continue
            ck.count(evaluations=1, traces=1)
            if i in acc:
                nacc += 1
                continue
            try:
                ebnf = to_ebnf(r['g'])
            except Exception:  # noqa: BLE001  (projected real grammars carry oracle leaves that have no EBNF rendering)
                ebnf = json.dumps(r['g'], sort_keys=True)[:3000]
            inputs = {'grammar': ebnf, 'text': ''.join(r['inp']), 'start': r['start']}
            if r.get('src'):
                inputs['recorded_in'] = r['src']
            ck.violation({'kind': 'trace', 'inputs': inputs,
                          'expected': 'the recorded execution is a behaviour of PegMachine',
                          'observed': {'events_matched': max(0, reached - 1), 'of': len(r['ev']),
                                       'around_rejection': r['ev'][max(0, reached - 3):reached + 1]},
                          'why': 'trace rejected by PegTrace', 'spec': 'PegTrace!TNext'}, key='trace' + ebnf + (r.get('src') or ''))
    ck.notes[f'{label}_validated'] = ck.notes.get(f'{label}_validated', 0) + nacc
    ck.notes.setdefault('trace_events', 0)
    ck.notes['trace_events'] += sum(len(r['ev']) for r in recs)
    if corrupt_selftest and corrupted and ck.notes.get('corruptions_rejected', 0) < len(corrupted) * 0.6:
        raise tlc.MachineryError(f"trace binding self-test: only {ck.notes.get('corruptions_rejected', 0)} of {len(corrupted)} corrupted traces were rejected")
    return nacc


def machine_check(ck, items, label, maxlen=4, maxtexts=40, variants=(('prune', {'prune': True}), ('noprune', {'prune': False})), maxmiss=2):
    """Model-check PegMachine (every memo schedule with up to `maxmiss` forced misses, pruning on cut on/off) on items x texts:
    Refines (against PegSem), FramesBalanced, CutContained, StepBound; the machine's outcome and value must equal the engine's."""
    from .impl import run_model_case
    marked = with_marks([it['g'] for it in items])
    jobs, cases = Jobs(), []
    for it, g in zip(items, marked):
        texts = [t for t in it['texts'] if len(t) <= maxlen][:maxtexts]
        for _vname, vk in variants:
            cfg = make_cfg(chars_of(g, texts), **{k: v for k, v in (it.get('cfg') or {}).items()})
            cfg.update({'memoize': True, 'maxmiss': maxmiss, **vk})
            jobs.add(g, cfg, texts, start=it.get('start', 's'))
            cases.append(default_case(to_ebnf(it['g']), texts, settings=it.get('settings'), start=it.get('start', 's'), wrap=False,
                                      **(it.get('case') or {})))
    r, mach = run_machine(jobs)
    ck.add_tlc(r, f'PegMachineMC ({label})')
    if r.violated:
        ck.violation({'kind': 'schedule', 'inputs': {'spec': 'PegMachineMC', 'universe': label},
                      'expected': 'Refines, FramesBalanced, StepBound, CutContained under every schedule', 'observed': r.violated,
                      'trace': [ln for ln in r.trace if not ln.startswith('"RES')][:80]}, key='machine' + label + str(r.violated))
        return 0
    if r.distinct < 3 * jobs.ncases():
        raise tlc.MachineryError(f'vacuous PegMachine run: {r.distinct} states for {jobs.ncases()} cases')
    impl = run_impl(cases, fn=run_model_case, chunk=4)
    n = 0
    for j, (c, im) in enumerate(zip(cases, impl), 1):
        if im['compile']['k'] != 'ok':
            continue
        for t, ir in enumerate(im['res'], 1):
            if t not in mach.get(j, {}):
                raise tlc.MachineryError(f'PegMachineMC produced no final state for job {j} text {t}')
            n += 1
            why = machine_vs_impl(mach[j][t], ir['plain'])
            if why:
                ck.violation({'kind': 'parse', 'inputs': {'grammar': c['ebnf'], 'text': ''.join(c['texts'][t - 1]), 'settings': c['settings']},
                              'expected': mach[j][t]['r'], 'observed': ir['plain'], 'why': why, 'spec': 'PegMachine (exact transcription)'},
                             key='mach' + c['ebnf'] + why[:20])
    ck.count(evaluations=n, traces=n)
    ck.notes[f'machine_cases ({label})'] = n
    return n


def observer_check(ck, items, label, maxlen=3, maxtexts=30, act='tag'):
    """Model-check spec/PegMachineObs.tla (history counters per (position, rule): entries, body evaluations, action calls) on items x
    texts under every memo schedule, with memoization on and off: ActionOncePerBody, NoMemoEvaluates, HitNeedsEvaluation,
    KeywordBeforeAction (+ Refines, FramesBalanced, StepBound).  A self-test configuration whose invariant says "no call is ever
    answered from the memo and no action ever runs" must be refuted on the same job file (the counters are not vacuous)."""
    marked = with_marks([it['g'] for it in items])
    jobs = Jobs()
    for it, g in zip(items, marked):
        texts = [t for t in it['texts'] if len(t) <= maxlen][:maxtexts]
        for memo in (True, False):
            if not memo and any(r.get('lrec') for r in g['rules']):
                continue
            cfg = make_cfg(chars_of(g, texts), **{k: v for k, v in (it.get('cfg') or {}).items()})
            cfg.update({'act': act, 'actrule': '*', 'backend': 'model', 'maxmiss': 2, 'prune': True, 'memoize': memo})
            jobs.add(g, cfg, texts, start=it.get('start', 's'))
    d = tlc.scratch_dir('obs')
    try:
        path = os.path.join(d, 'cases.json')
        jobs.dump(path)
        r = tlc.run_tlc('PegMachineObs', cfg='PegMachineObs', env={'VERIF_CASES': path}, timeout=3000)
        rs = tlc.run_tlc('PegMachineObs', cfg='PegMachineObsSelf', env={'VERIF_CASES': path}, timeout=3000)
    finally:
        shutil.rmtree(d, ignore_errors=True)
    ck.add_tlc(r, f'PegMachineObs ({label})')
    if rs.violated != 'SelfTestNeverHits':
        raise tlc.MachineryError(f'PegMachineObs self-test: the invariant that must be refuted was not ({rs.violated}): vacuous counters')
    if r.violated:
        ck.violation({'kind': 'schedule', 'inputs': {'spec': 'PegMachineObs', 'universe': label},
                      'expected': 'ActionOncePerBody, NoMemoEvaluates, HitNeedsEvaluation, KeywordBeforeAction under every memo schedule',
                      'observed': r.violated, 'trace': [ln for ln in r.trace if not ln.startswith('"RES')][:80]}, key='obs' + label + str(r.violated))
    ck.notes[f'observer_cases ({label})'] = jobs.ncases()
    return r
