"""Re-run one reported violation against the current tree:  /venv/bin/python -m harness.replay <replay file>

kind 'parse' (a grammar, a text, settings): the case is executed directly on the real model interpreter and on the generated parser and
printed next to the recorded expectation.  Every other kind (history, schedule, trace, point): the quick check of the property is re-run
with the recorded seed and the replay reports whether the same violation (same file name = same key) is produced again.
Exit 1 if the violation reproduces, 0 if not, 2 on machinery failure."""
import json
import os
import subprocess
import sys


def show(title, obj):
    print(f'--- {title}')
    print(json.dumps(obj, indent=1, sort_keys=True, default=str)[:4000])


def run_parse(inputs):
    os.environ.setdefault('TATSU_VERIF', '1')
    from .absgrammar import norm
    from .impl import outcome
    import tatsu
    g, text = inputs['grammar'], inputs.get('text', '')
    settings = dict(inputs.get('settings') or {})
    res = {}
    try:
        model = tatsu.compile(g)
        res['model'] = outcome(lambda: model.parse(text, **settings))
    except Exception as e:  # noqa: BLE001
        res['model'] = {'k': 'error', 'cls': type(e).__name__, 'msg': str(e)[:300]}
    try:
        src = tatsu.to_python_sourcecode(g, name='Replay')
        ns = {}
        exec(compile(src, '<generated>', 'exec'), ns)
        parser = ns['ReplayParser']()
        res['generated'] = outcome(lambda: parser.parse(text, **settings))
    except Exception as e:  # noqa: BLE001
        res['generated'] = {'k': 'error', 'cls': type(e).__name__, 'msg': str(e)[:300]}
    _ = norm
    return res


def main(argv):
    if len(argv) != 2:
        print(__doc__)
        return 2
    path = argv[1]
    d = json.load(open(path))
    prop = d.get('property')
    print(f"property {prop}  kind {d.get('kind')}  spec {d.get('spec')}")
    if d.get('why'):
        print('why:', d['why'])
    show('inputs', d.get('inputs'))
    show('expected (recorded)', d.get('expected'))
    show('observed (recorded)', d.get('observed'))
    inputs = d.get('inputs') or {}
    if d.get('kind') == 'parse' and isinstance(inputs, dict) and 'grammar' in inputs and 'text' in inputs:
        try:
            show('observed now (real code)', run_parse(inputs))
        except Exception as e:  # noqa: BLE001
            print('direct re-run failed:', type(e).__name__, e)
    env = dict(os.environ, VERIF_SEED=str(d.get('seed', 0)), VERIF_TIER=str(d.get('tier', 'quick')))
    print(f"--- re-running the {env['VERIF_TIER']} check of {prop} with seed {env['VERIF_SEED']}")
    r = subprocess.run([sys.executable, '-m', 'harness.check', prop], env=env, cwd=os.path.dirname(os.path.dirname(os.path.abspath(__file__))),
                       stdout=subprocess.PIPE, stderr=subprocess.STDOUT, text=True)
    lines = [ln for ln in r.stdout.splitlines() if ln.startswith(('VIOLATION', 'KNOWN-FINDING', '[' + str(prop)))]
    print('\n'.join(lines[-12:]))
    if r.returncode not in (0, 1):
        print(r.stdout[-1500:])
        return 2
    again = any(os.path.basename(path) in ln for ln in lines if ln.startswith('VIOLATION'))
    print('REPRODUCED' if again else ('violations remain, but not this one' if r.returncode == 1 else 'not reproduced: the check passes'))
    return 1 if again else 0


if __name__ == '__main__':
    sys.exit(main(sys.argv))
