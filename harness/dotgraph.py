"""Reading TLC's `-dump dot,actionlabels` state graphs: states as Python values, labelled edges, and path generation
(every edge of the graph is covered by at least one path from an initial state to a terminal state)."""
from __future__ import annotations

import collections
import re


class _P:
    """Parser for the TLA+ values TLC prints: ints, strings, booleans, sets, sequences, records, functions (a :> b @@ ...)."""

    def __init__(self, s):
        self.s, self.i = s, 0

    def ws(self):
        while self.i < len(self.s) and self.s[self.i] in ' \n\t':
            self.i += 1

    def peek(self, tok):
        self.ws()
        return self.s.startswith(tok, self.i)

    def eat(self, tok):
        self.ws()
        assert self.s.startswith(tok, self.i), (tok, self.s[self.i:self.i + 30])
        self.i += len(tok)

    def value(self):
        self.ws()
        s = self.s
        if self.peek('<<'):
            self.eat('<<')
            out = []
            while not self.peek('>>'):
                out.append(self.value())
                if self.peek(','):
                    self.eat(',')
            self.eat('>>')
            return out
        if self.peek('{'):
            self.eat('{')
            out = []
            while not self.peek('}'):
                out.append(self.value())
                if self.peek(','):
                    self.eat(',')
            self.eat('}')
            try:
                return frozenset(out)
            except TypeError:
                return tuple(out)
        if self.peek('['):
            self.eat('[')
            rec = {}
            while not self.peek(']'):
                self.ws()
                m = re.match(r'\w+', s[self.i:])
                key = m.group(0)
                self.i += len(key)
                self.eat('|->')
                rec[key] = self.value()
                if self.peek(','):
                    self.eat(',')
            self.eat(']')
            return rec
        if self.peek('('):          # function printed as (a :> b @@ c :> d)
            self.eat('(')
            fn = {}
            while not self.peek(')'):
                k = self.value()
                self.eat(':>')
                fn[k if not isinstance(k, list) else tuple(k)] = self.value()
                if self.peek('@@'):
                    self.eat('@@')
            self.eat(')')
            return fn
        if self.peek('"'):
            j = self.i + 1
            buf = ''
            while s[j] != '"':
                if s[j] == '\\':
                    j += 1
                buf += s[j]
                j += 1
            self.i = j + 1
            return buf
        m = re.match(r'(-?\d+)\.\.(-?\d+)', s[self.i:])      # TLC prints interval sets as a..b
        if m:
            self.i += len(m.group(0))
            return frozenset(range(int(m.group(1)), int(m.group(2)) + 1))
        m = re.match(r'-?\d+', s[self.i:])
        if m:
            self.i += len(m.group(0))
            return int(m.group(0))
        m = re.match(r'TRUE|FALSE', s[self.i:])
        if m:
            self.i += len(m.group(0))
            return m.group(0) == 'TRUE'
        m = re.match(r'\w+', s[self.i:])          # model value
        if m:
            self.i += len(m.group(0))
            return m.group(0)
        raise ValueError(s[self.i:self.i + 40])


def parse_value(s):
    return _P(s).value()


def split_action(label):
    """'Complete(1)' -> ('Complete', [1]);  'While' -> ('While', [])"""
    m = re.match(r'^(\w+)(?:\((.*)\))?$', label.strip())
    if not m:
        return label, []
    args = []
    if m.group(2):
        p = _P(m.group(2))
        while True:
            args.append(p.value())
            if p.peek(','):
                p.eat(',')
            else:
                break
    return m.group(1), args


def parse_state(label):
    """'/\\ a = 1\\n/\\ b = {}' -> {'a': 1, 'b': frozenset()}"""
    label = label.replace('\\n', '\n').replace('\\\\', '\\').replace('\\"', '"')
    st = {}
    for part in re.split(r'(?:^|\n)/\\ ', label):
        part = part.strip()
        if not part:
            continue
        k, v = part.split(' = ', 1)
        st[k.strip()] = parse_value(v)
    return st


class Graph:
    def __init__(self, path):
        self.states, self.init, self.out = {}, [], collections.defaultdict(list)
        node_re = re.compile(r'^(-?\d+) \[label="(.*)"(,style = filled)?\]\s*;?$')
        edge_re = re.compile(r'^(-?\d+) -> (-?\d+) \[label="((?:[^"\\]|\\.)*)"')
        for line in open(path):
            line = line.rstrip('\n')
            m = edge_re.match(line)
            if m:
                a, b, lab = m.group(1), m.group(2), m.group(3).replace('\\"', '"').replace('\\\\', '\\')
                if a != b or lab:
                    self.out[a].append((lab, b))
                continue
            m = node_re.match(line)
            if m:
                self.states[m.group(1)] = parse_state(m.group(2))
                if m.group(3):
                    self.init.append(m.group(1))

    def edges(self):
        for a, lst in self.out.items():
            for lab, b in lst:
                yield a, lab, b

    def terminal(self, n):
        return all(b == n for _lab, b in self.out.get(n, []))

    def edge_cover_paths(self, is_final=None, limit=None):
        """Paths (lists of (action, state id)) from an initial state to a final state that together cover every edge."""
        is_final = is_final or self.terminal
        # shortest path tree from the initial states
        pred = {}
        dq = collections.deque(self.init)
        seen = set(self.init)
        while dq:
            n = dq.popleft()
            for lab, b in self.out.get(n, []):
                if b not in seen:
                    seen.add(b)
                    pred[b] = (n, lab)
                    dq.append(b)
        # shortest continuation to a final state (reverse BFS)
        rev = collections.defaultdict(list)
        for a, lab, b in self.edges():
            rev[b].append((lab, a))
        nxt = {}
        finals = [n for n in self.states if is_final(n)]
        dq = collections.deque(finals)
        seenf = set(finals)
        while dq:
            n = dq.popleft()
            for lab, a in rev[n]:
                if a not in seenf:
                    seenf.add(a)
                    nxt[a] = (lab, n)
                    dq.append(a)
        covered, paths = set(), []
        for a, lab, b in sorted(self.edges()):
            if (a, lab, b) in covered or a == b or a not in seen or b not in seenf:
                continue
            pre, n = [], a
            while n not in self.init:
                p, l2 = pred[n]
                pre.append((l2, n))
                n = p
            start = n
            path = list(reversed(pre)) + [(lab, b)]
            n = b
            while not is_final(n):
                l2, m = nxt[n]
                path.append((l2, m))
                n = m
            prev = start
            for l2, m in path:
                covered.add((prev, l2, m))
                prev = m
            paths.append((start, path))
            if limit and len(paths) >= limit:
                break
        return paths
