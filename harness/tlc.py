"""Thin driver around TLC: run a spec/config, collect RES lines, statistics, coverage and violations.

RES protocol: a spec prints one line per result with  PrintT("RES " \\o <id> \\o " " \\o ToJson(x)).
TLC prints a TLA+ string value in quotes with backslash escapes, which is read back as a JSON string.
"""
from __future__ import annotations

import json
import os
import re
import shutil
import subprocess
import tempfile
import time
from dataclasses import dataclass, field

VERIF = os.path.dirname(os.path.dirname(os.path.abspath(__file__)))
SPEC = os.path.join(VERIF, 'spec')
SCRATCH = os.path.join(os.environ.get('VERIF_OUT') or VERIF, '.scratch')
JAR = '/opt/veriftools/tla/tla2tools.jar:/opt/veriftools/tla/CommunityModules-deps.jar'


class MachineryError(Exception):
    """TLC crashed, timed out, or produced unparsable output: exit code 2, never a property verdict."""


@dataclass
class TlcResult:
    stdout: str
    res: dict = field(default_factory=dict)        # id -> parsed JSON
    generated: int = 0
    distinct: int = 0
    violated: str | None = None                   # name of violated invariant/property
    trace: list = field(default_factory=list)     # raw counterexample text lines
    coverage: dict = field(default_factory=dict)  # action name -> count
    wall: float = 0.0
    ok: bool = True


def scratch_dir(prefix='run') -> str:
    os.makedirs(SCRATCH, exist_ok=True)
    return tempfile.mkdtemp(prefix=prefix + '-', dir=SCRATCH)


_res_re = re.compile(r'^"RES ')


def parse_res_lines(text: str) -> dict:
    out = {}
    for line in text.splitlines():
        if _res_re.match(line):
            try:
                s = json.loads(line)
            except json.JSONDecodeError:
                # TLC escapes differ slightly from JSON for some characters; fall back
                s = line[1:-1].encode().decode('unicode_escape')
            _, i, js = s.split(' ', 2)
            out[i] = json.loads(js)
    return out


def run_tlc(module: str, cfg: str | None = None, env: dict | None = None, workers: int | str = 16,
            timeout: int = 900, simulate: str | None = None, depth: int | None = None, coverage: bool = False,
            dump_dot: str | None = None, extra: list | None = None, deque: bool = False, seed: int | None = None,
            heap: str = '8g', cwd: str | None = None, keep: bool = False) -> TlcResult:
    """Run TLC on spec/<module>.tla with spec/<cfg>.cfg (default <module>.cfg)."""
    meta = scratch_dir('tlc')
    cfgpath = os.path.join(SPEC, (cfg or module) + ('' if (cfg or module).endswith('.cfg') else '.cfg'))
    if cfg and os.path.isabs(cfg):
        cfgpath = cfg
    opts = ['-XX:+UseParallelGC', f'-Xmx{heap}']
    if deque:
        opts.append('-Dtlc2.tool.queue.IStateQueue=StateDeque')
    cmd = ['java', *opts, '-cp', JAR, 'tlc2.TLC', '-workers', str(workers), '-metadir', meta, '-noGenerateSpecTE',
           '-config', cfgpath]
    if simulate:
        cmd += ['-simulate', simulate]
    if depth is not None:
        cmd += ['-depth', str(depth)]
    if seed is not None:
        cmd += ['-seed', str(seed)]
    if coverage:
        cmd += ['-coverage', '1']
    if dump_dot:
        cmd += ['-dump', 'dot,actionlabels', dump_dot]
    cmd += list(extra or [])
    cmd.append(os.path.join(SPEC, module + '.tla'))
    e = dict(os.environ)
    e.update({k: str(v) for k, v in (env or {}).items()})
    t0 = time.time()
    try:
        p = subprocess.run(cmd, cwd=cwd or SPEC, env=e, stdout=subprocess.PIPE, stderr=subprocess.STDOUT, text=True,
                           timeout=timeout)
    except subprocess.TimeoutExpired as ex:
        if not keep:
            shutil.rmtree(meta, ignore_errors=True)
        raise MachineryError(f'TLC timeout after {timeout}s on {module}') from ex
    finally:
        pass
    wall = time.time() - t0
    if not keep:
        shutil.rmtree(meta, ignore_errors=True)
    out = p.stdout
    r = TlcResult(stdout=out, wall=wall)
    r.res = parse_res_lines(out)
    m = None
    for m in re.finditer(r'(\d+) states generated, (\d+) distinct states found', out):
        pass
    if m:
        r.generated, r.distinct = int(m.group(1)), int(m.group(2))
    mv = re.search(r'Invariant (\S+) is violated', out) or re.search(r'Action property (\S+) is violated', out) \
        or re.search(r'Temporal properties were violated', out) or re.search(r'(Deadlock) reached', out) \
        or re.search(r'The postcondition (\S+)? ?was violated', out) or re.search(r'(Assumption) .* is false', out)
    if mv:
        r.violated = mv.group(1) if mv.groups() and mv.group(1) else 'temporal'
        r.ok = False
        idx = out.find(mv.group(0))
        r.trace = out[idx:].splitlines()[:400]
    if coverage:
        for cm in re.finditer(r'^<(\w+) line \d+, col \d+ to line \d+, col \d+ of module (\w+)>: (\d+):(\d+)', out, re.M):
            r.coverage[cm.group(1)] = r.coverage.get(cm.group(1), 0) + int(cm.group(4))
    if r.violated is None and ('Error:' in out or p.returncode not in (0,)):
        # TLC internal error / parse error / evaluation error
        if 'Model checking completed. No error has been found' not in out and 'Finished in' not in out \
                or 'Error:' in out:
            raise MachineryError(f'TLC failed on {module} (rc={p.returncode}):\n' + out[-4000:])
    return r


def sany(path: str) -> bool:
    p = subprocess.run(['java', '-cp', JAR, 'tla2sany.SANY', path], cwd=os.path.dirname(path), stdout=subprocess.PIPE,
                       stderr=subprocess.STDOUT, text=True)
    return p.returncode == 0 and 'Semantic errors' not in p.stdout and 'Parsing or semantic analysis failed' not in p.stdout \
        and '*** Errors' not in p.stdout and 'Fatal errors' not in p.stdout and 'Could not parse' not in p.stdout
