"""Code -> spec on the repository's own tests: run (part of) the test-suite with the recording plugin, validate every recorded
model-interpreter parse against spec/PegTrace.tla.  Used by the C01 driver (thorough: whole suite; quick: tests/grammar)."""
from __future__ import annotations

import collections
import json
import os
import shutil
import subprocess
import sys

from . import tlc
from .common import VERIF


def record_suite(paths, timeout=1500):
    """-> (records, skip counter).  The tests run from the repository root of the tatsu package that is importable (PYTHONPATH first)."""
    import tatsu
    root = os.path.dirname(os.path.dirname(os.path.abspath(tatsu.__file__)))
    d = tlc.scratch_dir('suite')
    out = os.path.join(d, 'tr.jsonl')
    env = dict(os.environ, TATSU_VERIF='1', VERIF_TRACE_OUT=out,
               PYTHONPATH=os.pathsep.join([p for p in (os.environ.get('PYTHONPATH'), VERIF) if p]), PYTHONDONTWRITEBYTECODE='1')
    try:
        subprocess.run([sys.executable, '-m', 'pytest', '-q', '-p', 'no:cacheprovider', '-p', 'harness.trace_plugin', '--timeout=600', *paths],
                       cwd=root, env=env, stdout=subprocess.DEVNULL, stderr=subprocess.DEVNULL, timeout=timeout)
        recs, skips = [], collections.Counter()
        if os.path.exists(out):
            for ln in open(out):
                r = json.loads(ln)
                if 'skip' in r:
                    skips[r['skip'][:90]] += 1
                else:
                    recs.append(r)
        return recs, skips
    finally:
        shutil.rmtree(d, ignore_errors=True)
