"""Code -> spec on the repository's own tests: run (part of) the test-suite with the recording plugin, validate every recorded
model-interpreter parse against spec/PegTrace.tla.  Used by the C01 driver (thorough: whole suite; quick: tests/grammar)."""
from __future__ import annotations

import collections
import json
import os
import shutil
import subprocess
import sys

from . import tlc
from .common import VERIF


QUICK_TESTS = ['tests/grammar/syntax_test.py', 'tests/grammar/join_test.py', 'tests/grammar/left_recursion_test.py',
               'tests/grammar/keyword_test.py', 'tests/grammar/semantics_test.py', 'tests/syntax']


def suite_part(ck, tier, backend, label):
    """Validate the parses the repository's own tests perform: backend 'model' = parses by the model interpreter (any grammar),
    'gen' = parses by the checked-in bootstrap parser, validated against PegMachine instantiated with tatsu/_tatsu.ebnf."""
    from .pegcheck import validate_records
    recs, skips = record_suite(QUICK_TESTS if tier == 'quick' else ['tests'])
    mine = [r for r in recs if r['cfg'].get('backend', 'model') == backend]
    ck.notes[f'{label}_recorded'] = len(mine)
    ck.notes[f'{label}_skipped_unsupported'] = dict(skips)
    if len(mine) < 20:
        raise tlc.MachineryError(f'only {len(mine)} {backend} parses were recorded from the test-suite: the recorder plugin is not binding')
    return validate_records(ck, mine, label=label, corrupt_selftest=False)


def record_suite(paths, timeout=1500):
    """-> (records, skip counter).  The tests run from the repository root of the tatsu package that is importable (PYTHONPATH first)."""
    import tatsu
    root = os.path.dirname(os.path.dirname(os.path.abspath(tatsu.__file__)))
    d = tlc.scratch_dir('suite')
    out = os.path.join(d, 'tr.jsonl')
    env = dict(os.environ, TATSU_VERIF='1', VERIF_TRACE_OUT=out,
               PYTHONPATH=os.pathsep.join([p for p in (os.environ.get('PYTHONPATH'), VERIF) if p]), PYTHONDONTWRITEBYTECODE='1')
    try:
        subprocess.run([sys.executable, '-m', 'pytest', '-q', '-p', 'no:cacheprovider', '-p', 'harness.trace_plugin', '--timeout=600', *paths],
                       cwd=root, env=env, stdout=subprocess.DEVNULL, stderr=subprocess.DEVNULL, timeout=timeout)
        recs, skips = [], collections.Counter()
        if os.path.exists(out):
            for ln in open(out):
                r = json.loads(ln)
                if 'skip' in r:
                    skips[r['skip'][:90]] += 1
                else:
                    recs.append(r)
        return recs, skips
    finally:
        shutil.rmtree(d, ignore_errors=True)


def record_boot_case(case):
    """{'texts': [grammar texts]} -> trace records of the checked-in bootstrap parser parsing each text (worker process)."""
    import tempfile
    os.environ['TATSU_VERIF'] = '1'
    fd, out = tempfile.mkstemp(prefix='boot-', suffix='.jsonl', dir=tlc.scratch_dir('boot'))
    os.close(fd)
    os.environ['VERIF_TRACE_OUT'] = out
    try:
        import tatsu
        from .impl import clear_caches
        from . import trace_plugin
        trace_plugin.install()
        for k, text in enumerate(case['texts']):
            clear_caches()
            os.environ['PYTEST_CURRENT_TEST'] = f"{case.get('label', 'corpus')}[{case.get('offset', 0) + k}]"
            try:
                tatsu.compile(text)
            except Exception:  # noqa: BLE001   (rejected texts leave a failing trace, which is validated like any other)
                pass
        recs = []
        for ln in open(out):
            r = json.loads(ln)
            if 'skip' not in r and r['cfg'].get('backend') == 'gen':
                recs.append(r)
            elif 'skip' in r:
                recs.append({'skip': r['skip']})
        return recs
    finally:
        os.environ.pop('VERIF_TRACE_OUT', None)
        shutil.rmtree(os.path.dirname(out), ignore_errors=True)
