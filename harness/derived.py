"""Derived parsers (C13 pretty-print, C14 serialisation, C15 bootstrap): the projection from_model (compiled peg.Grammar -> comparable
structure), the corpus of full-language grammar texts, and the workers that derive models and compare them."""
from __future__ import annotations

FULL = [
    ('meta', "start = i:@int u:@uint f:@float b:@bool n:@name $ ;", ['-12 7 1.5 true x1', '3 4 2.0 False y_', 'x', '', '1 2 3 true 9']),
    ('eol', "start = {line}+ $ ;\nline = w:/[a-z]+/ $-> ;", ['ab\ncd\n', 'ab', 'ab\n\ncd\n', 'ab cd\n']),
    ('alert', "start = 'a' ^`careful` x:'b' ^^`{x} seen` | 'c' ;", ['a b', 'c', 'a']),
    ('constants', "start = x:'a' k:`k` n:`7` t:`True` s:`'q'` m:```two words``` i:`{x}{x}` ;", ['a', 'b']),
    ('patterns', 'start = a:/a\\/b/ b:?"c/d" c:/[xy]+/ d:?\'e"f\' e:/\\w+/ ;', ['a/bc/dxye"fzz', 'a/bc/dx', 'a/b c/d']),
    ('tokens', 'start = "a\'b" \'c"d\' \'e\\\\f\' r\'g\\h\' \'i/j\' ;', ['a\'b c"d e\\f g\\h i/j', 'a\'b']),
    ('patterns-backslash', 'start = a:?"[\\\\/]" b:?"x\\\\/y" c:/\\d+\\/?/ d:?"\\w/\\w" $ ;', ['/x\\/y12/a/b', '\\x\\/y7a/b', 'x']),
    ('isname-alias', "@@keyword :: if then\n@isname\nident = /[a-z]+/ ;\nstart = {ident | 'if'} $ ;", ['ab if cd', 'then', 'if']),
    ('decorators', "@@keyword :: if then\n@name\nident = /[a-z]+/ ;\n@nomemo\nx = ident | 'if' ;\nstart = {x} $ ;", ['ab if cd', 'then', 'if if']),
    ('params', "start = a:x b:y $ ;\nx[A, b=1] = 'a' ;\ny(C) = 'b' ;", ['a b', 'a']),
    ('kwparams-only', "start = x $ ;\nx[k=v, n=2] = 'a' ;", ['a']),
    ('typed', "start::Root = l:leaf r:{leaf} $ ;\nleaf::Leaf::Base = v:/[ab]/ ;", ['a b a', 'a', '']),
    ('based', "base = x:'a' ;\nstart < base = y:'b' $ ;", ['a b', 'a', 'b']),
    ('include', "inc = x:'a' y:['b'] ;\nstart = >inc 'c' $ ;", ['a b c', 'a c', 'c']),
    ('override-rule', "start = ab $ ;\nab = 'xyz' ;\n@override\nab = @:'a' {@:'b'} ;", ['a b b', 'xyz', 'a']),
    ('joins', "start = j:','%{'a'}+ g:';'.{'b'} l:'+'<{'c'}+ r:'-'>{'d'}+ $ ;", ['a,a b;b c+c+c d-d-d', 'a c d', 'a , a b c d', 'a,']),
    ('skip', "start = 'a' (?: 'b' ) ->'c' &'d' !'e' 'd' ~ 'f' | 'a' 'b' ;", ['a b x x c d f', 'a b', 'a b c d e']),
    ('names', "start = x+:'a' {x+:'b'} y:'c' @+:'d' {@+:'e'} ;", ['a b b c d e', 'a c d']),
    ('closures', "start = {'a'} {'b'}+ {} ['c'] ('d' | 'e') () $ ;", ['a a b c d', 'b e', 'a']),
    ('directives', "@@grammar :: Foo\n@@whitespace :: /[ \\t]+/\n@@nameguard :: False\n@@ignorecase :: True\n@@namechars :: '-'\n"
                   "@@comments :: /\\(\\*.*?\\*\\)/\n@@eol_comments :: /#.*?$/\n@@left_recursion :: False\n@@parseinfo :: True\n"
                   "@@keyword :: if then\nstart = 'IF' 'x-y' 'z' $ ;", ['if x-y z', 'IF x-y (* c *) z # e', 'if\nx-y z', 'ifx-yz']),
    ('whitespace-none', "@@whitespace :: None\nstart = 'a' 'b' $ ;", ['ab', 'a b']),
    ('leftrec', "start = e $ ;\ne = e '+' t | t ;\nt = /[0-9]+/ ;", ['1+2+3', '1', '1+']),
    ('upper', "start = A B $ ;\nA = /a+/ ;\nB = 'b' ;", ['aab', 'aa b', 'b']),
    ('dot-eof', "start = /./ 'x' /./ $ ;", ['axb', 'a x b', 'ax']),
    ('fail', "start = 'a' !() | 'a' 'b' ;", ['a b', 'a']),
    ('multiline-token', "start = '''ab''' \"\"\"cd\"\"\" $ ;", ['ab cd', 'ab']),
    ('unicode', "start = 'é' '世' /[α-ω]+/ $ ;", ['é 世 αβ', 'é']),
    ('style-like-tokens', "start = '\\\\e[1m' 'f{x}' `f{{y}}` '{0:>4}' $ ;", ['\\e[1m f{x} {0:>4}', 'f{x}']),
]

IGNORED = {'ast', 'ctx', 'parseinfo', 'lookaheadlist', 'is_memo', 'is_lrec', 'baserule', 'rhs', 'comment', 'comments'}


def from_model(x, depth=0):
    """Compiled peg model -> comparable structure: type name + public data attributes, recursively."""
    from tatsu.objectmodel import Node
    if isinstance(x, Node):
        d = {'T': type(x).__name__}
        for k, v in vars(x).items():
            if k.startswith('_') or k in IGNORED:
                continue
            if k == 'decorators':
                d[k] = sorted({'isname': 'name'}.get(x_, x_) for x_ in (v or []) if x_ != 'override')     # @override is resolved when the grammar is built
                continue
            d[k] = from_model(v, depth + 1)
        if type(x).__name__ == 'Grammar':
            d['directives'] = {k: str(v) for k, v in sorted((x.directives or {}).items())}
            d['keywords'] = sorted(x.keywords or [])
        return d
    if isinstance(x, dict):
        return {str(k): from_model(v, depth + 1) for k, v in x.items()}
    if isinstance(x, (list, tuple)):
        return [from_model(v, depth + 1) for v in x]
    if isinstance(x, (str, int, float, bool)) or x is None:
        return x
    if hasattr(x, 'pattern'):
        return x.pattern
    return repr(x)


def simplify(p):
    """Documented normalisations: Option wrappers, one-element sequences and groups around a single element are transparent."""
    if isinstance(p, dict):
        p = {k: simplify(v) for k, v in p.items()}
        if p.get('T') in ('Option', 'Group') and set(p) <= {'T', 'exp'}:
            return p['exp']
        if p.get('T') == 'Sequence' and isinstance(p.get('sequence'), list) and len(p['sequence']) == 1:
            return p['sequence'][0]
        if p.get('T') == 'Choice' and isinstance(p.get('options'), list) and len(p['options']) == 1:
            return p['options'][0]
        return p
    if isinstance(p, list):
        return [simplify(v) for v in p]
    return p


def behaviour(model, texts, **kw):
    from .absgrammar import norm
    out = []
    if 'start' not in kw and any(r.name == 'start' for r in model.rules):
        kw['start'] = 'start'
    for t in texts:
        try:
            out.append(['ok', repr(norm(model.parse(t, **kw)))])
        except Exception as e:  # noqa: BLE001
            from tatsu.exceptions import FailedParse
            out.append(['fail' if isinstance(e, FailedParse) else 'exc', type(e).__name__])
    return out


def diff_path(a, b, path='$'):
    if type(a) is not type(b):
        return f'{path}: {a!r} != {b!r}'[:300]
    if isinstance(a, dict):
        for k in sorted(set(a) | set(b)):
            if k not in a or k not in b:
                return f'{path}.{k}: only on one side ({a.get(k)!r} / {b.get(k)!r})'[:300]
            r = diff_path(a[k], b[k], f'{path}.{k}')
            if r:
                return r
        return None
    if isinstance(a, list):
        if len(a) != len(b):
            return f'{path}: lengths {len(a)} != {len(b)}'
        for i, (x, y) in enumerate(zip(a, b)):
            r = diff_path(x, y, f'{path}[{i}]')
            if r:
                return r
        return None
    return None if a == b else f'{path}: {a!r} != {b!r}'[:300]


def run_pretty_case(case):
    """C13 for one grammar text: pretty -> recompile -> same model (modulo normalisations), same behaviour, fixpoint, railroads."""
    import tatsu
    from tatsu.util.tty import visual_len
    from .impl import clear_caches
    clear_caches()
    out = {'problems': []}
    P = out['problems']
    try:
        if case.get('json'):
            import json as _json
            from tatsu.peg import Grammar
            m = Grammar.load(_json.loads(tatsu.compile(case['ebnf']).asjsons()) if case['json'] == 'roundtrip' else case['json'])
        else:
            m = tatsu.compile(case['ebnf'])
    except Exception as e:  # noqa: BLE001
        out['skip'] = f'source does not compile: {type(e).__name__}: {e}'[:200]
        return out
    try:
        pretty = m.pretty()
    except Exception as e:  # noqa: BLE001
        P.append(f'pretty() raised {type(e).__name__}: {e}'[:300])
        return out
    out['pretty'] = pretty
    try:
        clear_caches()
        m2 = tatsu.compile(pretty)
    except Exception as e:  # noqa: BLE001
        P.append(f'the pretty-printed text does not compile: {type(e).__name__}: {str(e)[:200]}')
        return out
    a, b = simplify(from_model(m)), simplify(from_model(m2))
    if case.get('compare_model', True):
        d = diff_path(a, b)
        if d:
            P.append('recompiled model differs: ' + d)
    ba, bb = behaviour(m, case['texts']), behaviour(m2, case['texts'])
    for t, x, y in zip(case['texts'], ba, bb):
        if x != y:
            P.append(f'behaviour differs on {t!r}: original {x} recompiled {y}')
            break
    try:
        p2 = m2.pretty()
        if p2 != pretty:
            import difflib
            dl = [l for l in difflib.unified_diff(pretty.splitlines(), p2.splitlines(), lineterm='', n=0)][2:6]
            P.append('pretty-printing the recompiled model is not a fixpoint: ' + ' | '.join(dl))
    except Exception as e:  # noqa: BLE001
        P.append(f'pretty() of the recompiled model raised {type(e).__name__}: {e}'[:300])
    for which, mm in (('original', m), ('recompiled', m2)):
        try:
            rr = mm.railroads()
            rows = rr.splitlines() if isinstance(rr, str) else list(rr)
            # tracks of one diagram have consistent width: blocks separated by blank rows are laid out independently
            block = []
            for row in rows + ['']:
                if row.strip() == '':
                    ws = {visual_len(r) for r in block}
                    block = []
                    continue
                block.append(row)
        except AssertionError as e:
            P.append(f'railroads() of the {which} model: AssertionError {e}'[:300])
        except Exception as e:  # noqa: BLE001
            P.append(f'railroads() of the {which} model raised {type(e).__name__}: {e}'[:300])
    out['behaviour'] = ba
    return out
