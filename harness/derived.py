"""Derived parsers (C13 pretty-print, C14 serialisation, C15 bootstrap): the projection from_model (compiled peg.Grammar -> comparable
structure), the corpus of full-language grammar texts, and the workers that derive models and compare them."""
from __future__ import annotations

_KW = ['if', 'then', 'else', 'while', 'for', 'class', 'def', 'return', 'final', 'static', 'public', 'import', 'from', 'with', 'yield',
       'lambda', 'assert', 'break', 'continue', 'pass', 'raise', 'try', 'except', 'finally', 'global', 'nonlocal', 'async', 'await',
       'match', 'case', 'type', 'del', 'elif', 'is', 'not', 'and', 'or']


def _kw_grammar(n):
    return ('@@keyword :: ' + ' '.join(_KW[:n]) + '\n' if n else '') + "@name\nident = /[a-z]+/ ;\nstart = {ident}+ $ ;"


FULL = [
    # keyword tables long enough to wrap the @@keyword lines of the pretty-printed text (every boundary keyword is an input)
    *[(f'keywords-{n}', _kw_grammar(n), ['ab cd', *_KW[:n], *[f'ab {k}' for k in _KW[:n:3]], 'zz']) for n in (9, 14, 23, 37)],
    ('based-inherits-params', "base[A, x=1] = 'a' ;\nstart < base = 'b' $ ;", ['a b', 'a', 'b']),
    ('int-param', "start = x y $ ;\nx[1] = 'a' ;\ny[2.5, k=3] = 'b' ;", ['a b', 'a']),
    ('emptyclosure-ends-rule', "start = 'a' {} ;\nz = 'b' ;", ['a', 'a b', 'b']),
    # wide and combining characters in tokens and rule names (railroad tracks are measured in display columns)
    ('wide-tokens', "start = '你好' ('世界' | 'world') $ ;", ['你好 世界', '你好 world', '你好']),
    ('wide-rule-names', "start = 名前 {',' 名前} $ ;\n名前 = 'a' | 'ｂ' | '長い名前' ;", ['a , ｂ', '長い名前', 'a ,']),
    ('wide-named', "start = 左:'あ' [右+:('い' | 'う' | 'e\u0301')] $ ;", ['あ い', 'あ', 'あ e\u0301']),
    ('meta', "start = i:@int u:@uint f:@float b:@bool n:@name $ ;", ['-12 7 1.5 true x1', '3 4 2.0 False y_', 'x', '', '1 2 3 true 9']),
    ('eol', "start = {line}+ $ ;\nline = w:/[a-z]+/ $-> ;", ['ab\ncd\n', 'ab', 'ab\n\ncd\n', 'ab cd\n']),
    ('alert', "start = 'a' ^`careful` x:'b' ^^`{x} seen` | 'c' ;", ['a b', 'c', 'a']),
    ('constants', "start = x:'a' k:`k` n:`7` t:`True` s:`'q'` m:```two words``` i:`{x}{x}` ;", ['a', 'b']),
    ('patterns', 'start = a:/a\\/b/ b:?"c/d" c:/[xy]+/ d:?\'e"f\' e:/\\w+/ ;', ['a/bc/dxye"fzz', 'a/bc/dx', 'a/b c/d']),
    ('tokens', 'start = "a\'b" \'c"d\' \'e\\\\f\' r\'g\\h\' \'i/j\' ;', ['a\'b c"d e\\f g\\h i/j', 'a\'b']),
    ('patterns-backslash', 'start = a:?"[\\\\/]" b:?"x\\\\/y" c:/\\d+\\/?/ d:?"\\w/\\w" $ ;', ['/x\\/y12/a/b', '\\x\\/y7a/b', 'x']),
    ('isname-alias', "@@keyword :: if then\n@isname\nident = /[a-z]+/ ;\nstart = {ident | 'if'} $ ;", ['ab if cd', 'then', 'if']),
    ('decorators', "@@keyword :: if then\n@name\nident = /[a-z]+/ ;\n@nomemo\nx = ident | 'if' ;\nstart = {x} $ ;", ['ab if cd', 'then', 'if if']),
    ('params', "start = a:x b:y $ ;\nx[A, b=1] = 'a' ;\ny(C) = 'b' ;", ['a b', 'a']),
    ('kwparams-only', "start = x $ ;\nx[k=v, n=2] = 'a' ;", ['a']),
    ('typed', "start::Root = l:leaf r:{leaf} $ ;\nleaf::Leaf::Base = v:/[ab]/ ;", ['a b a', 'a', '']),
    ('based', "base = x:'a' ;\nstart < base = y:'b' $ ;", ['a b', 'a', 'b']),
    ('include', "inc = x:'a' y:['b'] ;\nstart = >inc 'c' $ ;", ['a b c', 'a c', 'c']),
    ('override-rule', "start = ab $ ;\nab = 'xyz' ;\n@override\nab = @:'a' {@:'b'} ;", ['a b b', 'xyz', 'a']),
    ('joins', "start = j:','%{'a'}+ g:';'.{'b'} l:'+'<{'c'}+ r:'-'>{'d'}+ $ ;", ['a,a b;b c+c+c d-d-d', 'a c d', 'a , a b c d', 'a,']),
    ('skip', "start = 'a' (?: 'b' ) ->'c' &'d' !'e' 'd' ~ 'f' | 'a' 'b' ;", ['a b x x c d f', 'a b', 'a b c d e']),
    ('names', "start = x+:'a' {x+:'b'} y:'c' @+:'d' {@+:'e'} ;", ['a b b c d e', 'a c d']),
    ('closures', "start = {'a'} {'b'}+ {} ['c'] ('d' | 'e') () $ ;", ['a a b c d', 'b e', 'a']),
    ('directives', "@@grammar :: Foo\n@@whitespace :: /[ \\t]+/\n@@nameguard :: False\n@@ignorecase :: True\n@@namechars :: '-'\n"
                   "@@comments :: /\\(\\*.*?\\*\\)/\n@@eol_comments :: /#.*?$/\n@@left_recursion :: False\n@@parseinfo :: True\n"
                   "@@keyword :: if then\nstart = 'IF' 'x-y' 'z' $ ;", ['if x-y z', 'IF x-y (* c *) z # e', 'if\nx-y z', 'ifx-yz']),
    ('whitespace-none', "@@whitespace :: None\nstart = 'a' 'b' $ ;", ['ab', 'a b']),
    ('leftrec', "start = e $ ;\ne = e '+' t | t ;\nt = /[0-9]+/ ;", ['1+2+3', '1', '1+']),
    ('upper', "start = A B $ ;\nA = /a+/ ;\nB = 'b' ;", ['aab', 'aa b', 'b']),
    ('dot-eof', "start = /./ 'x' /./ $ ;", ['axb', 'a x b', 'ax']),
    ('fail', "start = 'a' !() | 'a' 'b' ;", ['a b', 'a']),
    ('multiline-token', "start = '''ab''' \"\"\"cd\"\"\" $ ;", ['ab cd', 'ab']),
    ('unicode', "start = 'é' '世' /[α-ω]+/ $ ;", ['é 世 αβ', 'é']),
    # shapes whose pretty-printed text strains the grammar of grammars: a parameterised first rule right after the keyword table, a pattern
    # made of blanks, a constant whose text has a line break, a base rule replaced by @override after a rule was derived from it
    ('keywords-then-parameterised-rule', "@@keyword :: if then\n@@nameguard :: True\n\nstart[Start] = /\\w+/ $ ;", ['ab', 'if', 'a b']),
    ('pattern-blanks', "@@whitespace :: None\nstart = / +/ 'a' /b /  $ ;", [' ab ', 'ab ', '  ab ', ' ab']),
    ('constant-newline', "start = k:`'a\\nb'` 'x' ;", ['x', 'y']),
    ('param-with-line-break', "start = a $ ;\na['x\\ny'] = 'a' ;", ['a', 'b']),
    ('float-overflow-constant', "start = a:`1e999` n:`-1e999` 'x' $ ;", ['x', 'y']),
    ('style-like-tokens', "start = '\\\\e[1m' 'f{x}' `f{{y}}` '{0:>4}' $ ;", ['\\e[1m f{x} {0:>4}', 'f{x}']),
]

IGNORED = {'ast', 'ctx', 'parseinfo', 'lookaheadlist', 'is_memo', 'is_lrec', 'baserule', 'rhs', 'comment', 'comments'}


def from_model(x, depth=0):
    """Compiled peg model -> comparable structure: type name + public data attributes, recursively."""
    from tatsu.objectmodel import Node
    if isinstance(x, Node):
        d = {'T': type(x).__name__}
        for k, v in vars(x).items():
            if k.startswith('_') or k in IGNORED:
                continue
            if k == 'decorators':
                d[k] = sorted({'isname': 'name'}.get(x_, x_) for x_ in (v or []) if x_ != 'override')     # @override is resolved when the grammar is built
                continue
            d[k] = from_model(v, depth + 1)
        if type(x).__name__ == 'Grammar':
            d['directives'] = {k: str(v) for k, v in sorted((x.directives or {}).items())}
            d['keywords'] = sorted(x.keywords or [])
        return d
    if isinstance(x, dict):
        return {str(k): from_model(v, depth + 1) for k, v in x.items()}
    if isinstance(x, (list, tuple)):
        return [from_model(v, depth + 1) for v in x]
    if isinstance(x, (str, int, float, bool)) or x is None:
        return x
    if hasattr(x, 'pattern'):
        return x.pattern
    return repr(x)


def simplify(p):
    """Documented normalisations: Option wrappers, one-element sequences and groups around a single element are transparent."""
    if isinstance(p, dict):
        p = {k: simplify(v) for k, v in p.items()}
        if p.get('T') in ('Option', 'Group') and set(p) <= {'T', 'exp'}:
            return p['exp']
        if p.get('T') == 'Sequence' and isinstance(p.get('sequence'), list) and len(p['sequence']) == 1:
            return p['sequence'][0]
        if p.get('T') == 'Choice' and isinstance(p.get('options'), list) and len(p['options']) == 1:
            return p['options'][0]
        return p
    if isinstance(p, list):
        return [simplify(v) for v in p]
    return p


def behaviour(model, texts, **kw):
    from .absgrammar import norm
    out = []
    if 'start' not in kw and any(r.name == 'start' for r in model.rules):
        kw['start'] = 'start'
    for t in texts:
        try:
            out.append(['ok', repr(norm(model.parse(t, **kw)))])
        except Exception as e:  # noqa: BLE001
            from tatsu.exceptions import FailedParse
            # the properties speak of accepting the same inputs with equal ASTs: which FailedParse subclass reports a rejection is not compared
            out.append(['fail', ''] if isinstance(e, FailedParse) else ['exc', type(e).__name__])
    return out


def diff_path(a, b, path='$'):
    if type(a) is not type(b):
        return f'{path}: {a!r} != {b!r}'[:300]
    if isinstance(a, dict):
        for k in sorted(set(a) | set(b)):
            if k not in a or k not in b:
                return f'{path}.{k}: only on one side ({a.get(k)!r} / {b.get(k)!r})'[:300]
            r = diff_path(a[k], b[k], f'{path}.{k}')
            if r:
                return r
        return None
    if isinstance(a, list):
        if len(a) != len(b):
            return f'{path}: lengths {len(a)} != {len(b)}'
        for i, (x, y) in enumerate(zip(a, b)):
            r = diff_path(x, y, f'{path}[{i}]')
            if r:
                return r
        return None
    return None if a == b else f'{path}: {a!r} != {b!r}'[:300]


ANTLR = [
    ('expr', """grammar Expr;
prog: (expr NEWLINE)* EOF ;
expr: expr ('*'|'/') expr | expr ('+'|'-') expr | INT | '(' expr ')' ;
NEWLINE : [\\r\\n]+ ;
INT : [0-9]+ ;
WS : [ \\t]+ -> skip ;
""", ['1+2\n', '1*(2-3)\n4\n', '', '1+\n', '(1\n']),
    ('csv', """grammar Csv;
file: row+ EOF ;
row: field (',' field)* '\\r'? '\\n' ;
field: TEXT | STRING | ;
TEXT : ~[,\\n\\r"]+ ;
STRING : '"' ('""'|~'"')* '"' ;
""", ['a,b\n', 'a,"b ""c"""\n1,2\n', ',\n', 'a', '"\n']),
    ('opts', """grammar Opts;
start: item* EOF ;
item: ID '=' value ';' | 'flag' ID? ';' ;
value: INT | ID | list ;
list: '[' (value (',' value)*)? ']' ;
ID : [a-zA-Z_] [a-zA-Z_0-9]* ;
INT : '0' | [1-9] [0-9]* ;
WS : [ \\t\\r\\n]+ -> skip ;
""", ['a = 1;', 'flag; flag x; b=[1,[c,2],[]];', 'a = ;', 'a = 01;', '']),
    ('labels', """grammar Lab;
start: op=('add' | 'sub') arg=('x' 'y') EOF ;
""", ['add x y', 'sub x y', 'add', 'x y', 'add x', 'sub y x']),
    # a LABELLED negation: x=~'y' is "one character that is not y", bound to x
    ('labelled-negation', """grammar LNeg;
start: x=~'y' 'e' EOF ;
""", ['q e', 'y e', 'qe', 'e']),
    # `~` over a parenthesised set of several-character alternatives (a lookahead over the whole group) and over a token reference
    ('negset', """grammar Neg;
start: item (SEP item)* EOF ;
item: ~(SEP | 'end' | 'stop')+ ;
SEP : ',' | ';' ;
WS : ' '+ -> skip ;
""", ['a , b ;', 'a b , c', 'a , end', ', a', 'stop', 'x ; y ; z', '']),
    ('frag', """grammar Frag;
start: (NUM | WORD)+ EOF ;
NUM : DIGIT+ ('.' DIGIT+)? ;
WORD : LETTER (LETTER | DIGIT)* ;
fragment DIGIT : [0-9] ;
fragment LETTER : [a-z] | [A-Z] ;
WS : ' '+ -> skip ;
""", ['12 ab 3.5 x9', '3.', 'a.b', '']),
]


def _display_width(text):
    """Terminal columns of a line, measured independently of the library: East Asian wide/fullwidth = 2, combining marks = 0."""
    import unicodedata
    n = 0
    for ch in text:
        if unicodedata.combining(ch) or unicodedata.category(ch) in ('Mn', 'Me', 'Cf'):
            continue
        n += 2 if unicodedata.east_asian_width(ch) in ('W', 'F') else 1
    return n


def run_pretty_case(case):
    """C13 for one grammar text: pretty -> recompile -> same model (modulo normalisations), same behaviour, fixpoint, railroads."""
    import tatsu
    from tatsu.util.tty import visual_len
    from .impl import clear_caches
    clear_caches()
    out = {'problems': []}
    P = out['problems']
    try:
        if case.get('antlr'):
            from tatsu.g2e.g2etool import translate
            m = translate(text=case['antlr'], name=case.get('name', 'Antlr'))
        elif case.get('json'):
            import json as _json
            from tatsu.peg import Grammar
            m = Grammar.load(_json.loads(tatsu.compile(case['ebnf']).asjsons()) if case['json'] == 'roundtrip' else case['json'])
        else:
            m = tatsu.compile(case['ebnf'])
    except Exception as e:  # noqa: BLE001
        if case.get('antlr'):
            P.append(f'the ANTLR translator raised {type(e).__name__}: {e}'[:300])
            return out
        out['skip'] = f'source does not compile: {type(e).__name__}: {e}'[:200]
        return out
    try:
        pretty = m.pretty()
    except Exception as e:  # noqa: BLE001
        P.append(f'pretty() raised {type(e).__name__}: {e}'[:300])
        return out
    out['pretty'] = pretty
    try:
        clear_caches()
        m2 = tatsu.compile(pretty)
    except Exception as e:  # noqa: BLE001
        P.append(f'the pretty-printed text does not compile: {type(e).__name__}: {str(e)[:200]}')
        return out
    a, b = simplify(from_model(m)), simplify(from_model(m2))
    if case.get('antlr'):
        # the name of a translated model is an argument of translate(), not a directive of the grammar: it is not part of the text
        a.pop('name', None), b.pop('name', None)
        for x in (a, b):
            (x.get('directives') or {}).pop('grammar', None)
    if case.get('compare_model', True):
        d = diff_path(a, b)
        if d:
            P.append('recompiled model differs: ' + d)
    ba, bb = behaviour(m, case['texts']), behaviour(m2, case['texts'])
    for t, x, y in zip(case['texts'], ba, bb):
        if x != y:
            P.append(f'behaviour differs on {t!r}: original {x} recompiled {y}')
            break
    try:
        p2 = m2.pretty()
        if p2 != pretty:
            import difflib
            dl = [l for l in difflib.unified_diff(pretty.splitlines(), p2.splitlines(), lineterm='', n=0)][2:6]
            P.append('pretty-printing the recompiled model is not a fixpoint: ' + ' | '.join(dl))
    except Exception as e:  # noqa: BLE001
        P.append(f'pretty() of the recompiled model raised {type(e).__name__}: {e}'[:300])
    for which, mm in (('original', m), ('recompiled', m2)):
        try:
            rr = mm.railroads()
            assert isinstance(rr, str)
            from tatsu import railroads as _rr
            rows = list(_rr.tracks(mm))       # the unstripped tracks: every row of one diagram has the same display width
            block = []
            broken = [r for r in rows if '\n' in r or '\r' in r]
            if broken:
                # a track is one display line: a line break inside it makes it two lines of other widths
                P.append(f'railroads of the {which} model: a track contains a line break: ' + repr(broken[0])[:160])
            for row in rows + ['']:
                block.append(row)
                if row.strip() == '':
                    ws = {_display_width(r) for r in block if r != ''}
                    if len(ws) > 1:
                        P.append(f'railroads of the {which} model: tracks of one diagram have display widths {sorted(ws)}: '
                                 + ' / '.join(repr(r) for r in block[:3])[:240])
                    block = []
        except AssertionError as e:
            P.append(f'railroads() of the {which} model: AssertionError {e}'[:300])
        except Exception as e:  # noqa: BLE001
            P.append(f'railroads() of the {which} model raised {type(e).__name__}: {e}'[:300])
    out['behaviour'] = ba
    return out


def run_asjson_graphs(case):
    """Build each abstract object graph of spec/AsJson.tla out of real dicts, lists and Node objects and push it through asjson."""
    import json
    import re
    import signal
    import sys
    from tatsu.objectmodel import Node
    from tatsu.util.asjson import asjson
    sys.setrecursionlimit(400)
    refre = re.compile(r'^\w+@0x[0-9A-F]+$')

    class GNode(Node):
        pass

    class TO(BaseException):
        pass

    def h(*a):
        raise TO()
    signal.signal(signal.SIGALRM, h)
    import enum

    class Colour(enum.Enum):
        RED = 1
    LEAVES = ['text', 7, 2.5, None, True, GNode, int, Colour.RED, frozenset({1}), b'x', (1, 'a'), 10 ** 30]
    bad = []
    for gi, g in enumerate(case['graphs']):
        kind, kids = g['kind'], g['kids']
        n = len(kind)
        objs = []
        for i in range(n):
            objs.append({} if kind[i] == 'dict' else [] if kind[i] == 'list' else GNode())
        for i in range(n):
            ks = kids[i] if isinstance(kids[i], list) else []
            for j, c in enumerate(ks):
                child = objs[c - 1]
                if kind[i] == 'dict':
                    objs[i][f'k{j}'] = child
                elif kind[i] == 'list':
                    objs[i].append(child)
                else:
                    setattr(objs[i], f'c{j}', child)
            if kind[i] == 'dict':
                objs[i]['leaf'] = 'text'
                # a second leaf: the kinds of scalar-like values parse results carry (whatever semantic actions return) - must come
                # out as something json.dumps accepts
                objs[i]['leaf2'] = LEAVES[(gi + i) % len(LEAVES)]
        signal.alarm(5)
        try:
            out = asjson(objs[0])
            text = json.dumps(out)
        except TO:
            bad.append({'graph': g, 'observed': 'did not terminate within 5 s'})
            continue
        except RecursionError:
            bad.append({'graph': g, 'observed': 'RecursionError'})
            continue
        except Exception as e:  # noqa: BLE001
            bad.append({'graph': g, 'observed': f'{type(e).__name__}: {e}'[:200]})
            continue
        finally:
            signal.alarm(0)

        def cmp(spec, real, path='$'):
            if 'ref' in spec:
                return None if isinstance(real, str) and refre.match(real) else f'{path}: expected a reference string for node {spec["ref"]}, got {str(real)[:60]!r}'
            ks = spec['kids'] if isinstance(spec['kids'], list) else []
            if spec['kind'] == 'list':
                if not isinstance(real, list) or len(real) != len(ks):
                    return f'{path}: expected a list of {len(ks)}, got {str(real)[:60]!r}'
                items = real
            elif spec['kind'] == 'dict':
                if not isinstance(real, dict) or real.get('leaf') != 'text':
                    return f'{path}: expected a dict, got {str(real)[:60]!r}'
                items = [real.get(f'k{j}') for j in range(len(ks))]
            else:
                if not isinstance(real, dict) or real.get('__class__') != 'GNode':
                    return f'{path}: expected an object dict with __class__, got {str(real)[:60]!r}'
                items = [real.get(f'c{j}') for j in range(len(ks))]
            for j, (s, r) in enumerate(zip(ks, items)):
                why = cmp(s, r, f'{path}/{j}')
                if why:
                    return why
            return None
        why = cmp(g['out'], out)
        if why:
            bad.append({'graph': {'kind': kind, 'kids': kids}, 'observed': why})
    return bad[:10]


def run_serial_case(case):
    """C14 for one grammar text: JSON, pickle and Python model source round trips -> same rules/directives/keywords, same behaviour."""
    import json
    import pickle
    import tatsu
    from tatsu.peg import Grammar
    from .impl import clear_caches
    clear_caches()
    out = {'problems': []}
    P = out['problems']
    if case.get('prelude'):
        # earlier in the same process: object models were built for rule types named like grammar-model classes (through a
        # ModelBuilderSemantics object and through asmodel=True); reloading a serialized grammar must not be affected
        from tatsu.semantics import ModelBuilderSemantics
        pg = "start::Token = w:/[a-z]+/ n:num g:grp ;\nnum::Constant = /[0-9]+/ ;\ngrp::Group = '(' c:[clo] ')' ;\nclo::Closure = {'x'}+ ;\n"
        try:
            tatsu.parse(pg, 'ab 12 ( x )', semantics=ModelBuilderSemantics())
            tatsu.parse(pg, 'ab 12 ()', asmodel=True)
            # ... and the object-model module that to_python_model() generates for a grammar of an EBNF-like language was loaded: it DECLARES
            # node classes called Grammar, Rule, Choice, Sequence, Token, Call
            eg = ("@@grammar :: Ebnfish\nstart::Grammar = rules:{rule}+ $ ;\nrule::Rule = name:/[a-z]+/ '=' exp:choice ';' ;\n"
                  "choice::Choice = options:'|'.{seq}+ ;\nseq::Sequence = elements:{elem}+ ;\nelem = token | call ;\n"
                  "token::Token = /'[^']*'/ ;\ncall::Call = name:/[a-z]+/ ;\n")
            import types as _types
            mod = _types.ModuleType('ebnfish_model')
            import sys as _sys
            _sys.modules['ebnfish_model'] = mod
            exec(compile(tatsu.to_python_model(eg, name='Ebnfish'), '<ebnfish_model>', 'exec'), mod.__dict__)   # noqa: S102
        except Exception as e:  # noqa: BLE001
            out['skip'] = f'prelude failed: {type(e).__name__}: {e}'[:200]
            return out
    try:
        m = tatsu.compile(case['ebnf'], name=case.get('name'))
    except Exception as e:  # noqa: BLE001
        out['skip'] = f'source does not compile: {type(e).__name__}: {e}'[:200]
        return out
    ref_model = simplify(from_model(m))
    try:
        ref_opt = simplify(from_model(m.optimized()))       # the source generators work on the optimized model
    except Exception:  # noqa: BLE001
        ref_opt = ref_model
    ref_beh = behaviour(m, case['texts'])
    out['behaviour'] = ref_beh

    def check(route, build):
        try:
            m2 = build()
        except Exception as e:  # noqa: BLE001
            P.append(f'{route}: reload raised {type(e).__name__}: {str(e)[:160]}')
            return
        try:
            got = simplify(from_model(m2))
            want = ref_model
            if route == 'python-source':
                want = dict(ref_opt)
                got['name'] = want.get('name')         # the generated module is given its own parser name
            d = diff_path(want, got)
            if d:
                P.append(f'{route}: reloaded model differs: {d}')
            b2 = behaviour(m2, case['texts'])
            for t, x, y in zip(case['texts'], ref_beh, b2):
                if x != y:
                    P.append(f'{route}: behaviour differs on {t!r}: original {x} reloaded {y}')
                    break
        except Exception as e:  # noqa: BLE001
            P.append(f'{route}: comparing the reloaded model raised {type(e).__name__}: {str(e)[:160]}')

    def via_json():
        js = m.asjson()
        text = json.dumps(js)
        return Grammar.load(json.loads(text))

    def via_jsons():
        return Grammar.loads(m.asjsons()) if hasattr(Grammar, 'loads') else Grammar.load(json.loads(m.asjsons()))

    def via_pickle():
        return pickle.loads(pickle.dumps(m))

    def via_source():
        from tatsu.api import to_parsermodel_sourcecode
        src = to_parsermodel_sourcecode(case['ebnf'], name=case.get('name') or 'Ser')
        ns = {}
        exec(compile(src, '<modelsource>', 'exec'), ns)
        gm = ns.get('GRAMMAR_MODEL')
        if gm is None:
            raise RuntimeError('generated module has no GRAMMAR_MODEL')
        return gm
    def via_source_parser():
        from tatsu.api import to_parsermodel_sourcecode
        src = to_parsermodel_sourcecode(case['ebnf'], name='Ser')
        ns = {}
        exec(compile(src, '<modelsource>', 'exec'), ns)
        parser = ns['SerParser']()

        class AsModel:          # behaviour() calls .parse(text, start=...) and reads .rules
            rules = ns['GRAMMAR_MODEL'].rules

            def parse(self, text, **kw):
                return parser.parse(text, asmodel=False, **kw)
        return AsModel()

    try:
        b3 = behaviour(via_source_parser(), case['texts'])
        for t, x, y in zip(case['texts'], ref_beh, b3):
            if x != y:
                P.append(f'python-source parser class: behaviour differs on {t!r}: original {x} generated parser {y}')
                break
    except Exception as e:  # noqa: BLE001
        P.append(f'python-source parser class: {type(e).__name__}: {str(e)[:160]}')
    check('json', via_json)
    check('jsons', via_jsons)
    check('pickle', via_pickle)
    check('python-source', via_source)
    # the model-building variant of the same grammar (compile(asmodel=True)) must survive pickling too
    try:
        clear_caches()
        ma = tatsu.compile(case['ebnf'], name=case.get('name'), asmodel=True)
        ref_a = behaviour(ma, case['texts'])
        try:
            mb = pickle.loads(pickle.dumps(ma))
            bb = behaviour(mb, case['texts'])
            for t, x, y in zip(case['texts'], ref_a, bb):
                if x != y:
                    P.append(f'pickle of the asmodel=True model: behaviour differs on {t!r}: original {x} reloaded {y}')
                    break
        except Exception as e:  # noqa: BLE001
            P.append(f'pickle of the asmodel=True model: reload raised {type(e).__name__}: {str(e)[:160]}')
    except Exception:  # noqa: BLE001
        pass
    # converting parse results to JSON
    try:
        from tatsu.util.asjson import asjson
        for t in case['texts']:
            try:
                v = m.parse(t, **({'start': 'start'} if any(r.name == 'start' for r in m.rules) else {}))
            except Exception:  # noqa: BLE001
                continue
            json.dumps(asjson(v))
    except Exception as e:  # noqa: BLE001
        P.append(f'asjson of a parse result: {type(e).__name__}: {str(e)[:160]}')
    return out


SYNTAX = [
    # identifiers and values that BEGIN with a literal token of the TatSu grammar (None, False, True, null, name, int ...): a parser
    # whose name guard is off takes the token and stops in the middle of the word
    "start[nullable] = 'a' ;\n", "start(kind=Trueish) = 'a' ;\n", "start::Nonesuch = 'a' ;\n", "start[Falsey, Nonez] = 'a' ;\n",
    "@@whitespace :: Nonesense\nstart = 'a' ;\n", "@@nameguard :: Truely\nstart = 'a' ;\n", "@@left_recursion :: Falsehood\nstart = 'a' ;\n",
    "start = @namely ;\n", "start = @intx 'a' ;\n", "start = 'a' includes ;\nincludes = 'b' ;\n", "@@keyword :: keywords Nones\nstart = 'a' ;\n",
    "starter = 'a' ;\n@nameless\nx = 'b' ;\n", "@override\nstart = 'a' ;\n", "@overrides\nstart = 'a' ;\n", "start = x:'a' ;\n@nomemos\ny = 'b' ;\n",
    "start: 'a' ;\n", "start ::= 'a' 'b' ;\n", "start := 'a' | 'b'\n\nother: 'c'\n", "start = | 'a' | 'b' ;\n",
    "@@grammar :: Foo\n@@whitespace :: /\\s+/\n@@nameguard :: False\n@@ignorecase\n@@keyword :: if then\n@@keyword :: (a b)\n@@keyword :: 'x' \"y\"\nstart: 'a' | 'b' 'c' ;\n",
    "@@memoization :: False\n@@parseinfo\n@@left_recursion :: True\n@@namechars :: '$-'\n@@whitespace :: ' \\t'\n@@whitespace :: False\nstart: 'a' ;\n",
    "@@comments :: /\\(\\*.*?\\*\\)/\n@@eol_comments :: ?\"//.*?$\"\nstart: 'a' ;\n",
    'start: @name @int @uint @float @bool ;\n', "start: ^`warn` ^^^`more` 'a' ;\n",
    "start: ','.{'a'}+ ';'%{'b'} ','.{'c'}* ','%{'d'}- ';'.{'e'}- ;\n", "start: '+'<{'1'}+ '^'>{'2'}+ '-'<{'3'}- ;\n",
    "start: (?: 'a' | 'b') ('c') $ ;\n", "start: 'a' >> 'b' ~ 'c' ;\n",
    "start: {'a'}+ {'b'}- {'c'}* {'d'} {} 'e'+ 'f'* 'g'? ;\n", "start: ['a'] &'b' !'c' 'b' ->'d' ->&'e' !() $ ;\n",
    "start: 'a' /./ 'b' $-> 'c' () $ ;\n", 'start: a=b c+=b d:b e+:b ;\nb: /x/ ;\n', 'start: @:b @+:b =b +=b ;\nb: /x/ ;\n',
    'start: ?/ab+/? ?\'x\' ?"y" /z/ /a/ + /b/ ;\n', "start: `x` `1` ```abc``` `a b c` `1.5` `True` `None` `0x1F` `007` 'k' ;\n",
    "@name\nstart: a ;\n@override\nstart: 'b' ;\na: 'x' ;\n", "@nomemo\nstart: a ;\n@isname @nostak\na: 'x' ;\n",
    "a: 'x' ;\nstart[Foo, 1, x=2]: >a 'y' ;\nb(Bar) < a: 'z' ;\nc::Baz: 'q' ;\nd::Baz::Base: 'r' ;\n",
    "start[Foo, 'bar', 1.5, -3, True, None, x=1, y='z', w=q]: 'a' ;\n", "start[0x1F]: 'a' ;\n", "start[1e5, .5, +7]: 'a' ;\n", "start[a::b]: 'a' ;\n",
    "start(k=1): 'a' ;\n", "start: r'a\\b' 'c\\\\d' \"e'f\" '''g\nh''' \"\"\"i\"\"\" ;\n", "start: 'a', 'b', c ;\nc: 'c' ;\n",
    "# comment\nstart: 'a'  // another\n  | 'b' /* block */ ;\n(* pascal *) other: 'c' ;\n", "start: 'a'\n\n\nsecond: 'b'\n", "start: a b\n\na: 'a'\nb: 'b'\n",
    "start: x:'a' ~ y:{'b' ~}+ $ ;\n", "start: 'é' /[α-ω]+/ '世界' ;\n", "start: '' ;\n", "start: ;\n", "start 'a' ;\n", "start: 'a' | ;\n",
    "start: ('a' ;\n", "@@unknown :: 1\nstart: 'a' ;\n", "start: a ;\n", "start: 'a' ;\nstart: 'b' ;\n", "@@keyword :: \nstart: 'a' ;\n",
    "start: /[/ ;\n", "start: {'a'}+- ;\n", "start: @nosuch ;\n", "Start: 'a' ;\nlower: Start ;\n", "_: 'a' ;\n__x: _ ;\n",
]


def mutate(text, rnd, n):
    """n texts near `text`: one insertion, deletion or transposition of a character"""
    out = []
    pool = " \n;:|'\"()[]{}<>=@~`/\\$&!?+*-.,#^%ax1_"
    for _ in range(n):
        if not text:
            break
        i = rnd.randrange(len(text))
        k = rnd.random()
        if k < 0.34:
            out.append(text[:i] + rnd.choice(pool) + text[i:])
        elif k < 0.67:
            out.append(text[:i] + text[i + 1:])
        elif i + 1 < len(text):
            out.append(text[:i] + text[i + 1] + text[i] + text[i + 2:])
    return out


_boot = {}


def _boot_parsers():
    if _boot:
        return _boot
    import tatsu
    from tatsu.api import boot_grammar
    src = tatsu.to_python_sourcecode(tatsu.grammar, name='Regen')
    ns = {}
    exec(compile(src, '<regen>', 'exec'), ns)
    _boot['B'] = tatsu.compile(tatsu.grammar, name='FromGrammarFile')
    _boot['C'] = ns['RegenParser']
    _boot['D'] = boot_grammar()
    return _boot


def run_boot_case(case):
    """C15 for a batch of grammar texts: A shipped bootstrap parser, B compiled _tatsu.ebnf, C regenerated parser, D shipped GRAMMAR_MODEL."""
    import signal
    import tatsu
    from tatsu.exceptions import ParseException
    from tatsu.peg.semantics import GrammarSemantics
    from .impl import clear_caches
    P = _boot_parsers()

    class TO(BaseException):
        pass

    def h(*a):
        raise TO()
    signal.signal(signal.SIGALRM, h)
    out = []

    def run(fn):
        signal.alarm(20)
        try:
            m = fn()
            return ['ok', simplify(from_model(m))]
        except TO:
            return ['timeout', None]
        except ParseException as e:
            return ['reject', type(e).__name__]
        except RecursionError:
            return ['exc', 'RecursionError']
        except Exception as e:  # noqa: BLE001
            return ['exc', f'{type(e).__name__}: {str(e)[:80]}']
        finally:
            signal.alarm(0)
    for text in case['texts']:
        clear_caches()
        r = {
            'A': run(lambda: tatsu.compile(text, name='M')),
            'B': run(lambda: P['B'].parse(text, semantics=GrammarSemantics('M'))),
            'C': run(lambda: P['C']().parse(text, semantics=GrammarSemantics('M'))),
            'D': run(lambda: P['D'].parse(text, semantics=GrammarSemantics('M'))),
        }
        prob = None
        for k in 'BCD':
            if r[k][0] != r['A'][0] and not (r[k][0] in ('reject', 'exc') and r['A'][0] in ('reject', 'exc')):
                prob = f"{k} {r[k][0]} ({str(r[k][1])[:80] if r[k][0] != 'ok' else 'model'}) but A {r['A'][0]} ({str(r['A'][1])[:80] if r['A'][0] != 'ok' else 'model'})"
                break
            if r[k][0] == 'ok' and r['A'][0] == 'ok':
                d = diff_path(r['A'][1], r[k][1])
                if d:
                    prob = f'{k} builds a different model than A: {d}'
                    break
        foreign = [f'{k}: {r[k][1]}' for k in 'ABCD' if r[k][0] in ('exc', 'timeout')]
        out.append({'text': text, 'decision': {k: r[k][0] for k in 'ABCD'}, 'problem': prob, 'foreign': foreign})
    return out
