"""Entry point: /venv/bin/python -m harness.check <Cxx> [--tier quick|thorough]"""
import importlib, os, sys, traceback
from .common import tier as env_tier, clean_scratch
from .tlc import MachineryError


def main(argv):
    prop = argv[1]
    t = 'quick'
    if '--tier' in argv:
        t = argv[argv.index('--tier') + 1]
    t = os.environ.get('VERIF_TIER') or t
    os.environ.setdefault('PYTHONHASHSEED', '0')
    os.environ.setdefault('TATSU_VERIF', '1')
    mod = importlib.import_module(f'harness.drivers.{prop.lower()}')
    try:
        return mod.run(t)
    except MachineryError as e:
        print(f'MACHINERY-FAILURE property={prop}: {e}', file=sys.stderr)
        return 2
    except Exception:
        traceback.print_exc()
        return 2


if __name__ == '__main__':
    sys.exit(main(sys.argv))
