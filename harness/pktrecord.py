"""Code -> spec for C19 (queue part): record executions in which a writer thread really calls PacketzQueue.send() while reader
threads really call receive() on their own queue objects over the same file, as traces for spec/PacketQueueTrace.tla.

send() and receive() are not atomic, so each call is logged by its start and its end; the records are appended under one lock, which
gives a total order without any clock.  Packet numbers, the readers' cumulative deliveries and their offsets (as counts of whole
records) are computed after the run from the ids send() returned and from the bytes of the file."""
from __future__ import annotations

import os
import random
import shutil
import tempfile
import threading
import time


def _ev(ev, p=0, r='', got=(), told=0):
    return {'ev': ev, 'p': p, 'r': r, 'got': list(got), 'told': told}


def record_queue_run(case):
    """case: {np, readers: [names], seed, big: bool} -> {'ev': [...], 'np': n, 'readers': [...]} (or {'error': ...})"""
    rnd = random.Random(case['seed'])
    d = tempfile.mkdtemp(prefix='pktz-t-', dir=os.environ.get('VERIF_SCRATCH'))
    cwd = os.getcwd()
    os.chdir(d)
    try:
        from tatsu.packetz.queue import PacketzQueue
        path = os.path.join(d, 'q.jsonl')
        writer = PacketzQueue(path)
        readers = {r: PacketzQueue(path) for r in case['readers']}
        lock = threading.Lock()
        raw = []
        idnum = {}
        done = threading.Event()
        errors = []

        def log(*e):
            with lock:
                raw.append(e)

        def payload(p):
            n = rnd.choice([5, 40, 3000, 200000]) if case.get('big') else rnd.choice([5, 40, 400])
            return ''.join(rnd.choice('abcdefgh~1 ') for _ in range(n)) + f'#{p}'
        payloads = {p: payload(p) for p in range(1, case['np'] + 1)}

        def write():
            try:
                for p in range(1, case['np'] + 1):
                    log('sendstart', p)
                    pkt = writer.send(to='rcpt', data=payloads[p])
                    idnum[pkt.id] = p
                    log('sendend', p)
                    if rnd.random() < 0.7:
                        time.sleep(rnd.choice([0.0002, 0.001, 0.003]))
            except Exception as e:  # noqa: BLE001
                errors.append(f'send raised {type(e).__name__}: {e}')
            finally:
                done.set()

        def read(r):
            q = readers[r]
            try:
                last = False
                while True:
                    log('recvstart', r)
                    ids = [pk.id for pk in q.receive()]
                    log('recvend', r, ids, q._told)
                    if last:
                        break
                    if done.is_set():
                        last = True            # one more round after the writer finished
            except Exception as e:  # noqa: BLE001
                errors.append(f'receive raised {type(e).__name__}: {e}')

        ths = [threading.Thread(target=write)] + [threading.Thread(target=read, args=(r,)) for r in case['readers']]
        for t in ths:
            t.start()
        for t in ths:
            t.join(60)
        if errors or any(t.is_alive() for t in ths):
            return {'error': '; '.join(errors) or 'a thread did not finish', '_case': case}
        data = open(path, 'rb').read()
        bounds, off = {0: 0}, 0
        for k, line in enumerate(data.split(b'\n')[:-1], 1):
            off += len(line) + 1
            bounds[off] = k
        ev, got = [], {r: [] for r in case['readers']}
        for e in raw:
            if e[0] in ('sendstart', 'sendend'):
                ev.append(_ev(e[0], p=e[1]))
            elif e[0] == 'recvstart':
                ev.append(_ev('recvstart', r=e[1]))
            else:
                _, r, ids, told = e
                got[r] = got[r] + [idnum.get(i, 0) for i in ids]
                ev.append(_ev('recvend', r=r, got=got[r], told=bounds.get(told, -1)))
        ev.append(_ev('end'))
        return {'ev': ev, 'np': case['np'], 'readers': case['readers'], '_case': case}
    finally:
        os.chdir(cwd)
        shutil.rmtree(d, ignore_errors=True)
