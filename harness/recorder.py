"""Recording executions of the real engine through its public Tracer protocol (no change to /repo): ParserCore.update_tracer is
wrapped so that every parse context gets a recording tracer.  Guarded by TATSU_VERIF=1."""
from __future__ import annotations

import os

EVENTS = []
_installed = {}


def proj(x):
    """Real value -> tagged spec value (spec/PegValues.tla)."""
    if x is None:
        return {'t': 'n'}
    if isinstance(x, tuple) and not x:
        return {'t': 'u'}
    if isinstance(x, bool):
        return {'t': 'b', 'v': x}
    if isinstance(x, int):
        return {'t': 'i', 'v': abs(x), 'neg': x < 0} if x < 0 else {'t': 'i', 'v': x}
    if isinstance(x, float):
        return {'t': 'f', 'v': list(repr(x))}
    if isinstance(x, str):
        return {'t': 's', 'v': list(x)}
    if isinstance(x, dict):
        return {'t': 'd', 'v': [[('@' if k == '__vallue__' else k), proj(v)] for k, v in x.items() if k not in ('parseinfo', '__parseinfo__')], 'pi': []}
    if isinstance(x, (list, tuple)):
        # a plain list is an OPEN list for the CST algebra (contexts/cst.py: islist), tuples and closedlists are closed
        return {'t': 'l', 'c': type(x) is not list, 'v': [proj(v) for v in x]}
    if hasattr(x, '__tag__'):          # the tagging action of the C06 family (PegValues!Tagged)
        return {'t': 'g', 'r': x.__tag__, 'v': proj(x.v)}
    return {'t': 'x', 'v': f'{type(x).__name__}@{id(x):x}'}      # an opaque object (result of a semantic action)


def install():
    if os.environ.get('TATSU_VERIF') != '1':
        raise RuntimeError('recorders are only installed when TATSU_VERIF=1')
    if _installed:
        return
    from tatsu.contexts import core
    from tatsu.contexts.tracing import NullTracer

    class Rec(NullTracer):
        def trace_entry(self, ctx):
            EVENTS.append({'ev': 'enter', 'rule': ctx.callstack[-1].name, 'pos': ctx.pos})

        def trace_success(self, ctx):
            EVENTS.append({'ev': 'ok', 'rule': ctx.callstack[-1].name, 'pos': ctx.pos, 'v': proj(ctx.last_node)})

        def trace_failure(self, ctx, ex=None):
            EVENTS.append({'ev': 'fail', 'rule': ctx.callstack[-1].name, 'pos': ctx.pos})

        def trace_cut(self, ctx):
            EVENTS.append({'ev': 'cut', 'pos': ctx.pos})

        def trace_match(self, ctx, token, name=None, failed=False):
            EVENTS.append({'ev': 'match', 'ok': not failed, 'pos': ctx.pos, 'kind': str(name or 'tok')})

    _installed['orig'] = core.ParserCore.update_tracer

    def update_tracer(self):
        self.tracer = Rec()
        return self.tracer
    core.ParserCore.update_tracer = update_tracer


def uninstall():
    if _installed:
        from tatsu.contexts import core
        core.ParserCore.update_tracer = _installed.pop('orig')


def record_case(case):
    """{ebnf, g (abstract grammar with marks), cfg, texts, settings, start[, sem: action kind of the C06 family]} -> list of trace
    records (one per text)"""
    os.environ.setdefault('TATSU_VERIF', '1')
    import tatsu
    from tatsu.exceptions import FailedParse
    from .impl import clear_caches
    install()
    clear_caches()
    out = []
    try:
        model = tatsu.compile(case['ebnf'])
    except Exception as e:  # noqa: BLE001
        return [{'error': f'{type(e).__name__}: {e}'[:200]}]
    marks = {r.name: [bool(r.is_lrec), bool(r.is_memo and not r.no_memo)] for r in model.rules}
    parser_cls = None
    if case.get('backend') == 'gen':
        # the generated parser of the same grammar: its executions are validated against the generated-parser flavour of PegMachine
        try:
            src = tatsu.to_python_sourcecode(case['ebnf'], name='Rec')
            ns = {}
            exec(compile(src, '<generated>', 'exec'), ns)   # noqa: S102
            parser_cls = ns['RecParser']
        except Exception as e:  # noqa: BLE001
            return [{'error': f'generated parser: {type(e).__name__}: {e}'[:200]}]
    g = dict(case['g'])
    g['rules'] = [dict(r, lrec=marks.get(r['name'], [False, True])[0], memo=marks.get(r['name'], [False, True])[1]) for r in g['rules']]
    for text in case['texts']:
        EVENTS.clear()
        try:
            kw = dict(case.get('settings') or {})
            if case.get('sem') not in (None, 'none'):
                from .impl import make_semantics
                kw['semantics'] = make_semantics(case['sem'], case['cfg'].get('actrule', '*'))
            if parser_cls is not None:
                parser_cls().parse(text, start=case.get('start', 's'), **kw)
            else:
                model.parse(text, start=case.get('start', 's'), **kw)
            ok = True
        except FailedParse:
            ok = False
        except Exception as e:  # noqa: BLE001
            out.append({'error': f'{type(e).__name__}: {e}'[:200], 'text': text})
            continue
        evs = []
        for e in EVENTS:
            e = dict(e)
            e.setdefault('rule', '')
            e.setdefault('ok', True)
            e.setdefault('kind', '')
            e.setdefault('v', {'t': 'n'})
            evs.append(e)
        cfg = dict(case['cfg'], backend='gen') if parser_cls is not None else case['cfg']
        out.append({'g': g, 'cfg': cfg, 'inp': list(text), 'start': case.get('start', 's'), 'ok': ok, 'ev': evs})
    return out
