CONSTANT WS = {" "}
INIT Init
NEXT Next
INVARIANT Refines
INVARIANT StackOK
CHECK_DEADLOCK FALSE
