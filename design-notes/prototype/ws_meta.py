import json, sys, random, signal
sys.path.insert(0, '/tmp/scr')
import tatsu
from tatsu.exceptions import FailedParse
src = open('/tmp/proto/cmp.py').read()
exec(src[src.index('def render'):src.index('def conv')])
def norm(x):
    if isinstance(x, dict): return {k: norm(v) for k, v in x.items()}
    if isinstance(x, (list, tuple)): return [norm(v) for v in x]
    return x
random.seed(3)
import subprocess
subprocess.run(['python3', '/tmp/proto/gen.py', '1500', '21'], check=True)
cases = json.load(open('/tmp/proto/cases.json'))
RUNS = [' ', '  ', '\t', '\n', '\r\n', ' # c\n', ' (* k *) ', '\n\n  ']
bad = 0; n = 0
for c in cases:
    gtxt = "@@comments :: /\\(\\*.*?\\*\\)/\n@@eol_comments :: /(?m)#.*?$/\n" + '\n'.join(f"{r['name']} = {render(r['exp'])} ;" for r in c['g']['rules'])
    toks = [t for t in c['inp'] if t != ' ']
    if not toks: continue
    try: m = tatsu.compile(gtxt)
    except Exception as e: print('compile', e); continue
    def run(text):
        try: return ('ok', norm(m.parse(text)))
        except FailedParse: return ('fail', None)
    base = run(' '.join(toks))
    for k in range(6):
        seps = [random.choice(RUNS) for _ in toks]
        text = random.choice(['', ' ', '\n', '# x\n']) + ''.join(t + s for t, s in zip(toks, seps))
        r = run(text); n += 1
        if r != base:
            bad += 1
            if bad <= 8: print('---', gtxt.split('\n', 2)[2].replace('\n', ' ')); print(repr(' '.join(toks)), base); print(repr(text), r)
    tatsu.api.api.__dict__['__compiled_grammar_cache'].clear()
print('layouts', n, 'bad', bad)
