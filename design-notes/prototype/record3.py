import json, sys, signal
sys.path.insert(0, '/tmp/scr')
import tatsu
from tatsu.exceptions import FailedParse
src = open('/tmp/proto/cmp.py').read()
exec(src[src.index('def render'):src.index('def conv')])
def proj(x):
    if x is None: return {'t': 'n'}
    if isinstance(x, tuple) and not x: return {'t': 'u'}
    if isinstance(x, str): return {'t': 's', 'v': list(x)}
    if isinstance(x, dict): return {'t': 'd', 'v': [[k, proj(v)] for k, v in x.items()]}
    if isinstance(x, (list, tuple)): return {'t': 'l', 'c': True, 'v': [proj(v) for v in x]}
    raise Exception(type(x))
out = []
for gen in sys.argv[1:]:
    import subprocess; subprocess.run(['python3', f'/tmp/proto/{gen}'], check=True, stdout=subprocess.DEVNULL)
    cases = json.load(open('/tmp/proto/cases.json'))
    models = {}
    for c in cases:
        gtxt = '\n'.join(f"{r['name']} = {render(r['exp'])} ;" for r in c['g']['rules'])
        if gtxt not in models: models[gtxt] = tatsu.compile(gtxt)
        m = models[gtxt]
        marks = {r.name: (bool(r.is_lrec), bool(r.is_memo and not r.no_memo)) for r in m.rules}
        g = {'rules': [dict(r, lrec=marks[r['name']][0], memo=marks[r['name']][1]) for r in c['g']['rules']]}
        try:
            v = m.parse(''.join(c['inp']), nameguard=False); ok = True
        except FailedParse:
            v = None; ok = False
        except RecursionError:
            continue
        out.append({'fam': c.get('fam', ''), 'g': g, 'inp': c['inp'], 'ok': ok, 'val': proj(v)})
json.dump(out, open('/tmp/proto/traces.json', 'w'))
print(len(out))
