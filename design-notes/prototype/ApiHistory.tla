------------------------------ MODULE ApiHistory ------------------------------
\* prototype: tatsu.api.compile / parse with the process-wide compiled-grammar cache
EXTENDS Naturals, Sequences, FiniteSets, TLC
CONSTANTS Grammars, Names, Sems, AsIs     \* AsIs = TRUE: design as coded; FALSE: design the property requires
NoSem == "none"
Args == [op : {"compile", "parse"}, g : Grammars, name : Names, sem : Sems \cup {NoSem}, asmodel : BOOLEAN, ic : BOOLEAN]

VARIABLES cache,    \* key -> model id
          models,   \* model id -> [g, sem, ic]   (sem in Sems, "none", "builder")
          resp, last, ncalls
vars == <<cache, models, resp, last, ncalls>>

Ideal(a) == [g |-> a.g,
             sem |-> IF a.sem # NoSem THEN a.sem ELSE IF a.asmodel THEN "builder" ELSE "none",
             ic |-> a.ic]

Key(a) == IF AsIs THEN <<a.name, a.g, a.sem>> ELSE <<a.name, a.g, a.sem, a.asmodel, a.ic>>
NewId == Cardinality(DOMAIN models) + 1

Init == cache = <<>> /\ models = <<>> /\ resp = "none" /\ last = "none" /\ ncalls = 0

\* compile(): returns (and as coded, mutates) the cached model
DoCompile(a, name) ==
  LET key == Key([a EXCEPT !.name = name])
      hit == key \in DOMAIN cache
      m == IF hit THEN cache[key] ELSE NewId
      base == IF hit THEN models[m]
              ELSE [g |-> a.g, sem |-> "none", ic |-> IF AsIs THEN FALSE ELSE a.ic]     \* as coded: settings never reach the model
      sem2 == IF a.sem # NoSem THEN a.sem ELSE IF a.asmodel THEN "builder" ELSE (IF AsIs THEN base.sem ELSE "none")
      mdl == [base EXCEPT !.sem = sem2]
  IN [m |-> m, mdl |-> mdl, key |-> key]

Compile(a) == /\ a.op = "compile"
              /\ LET c == DoCompile(a, a.name) IN
                 /\ cache' = (c.key :> c.m) @@ cache
                 /\ models' = (c.m :> c.mdl) @@ models
                 /\ resp' = c.mdl
              /\ last' = a /\ ncalls' = ncalls + 1

\* tatsu.parse(): compile(grammar, config, asmodel) with name/semantics NOT forwarded, then semantics := given or model's
Parse(a) == /\ a.op = "parse"
            /\ LET c == DoCompile([a EXCEPT !.sem = NoSem], IF AsIs THEN "none" ELSE a.name) IN
               /\ cache' = (c.key :> c.m) @@ cache
               /\ models' = (c.m :> c.mdl) @@ models
               /\ resp' = [g |-> a.g,
                           sem |-> IF a.sem # NoSem THEN a.sem ELSE c.mdl.sem,
                           ic |-> a.ic]                                   \* explicit parse-time settings do apply
            /\ last' = a /\ ncalls' = ncalls + 1

Next == \E a \in Args : Compile(a) \/ Parse(a)
Spec == Init /\ [][Next]_vars
HistoryIndependent == ncalls > 0 => resp = Ideal(last)
Bound == ncalls <= 3
=============================================================================
