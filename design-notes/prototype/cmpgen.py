import json, sys, re
sys.path.insert(0, '/tmp/scr')
import tatsu
from tatsu.exceptions import FailedParse
cases = json.load(open('/tmp/proto/cases.json'))
res = {}
for line in open('/tmp/proto/out.txt'):
    if line.startswith('"RES'):
        s = json.loads(line)
        _, i, js = s.split(' ', 2)
        res[int(i)] = json.loads(js)
def render(e):
    op = e['op']
    if op == 'tok': return repr(''.join(e['s']))
    if op == 'void': return '()'
    if op == 'eof': return '$'
    if op == 'cut': return '~'
    if op == 'call': return e['name']
    if op == 'seq': return ' '.join(render(x) if x['op']!='alt' else '('+render(x)+')' for x in e['es'])
    if op == 'alt': return ' | '.join(render(x) if x['op'] != 'alt' else '('+render(x)+')' for x in e['es'])
    if op == 'group': return '(' + render(e['e']) + ')'
    if op == 'opt': return '[' + render(e['e']) + ']'
    if op == 'star': return '{' + render(e['e']) + '}'
    sub = render(e['e'])
    if e['e']['op'] in ('seq','alt','named','ovr'): sub = '(' + sub + ')'
    if op == 'named': return e['name'] + ':' + sub
    if op == 'ovr': return '@:' + sub
    if op == 'not': return '!' + sub
    if op == 'and': return '&' + sub
    raise Exception(op)
def conv(v):
    t = v['t']
    if t == 'n': return None
    if t == 'u': return ()
    if t == 's': return ''.join(v['v']) if isinstance(v['v'], list) else v['v']
    if t == 'l': return [conv(x) for x in v['v']]
    if t == 'd': return {('__vallue__' if k=='@' else k): conv(x) for k, x in v['v']}
def norm(x):
    if isinstance(x, dict): return {k: norm(v) for k, v in x.items()}
    if isinstance(x, (list, tuple)): return [norm(v) for v in x]
    return x
bad = 0; n=0; cerr=0
for i, c in enumerate(cases, 1):
    gtxt = '\n'.join(f"{r['name']} = {render(r['exp'])} ;" for r in c['g']['rules'])
    text = ''.join(c['inp'])
    try:
        src_ = tatsu.to_python_sourcecode(gtxt, name='T'); ns_ = {}; exec(compile(src_, '<g>', 'exec'), ns_); m = ns_['TParser']()
    except Exception as e:
        cerr += 1
        continue
    n += 1
    try:
        got = ('ok', norm(m.parse(text, nameguard=False)))
    except FailedParse as e:
        got = ('fail', None)
    except RecursionError:
        got = ('rec', None)
    exp = ('ok', norm(conv(res[i]['v']))) if res[i]['ok'] else ('fail', None)
    if got != exp:
        bad += 1
        if bad <= 25:
            print('---', i); print(gtxt); print(repr(text)); print(' impl', got); print(' spec', exp)
print('cases', n, 'mismatch', bad, 'compile errors', cerr)
