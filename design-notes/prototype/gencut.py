import json, itertools, copy
def T(c): return {'op':'tok','s':[c]}
def C(n): return {'op':'call','name':n}
def SEQ(*es): return {'op':'seq','es':list(es)}
def ALT(*es): return {'op':'alt','es':list(es)}
def OPT(e): return {'op':'opt','e':e}
def STAR(e): return {'op':'star','e':e}
def GRP(e): return {'op':'group','e':e}
CUT = {'op':'cut'}
a,b,c,q = T('a'),T('b'),T('c'),T('q')
skeletons = {
 'choice':        [('s', ALT(SEQ(a,b), SEQ(a,c)))],
 'choice-in-group': [('s', ALT(SEQ(q, GRP(ALT(SEQ(a,b), SEQ(a,c)))), SEQ(q,a,a)))],
 'optional':      [('s', SEQ(OPT(SEQ(a,b)), a, c))],
 'closure':       [('s', SEQ(STAR(SEQ(a,b)), a, c))],
 'closure-choice':[('s', ALT(SEQ(STAR(SEQ(a,b)), c), SEQ(a,b,a,a)))],
 'rulebody':      [('s', ALT(C('x'), SEQ(a,c))), ('x', SEQ(a,b))],
 'rule-choice':   [('s', ALT(SEQ(C('x'), c), SEQ(a,b,b))), ('x', ALT(SEQ(a,b), SEQ(a,c)))],
 'group-seq':     [('s', ALT(SEQ(GRP(SEQ(a,b)), c), SEQ(a,b,b)))],
 'opt-in-choice': [('s', ALT(SEQ(OPT(SEQ(a,b)), c), SEQ(a,a)))],
 'nested-closure':[('s', SEQ(STAR(SEQ(a, STAR(b), c)), a, a))],
}
def seq_nodes(e, path=()):
    out = []
    if e['op'] == 'seq': out.append(path)
    if 'es' in e:
        for i, x in enumerate(e['es']): out += seq_nodes(x, path + (('es', i),))
    if 'e' in e: out += seq_nodes(e['e'], path + (('e',),))
    return out
def get(e, path):
    for p in path:
        e = e[p[0]][p[1]] if len(p) == 2 else e[p[0]]
    return e
grams = []
for name, rules in skeletons.items():
    grams.append((name, 'nocut', rules))
    for ri, (rn, body) in enumerate(rules):
        for path in seq_nodes(body):
            n = len(get(body, path)['es'])
            for k in range(0, n + 1):
                rules2 = copy.deepcopy(rules)
                get(rules2[ri][1], path)['es'].insert(k, CUT)
                grams.append((name, f'{rn}:{path}:{k}', rules2))
inputs = [list(t) for L in range(0, 6) for t in itertools.product('abcq', repeat=L) if L < 5 or t[0] in 'aq']
cases = []
for name, where, rules in grams:
    g = {'rules': [{'name': n, 'exp': e} for n, e in rules]}
    for inp in inputs:
        if 'q' in inp and name != 'choice-in-group': continue
        cases.append({'fam': name, 'where': where, 'g': g, 'inp': inp})
json.dump(cases, open('/tmp/proto/cases.json', 'w'))
print(len(grams), len(inputs), len(cases))
