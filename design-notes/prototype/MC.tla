------------------------------ MODULE MC ------------------------------
EXTENDS Naturals, Sequences, TLC, Json, IOUtils
T(s) == [op |-> "tok", s |-> s]
G0 == [rules |-> <<
   [name |-> "s", exp |-> [op |-> "seq", es |-> <<T(<<"a">>), [op |-> "star", e |-> T(<<"b">>)], [op|->"named", name |-> "x", e |-> [op|->"call", name|->"y"]], [op |-> "eof"]>>]],
   [name |-> "y", exp |-> [op |-> "alt", es |-> <<T(<<"c">>), T(<<"d">>)>>]]
 >>]
I0 == <<"a"," ","b","b"," ","d">>
W == {" "}
S == INSTANCE PegSem WITH G <- G0, Inp <- I0, WS <- W
VARIABLE x
Init == x = 0
Next == x' = x
ASSUME PrintT(S!Parse)
ASSUME PrintT(ToJson(S!Parse))
=============================================================================
