------------------------------ MODULE Diff ------------------------------
EXTENDS PegDoc, Json, IOUtils
Cases == JsonDeserialize("/tmp/proto/cases.json")
VARIABLES id, done
Init == \E i \in 1..Len(Cases) : id = i /\ G = Cases[i].g /\ Inp = Cases[i].inp /\ done = FALSE
\* dict comparison must ignore order: normalise by sorting is heavy; compare as sets of pairs recursively
RECURSIVE VEq(_, _)
VEq(a, b) == /\ a.t = b.t
             /\ CASE a.t \in {"n", "u"} -> TRUE
                  [] a.t = "s" -> a.v = b.v
                  [] a.t = "l" -> Len(a.v) = Len(b.v) /\ \A i \in 1..Len(a.v) : VEq(a.v[i], b.v[i])
                  [] a.t = "d" -> /\ Len(a.v) = Len(b.v)
                                  /\ \A i \in 1..Len(a.v) : \E j \in 1..Len(b.v) : a.v[i][1] = b.v[j][1] /\ VEq(a.v[i][2], b.v[j][2])
                  [] OTHER -> FALSE
Same == LET a == Parse b == DocParse IN a.ok = b.ok /\ (a.ok => (a.pos = b.pos /\ VEq(a.v, b.v)))
Next == /\ ~done /\ done' = TRUE /\ UNCHANGED <<G, Inp, id>>
        /\ IF Same THEN TRUE ELSE PrintT("DIFF " \o ToString(id) \o " " \o ToJson([impl |-> Parse, doc |-> DocParse]))
=============================================================================
