------------------------------ MODULE PacketQueue ------------------------------
\* prototype of tatsu/packetz/queue.py : append-only file, readers with byte offsets
EXTENDS Naturals, Sequences, FiniteSets, TLC
CONSTANTS NP,        \* packets 1..NP are sent in this order (ids unique)
          RL,        \* bytes per record incl. newline
          Readers
VARIABLES file,      \* sequence of bytes: <<pkt, k>> = k-th byte of packet pkt; k = RL is the newline
          nextSend,  \* next packet to start sending
          inflight,  \* 0 or the packet whose bytes are being appended, with count written
          told, seen, got
vars == <<file, nextSend, inflight, told, seen, got>>

Init == /\ file = <<>> /\ nextSend = 1 /\ inflight = <<0, 0>>
        /\ told = [r \in Readers |-> 0] /\ seen = [r \in Readers |-> {}] /\ got = [r \in Readers |-> <<>>]

SendBegin == /\ inflight[1] = 0 /\ nextSend <= NP /\ inflight' = <<nextSend, 0>> /\ nextSend' = nextSend + 1
             /\ UNCHANGED <<file, told, seen, got>>
\* the OS appends the record in arbitrary chunks (a crash simply never finishes)
SendChunk(k) == /\ inflight[1] # 0 /\ k >= 1 /\ inflight[2] + k <= RL
                /\ file' = file \o [i \in 1..k |-> <<inflight[1], inflight[2] + i>>]
                /\ inflight' = IF inflight[2] + k = RL THEN <<0, 0>> ELSE <<inflight[1], inflight[2] + k>>
                /\ UNCHANGED <<nextSend, told, seen, got>>

\* receive(): reads the file as visible now (vis = any length between told and Len(file): the read races the write)
RECURSIVE Scan(_, _, _, _, _)
\* returns [told, seen, got] after scanning view from offset o
Scan(view, o, t, s, g) ==
  IF o + RL > Len(view) THEN [told |-> t, seen |-> s, got |-> g]       \* no complete line left (partial → stop, keep t)
  ELSE LET line == SubSeq(view, o + 1, o + RL)
           pkt == line[1][1]
           ok == \A i \in 1..RL : line[i] = <<pkt, i>>                 \* complete & uncorrupted
       IN IF line[RL][2] # RL THEN [told |-> t, seen |-> s, got |-> g] \* cannot happen without corruption
          ELSE IF ok /\ pkt \notin s THEN Scan(view, o + RL, o + RL, s \cup {pkt}, Append(g, pkt))
          ELSE Scan(view, o + RL, o + RL, s, g)

Receive(r, vis) == /\ vis \in told[r]..Len(file)
                   /\ LET res == Scan(SubSeq(file, 1, vis), told[r], told[r], seen[r], got[r]) IN
                      /\ told' = [told EXCEPT ![r] = res.told]
                      /\ seen' = [seen EXCEPT ![r] = res.seen]
                      /\ got' = [got EXCEPT ![r] = res.got]
                   /\ UNCHANGED <<file, nextSend, inflight>>

Next == SendBegin \/ (\E k \in 1..RL : SendChunk(k)) \/ (\E r \in Readers, v \in 0..(NP * RL) : Receive(r, v))
Spec == Init /\ [][Next]_vars

Completed == LET n == Len(file) \div RL IN [i \in 1..n |-> file[i * RL][1]]
IsPrefix(a, b) == Len(a) <= Len(b) /\ \A i \in 1..Len(a) : a[i] = b[i]
InOrderOnce == \A r \in Readers : IsPrefix(got[r], Completed)
ToldSafe == \A r \in Readers : told[r] % RL = 0 /\ told[r] <= Len(file)
ToldMonotone == [][\A r \in Readers : told'[r] >= told[r]]_vars
NothingSkipped == \A r \in Readers : Len(got[r]) = told[r] \div RL
=============================================================================
