CONSTANTS NP = 3
RL = 3
Readers = {r1, r2}
SPECIFICATION Spec
INVARIANT InOrderOnce
INVARIANT ToldSafe
INVARIANT NothingSkipped
PROPERTY ToldMonotone
