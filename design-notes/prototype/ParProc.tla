------------------------------ MODULE ParProc ------------------------------
\* prototype of tatsu/parproc/pmap.py: executor_pmap (windowed branch)
EXTENDS Naturals, Sequences, FiniteSets, TLC
CONSTANTS NT, Window        \* tasks 1..NT, initial window size n = 1 + max_workers
Tasks == 1..NT
VARIABLES unsub,     \* next task index to submit (taskiter position)
          pending,   \* submitted, not yet completed by a worker
          finished,  \* completed by a worker, not yet observed by the generator
          futures,   \* the generator's dict: submitted and not yet popped
          snap,      \* as_completed's working set (snapshot of futures at call time)
          yielded,   \* sequence of yielded tasks
          pc, cur
vars == <<unsub, pending, finished, futures, snap, yielded, pc, cur>>

Init == /\ unsub = 1 /\ pending = {} /\ finished = {} /\ futures = {} /\ snap = {}
        /\ yielded = <<>> /\ pc = "Start" /\ cur = 0

Min(a, b) == IF a < b THEN a ELSE b
InitialSubmit == /\ pc = "Start"
                 /\ LET k == Min(Window, NT) IN
                    /\ futures' = 1..k /\ pending' = 1..k /\ unsub' = k + 1
                 /\ pc' = "While" /\ UNCHANGED <<finished, snap, yielded, cur>>

While == /\ pc = "While"
         /\ IF futures = {} THEN pc' = "Done" /\ snap' = snap
            ELSE pc' = "For" /\ snap' = futures        \* as_completed(futures): snapshot
         /\ UNCHANGED <<unsub, pending, finished, futures, yielded, cur>>

\* environment: a worker completes any pending task at any time
Complete(t) == /\ t \in pending /\ pending' = pending \ {t} /\ finished' = finished \cup {t}
               /\ UNCHANGED <<unsub, futures, snap, yielded, pc, cur>>

\* as_completed yields a finished future from its snapshot
Observe(t) == /\ pc = "For" /\ t \in snap /\ t \in finished
              /\ snap' = snap \ {t} /\ cur' = t
              /\ futures' = futures \ {t}                 \* futures.pop(future)
              /\ pc' = "Refill" /\ UNCHANGED <<unsub, pending, finished, yielded>>

ForEnd == /\ pc = "For" /\ snap = {} /\ pc' = "While" /\ UNCHANGED <<unsub, pending, finished, futures, snap, yielded, cur>>

Refill == /\ pc = "Refill"
          /\ IF unsub <= NT
             THEN futures' = futures \cup {unsub} /\ pending' = pending \cup {unsub} /\ unsub' = unsub + 1
             ELSE UNCHANGED <<futures, pending, unsub>>
          /\ pc' = "Yield" /\ UNCHANGED <<finished, snap, yielded, cur>>

Yield == /\ pc = "Yield" /\ yielded' = Append(yielded, cur) /\ pc' = "For"
         /\ UNCHANGED <<unsub, pending, finished, futures, snap, cur>>

Next == InitialSubmit \/ While \/ ForEnd \/ Refill \/ Yield
        \/ \E t \in Tasks : Complete(t) \/ Observe(t)
        \/ (pc = "Done" /\ UNCHANGED vars)
Spec == Init /\ [][Next]_vars /\ WF_vars(InitialSubmit \/ While \/ ForEnd \/ Refill \/ Yield \/ \E t \in Tasks : Observe(t))
             /\ \A t \in Tasks : WF_vars(Complete(t))

Range(s) == {s[i] : i \in 1..Len(s)}
NoDup == \A i, j \in 1..Len(yielded) : i # j => yielded[i] # yielded[j]
NoLoss == \A t \in Tasks : t >= unsub \/ t \in futures \/ t \in Range(yielded) \/ (pc \in {"Refill", "Yield"} /\ t = cur)
ExactlyOnce == pc = "Done" => (Range(yielded) = Tasks /\ Len(yielded) = NT)
Finishes == <>(pc = "Done")
=============================================================================
