CONSTANTS Grammars = {"g1", "g2"}
Names = {"none", "N"}
Sems = {"s1"}
AsIs = FALSE
SPECIFICATION Spec
INVARIANT HistoryIndependent
CONSTRAINT Bound
