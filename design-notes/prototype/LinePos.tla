------------------------------ MODULE LinePos ------------------------------
\* line/column/line-text of every offset, by splitting at LF, CR, CRLF (line text includes its terminator)
EXTENDS Naturals, Sequences, FiniteSets, TLC, Json
CONSTANTS Alphabet, MaxLen
LF == "n"  CR == "r"          \* abstract characters; the harness maps n -> \n, r -> \r
\* start offsets (0-based) of all lines: 0 and every position just after a terminator
IsBreakEnd(t, i) == \* position i (1-based char index) ends a line
   \/ t[i] = LF
   \/ (t[i] = CR /\ ~(i < Len(t) /\ t[i+1] = LF))
Starts(t) == {0} \cup {i \in 1..Len(t) : IsBreakEnd(t, i)}
LineStart(t, o) == CHOOSE s \in Starts(t) : s <= o /\ \A s2 \in Starts(t) : s2 <= o => s2 <= s
LineNo(t, o) == Cardinality({s \in Starts(t) : s < LineStart(t, o)}) + (IF LineStart(t, o) = 0 THEN 0 ELSE 0)
NextStart(t, o) == LET later == {s \in Starts(t) : s > LineStart(t, o)} IN
                   IF later = {} THEN Len(t) ELSE CHOOSE s \in later : \A s2 \in later : s <= s2
Info(t, o) == [line |-> Cardinality({s \in Starts(t) : s <= o}) - 1,
               col |-> o - LineStart(t, o),
               text |-> SubSeq(t, LineStart(t, o) + 1, NextStart(t, o))]
Texts == UNION {[1..n -> Alphabet] : n \in 0..MaxLen}
VARIABLE x
Init == x = 0
Next == x' = x
ASSUME \A t \in Texts : PrintT("LP " \o ToJson([t |-> t, info |-> [o \in 0..Len(t) |-> Info(t, o)]]))
=============================================================================
