CONSTANTS Alphabet = {"x", "n", "r"}
MaxLen = 5
INIT Init
NEXT Next
