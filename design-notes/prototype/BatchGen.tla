------------------------------ MODULE BatchGen ------------------------------
EXTENDS PegGen, Json, IOUtils
Cases == JsonDeserialize("/tmp/proto/cases.json")
VARIABLES id, done
Init == \E i \in 1..Len(Cases) : id = i /\ G = Cases[i].g /\ Inp = Cases[i].inp /\ done = FALSE
Next == /\ ~done /\ done' = TRUE /\ UNCHANGED <<G, Inp, id>>
        /\ PrintT("RES " \o ToString(id) \o " " \o ToJson(Parse))
=============================================================================
