import json, itertools, sys
def T(c): return {'op':'tok','s':[c]}
def C(n): return {'op':'call','name':n}
def SEQ(*es): return {'op':'seq','es':list(es)}
def ALT(*es): return {'op':'alt','es':list(es)}
def OPT(e): return {'op':'opt','e':e}
def NAMED(n,e): return {'op':'named','name':n,'e':e}
EOF_ = {'op':'eof'}
fams = []
names_pool = ['a','e','t','x']
for (E, A, Tn) in itertools.permutations(names_pool, 3):
    # direct
    fams.append(('direct', [('s', SEQ(C(E), EOF_)), (E, ALT(SEQ(C(E), T('+'), C(Tn)), C(Tn))), (Tn, T('n'))]))
    # aliased: E = A '+' T | T ; A = E
    fams.append(('aliased', [('s', SEQ(C(E), EOF_)), (E, ALT(SEQ(C(A), T('+'), C(Tn)), C(Tn))), (A, C(E)), (Tn, T('n'))]))
    # aliased, entry through alias
    fams.append(('aliased-entry-alias', [('s', SEQ(C(A), EOF_)), (E, ALT(SEQ(C(A), T('+'), C(Tn)), C(Tn))), (A, C(E)), (Tn, T('n'))]))
    # mutual: E = A T | T ; A = E '+'
    fams.append(('mutual', [('s', SEQ(C(E), EOF_)), (E, ALT(SEQ(C(A), C(Tn)), C(Tn))), (A, SEQ(C(E), T('+'))), (Tn, T('n'))]))
    # optional-prefixed: E = [E '+'] T
    fams.append(('optprefix', [('s', SEQ(C(E), EOF_)), (E, SEQ(OPT(SEQ(C(E), T('+'))), C(Tn))), (Tn, T('n'))]))
    # named
    fams.append(('named', [('s', SEQ(C(E), EOF_)), (E, ALT(SEQ(NAMED('l', C(E)), T('+'), NAMED('r', C(Tn))), C(Tn))), (Tn, T('n'))]))
    # with right recursion: E = E '+' E | T
    fams.append(('rightrec', [('s', SEQ(C(E), EOF_)), (E, ALT(SEQ(C(E), T('+'), C(E)), C(Tn))), (Tn, T('n'))]))
    # two levels: E = E '+' A | A ; A = A '*' T | T
    fams.append(('twolevel', [('s', SEQ(C(E), EOF_)), (E, ALT(SEQ(C(E), T('+'), C(A)), C(A))), (A, ALT(SEQ(C(A), T('*'), C(Tn)), C(Tn))), (Tn, T('n'))]))
inputs = []
for L in range(0, 6):
    for tup in itertools.product('n+*', repeat=L):
        inputs.append(list(tup))
cases = []
for fam, rules in fams:
    g = {'rules': [{'name': n, 'exp': e} for n, e in rules]}
    for inp in inputs:
        if '*' in inp and fam != 'twolevel': continue
        cases.append({'fam': fam, 'g': g, 'inp': inp})
json.dump(cases, open('/tmp/proto/cases.json', 'w'))
print(len(fams), len(inputs), len(cases))
