import json, random, sys
random.seed(1)
TOK = ['a','b','c']
def tok(): return {'op':'tok','s':[random.choice(TOK)]}
def exp(d):
    if d == 0: return random.choice([tok, tok, tok, lambda:{'op':'void'}, lambda: {'op':'call','name':'y'}])()
    k = random.choice(['tok','seq','alt','opt','star','group','named','ovr','not','and','cut','call'])
    if k == 'tok': return tok()
    if k == 'cut': return {'op':'cut'}
    if k == 'call': return {'op':'call','name': random.choice(['y','z'])}
    if k in ('seq','alt'): return {'op':k,'es':[exp(d-1) for _ in range(random.randint(2,3))]}
    if k == 'named': return {'op':'named','name':random.choice(['x','w']),'e':exp(d-1)}
    return {'op':k,'e':exp(d-1)}
def leafy(d):
    # rules y,z: no calls (avoid recursion in prototype)
    e = exp(d)
    def strip(e):
        if e['op']=='call': return tok()
        if 'es' in e: e['es']=[strip(x) for x in e['es']]
        if 'e' in e: e['e']=strip(e['e'])
        return e
    return strip(e)
cases=[]
n=int(sys.argv[1])
for i in range(n):
    g={'rules':[{'name':'s','exp':exp(3)},{'name':'y','exp':leafy(2)},{'name':'z','exp':leafy(1)}]}
    L=random.randint(0,6)
    inp=[random.choice(['a','b','c',' ']) for _ in range(L)]
    cases.append({'g':g,'inp':inp})
json.dump(cases, open('/tmp/proto/cases.json','w'))
