------------------------------ MODULE Trace2 ------------------------------
\* prototype small-step machine for subset {tok, seq, alt, opt, call, cut, eof, named}
EXTENDS PegSem2, Json, IOUtils

Cases == JsonDeserialize("/tmp/proto/traces.json")
VARIABLES id, ctl, ret, fr, memo, done, nmiss, l

mvars == <<id, ctl, ret, fr, memo, done, nmiss, G, Inp>>
Tr == Cases[id].ev
EvAt(k) == IF k <= Len(Tr) THEN Tr[k] ELSE [ev |-> "none", rule |-> "", pos |-> 0, ok |-> TRUE]
NoRet == [k |-> "none"]
RetOK(v) == [k |-> "ok", v |-> v]
RetKO == [k |-> "ko"]

K(e) == [e |-> e, i |-> 0, p0 |-> 0]
TopK == ctl[Len(ctl)]
PopK == SubSeq(ctl, 1, Len(ctl)-1)
SetK(k) == [ctl EXCEPT ![Len(ctl)] = k]

Init == \E i \in 1..Len(Cases) :
          /\ id = i /\ G = Cases[i].g /\ Inp = Cases[i].inp
          /\ ctl = <<K([op |-> "call", name |-> Cases[i].g.rules[1].name])>>
          /\ ret = NoRet /\ fr = <<Fr(0)>> /\ memo = <<>> /\ done = FALSE /\ nmiss = 0 /\ l = 1

MemoGet(key) == LET I == {j \in 1..Len(memo) : memo[j].key = key} IN
                IF I = {} THEN [key |-> key, k |-> "none"] ELSE memo[CHOOSE j \in I : TRUE]
MemoPut(key, r) == LET rest == SelectSeq(memo, LAMBDA m : m.key # key) IN Append(rest, [key |-> key] @@ r)

\* ---- leaves
Leaf == /\ ret = NoRet /\ Len(ctl) > 0
        /\ TopK.e.op \in {"tok", "eof", "cut", "void"}
        /\ LET e == TopK.e  p == Skip(Top(fr).pos) IN
           CASE e.op = "tok" ->
                  IF MatchTok(p, e.s)
                  THEN fr' = AppendNode(Goto(fr, p + Len(e.s)), Str(e.s)) /\ ret' = RetOK(Str(e.s))
                  ELSE fr' = Goto(fr, p) /\ ret' = RetKO
             [] e.op = "eof" -> fr' = Goto(fr, p) /\ ret' = (IF p = N THEN RetOK(None) ELSE RetKO)
             [] e.op = "void" -> fr' = Goto(fr, p) /\ ret' = RetOK(None)
             [] e.op = "cut" -> fr' = SetTop(fr, [Top(fr) EXCEPT !.cut = TRUE]) /\ ret' = RetOK(None)
        /\ ctl' = PopK /\ UNCHANGED <<memo, done, id, G, Inp, nmiss>>

\* ---- sequence
SeqStep == /\ Len(ctl) > 0 /\ TopK.e.op = "seq"
           /\ \/ /\ ret = NoRet /\ TopK.i = 0     \* start
                 /\ ctl' = Append(SetK([TopK EXCEPT !.i = 1, !.p0 = None]), K(TopK.e.es[1]))
                 /\ fr' = Define(fr, TopK.e) /\ UNCHANGED ret
              \/ /\ ret.k = "ok" /\ TopK.i >= 1
                 /\ LET out == CstMerge(TopK.p0, ret.v) IN
                    IF TopK.i = Len(TopK.e.es)
                    THEN ctl' = PopK /\ ret' = RetOK(out) /\ fr' = fr
                    ELSE ctl' = Append(SetK([TopK EXCEPT !.i = @ + 1, !.p0 = out]), K(TopK.e.es[TopK.i + 1]))
                         /\ ret' = NoRet /\ fr' = fr
              \/ /\ ret.k = "ko" /\ TopK.i >= 1 /\ ctl' = PopK /\ UNCHANGED <<ret, fr>>
           /\ UNCHANGED <<memo, done, id, G, Inp, nmiss>>

\* ---- choice / optional (one frame per option)
AltStep == /\ Len(ctl) > 0 /\ TopK.e.op \in {"alt", "opt"}
           /\ LET es == IF TopK.e.op = "alt" THEN TopK.e.es ELSE <<TopK.e.e>> IN
              \/ /\ ret = NoRet /\ TopK.i = 0
                 /\ ctl' = Append(SetK([TopK EXCEPT !.i = 1]), K(es[1])) /\ fr' = Define(Push(fr), es[1]) /\ ret' = ret
              \/ /\ ret.k = "ok" /\ TopK.i >= 1 /\ fr' = Merge(fr) /\ ctl' = PopK /\ ret' = ret
              \/ /\ ret.k = "ko" /\ TopK.i >= 1
                 /\ IF Top(fr).cut THEN ctl' = PopK /\ ret' = ret /\ fr' = Undo(fr)
                    ELSE IF TopK.i < Len(es)
                    THEN ctl' = Append(SetK([TopK EXCEPT !.i = @ + 1]), K(es[TopK.i + 1])) /\ fr' = Define(Push(Undo(fr)), es[TopK.i + 1]) /\ ret' = NoRet
                    ELSE ctl' = PopK /\ fr' = Undo(fr) /\ ret' = (IF TopK.e.op = "opt" THEN RetOK(None) ELSE RetKO)
           /\ UNCHANGED <<memo, done, id, G, Inp, nmiss>>

NamedStep == /\ Len(ctl) > 0 /\ TopK.e.op \in {"named", "group"}
             /\ \/ /\ ret = NoRet /\ TopK.i = 0
                   /\ ctl' = Append(SetK([TopK EXCEPT !.i = 1]), K(TopK.e.e)) /\ UNCHANGED <<fr, ret>>
                \/ /\ ret.k = "ok" /\ TopK.i = 1 /\ ctl' = PopK /\ ret' = ret
                   /\ fr' = IF TopK.e.op = "named" THEN SetTop(fr, [Top(fr) EXCEPT !.ast = AstSet(@, TopK.e.name, ret.v)]) ELSE fr
                \/ /\ ret.k = "ko" /\ TopK.i = 1 /\ ctl' = PopK /\ UNCHANGED <<fr, ret>>
             /\ UNCHANGED <<memo, done, id, G, Inp, nmiss>>

\* ---- rule call with memo (hit or forced miss)
CallEnter == /\ ret = NoRet /\ Len(ctl) > 0 /\ TopK.e.op = "call" /\ TopK.i = 0
             /\ LET p == Skip(Top(fr).pos)  key == <<p, TopK.e.name>>  m == MemoGet(key) IN
                \/ /\ m.k = "ok"      \* HIT
                   /\ fr' = AppendNode(Goto(fr, m.newpos), m.node) /\ ret' = RetOK(m.node) /\ ctl' = PopK
                   /\ UNCHANGED <<memo, nmiss>>
                \/ /\ m.k = "ko" /\ fr' = Goto(fr, p) /\ ret' = RetKO /\ ctl' = PopK /\ UNCHANGED <<memo, nmiss>>
                \/ /\ (m.k = "none" \/ nmiss < 2)     \* MISS (possibly evicted)
                   /\ nmiss' = IF m.k = "none" THEN nmiss ELSE nmiss + 1
                   /\ memo' = SelectSeq(memo, LAMBDA x : x.key # key)
                   /\ fr' = Push(Append(Goto(fr, p), Fr(p)))
                   /\ ctl' = Append(SetK([TopK EXCEPT !.i = 1, !.p0 = p]), K(RuleExp(TopK.e.name)))
                   /\ ret' = ret
             /\ UNCHANGED <<done, id, G, Inp>>

CallExit == /\ Len(ctl) > 0 /\ TopK.e.op = "call" /\ TopK.i = 1 /\ ret # NoRet
            /\ LET key == <<TopK.p0, TopK.e.name>> IN
               IF ret.k = "ok"
               THEN LET node == Fold(Top(fr)) newpos == Top(fr).pos
                        base == SubSeq(fr, 1, Len(fr) - 2) IN
                    /\ fr' = AppendNode(Goto(base, newpos), node)
                    /\ memo' = MemoPut(key, [k |-> "ok", node |-> node, newpos |-> newpos])
                    /\ ret' = RetOK(node)
               ELSE /\ fr' = SubSeq(fr, 1, Len(fr) - 2)
                    /\ memo' = MemoPut(key, [k |-> "ko", node |-> None, newpos |-> 0])
                    /\ ret' = ret
            /\ ctl' = PopK /\ UNCHANGED <<done, id, G, Inp, nmiss>>

Finish == /\ Len(ctl) = 0 /\ ~done /\ done' = TRUE /\ UNCHANGED <<id, ctl, ret, fr, memo, G, Inp, nmiss>>


\* ---- trace binding -------------------------------------------------------
Silent(A) == A /\ l' = l
IsLeafTok == Len(ctl) > 0 /\ TopK.e.op = "tok"
IsLeafCut == Len(ctl) > 0 /\ TopK.e.op = "cut"

TLeaf == /\ Leaf
         /\ IF IsLeafTok
            THEN /\ EvAt(l).ev = "match" /\ EvAt(l).ok = (ret'.k = "ok") /\ EvAt(l).pos = Top(fr').pos /\ l' = l + 1
            ELSE IF IsLeafCut THEN EvAt(l).ev = "cut" /\ EvAt(l).pos = Top(fr').pos /\ l' = l + 1
            ELSE l' = l

\* a call that misses the memo consumes "enter"; a hit consumes "enter" and the immediate "ok"/"fail"
TCallEnter == /\ CallEnter
              /\ EvAt(l).ev = "enter" /\ EvAt(l).rule = TopK.e.name /\ EvAt(l).pos = Skip(Top(fr).pos)
              /\ IF ret' = NoRet THEN l' = l + 1
                 ELSE /\ l' = l + 2
                      /\ EvAt(l+1).rule = TopK.e.name
                      /\ IF ret'.k = "ok" THEN EvAt(l+1).ev = "ok" /\ EvAt(l+1).pos = Top(fr').pos
                         ELSE EvAt(l+1).ev = "fail"

TCallExit == /\ CallExit
             /\ EvAt(l).rule = TopK.e.name
             /\ IF ret.k = "ok" THEN EvAt(l).ev = "ok" /\ EvAt(l).pos = Top(fr').pos ELSE EvAt(l).ev = "fail"
             /\ l' = l + 1

Accepted == TLCGet(1)
TFinish == /\ Finish /\ l = Len(Tr) + 1 /\ l' = l
           /\ (ret.k = "ok") = Cases[id].ok
           /\ TLCSet(1, TLCGet(1) \cup {id})

Next == TLeaf \/ Silent(SeqStep) \/ Silent(AltStep) \/ Silent(NamedStep) \/ TCallEnter \/ TCallExit \/ TFinish
TraceInit == Init /\ TLCSet(1, {})
AllAccepted == /\ PrintT(<<"accepted", Cardinality(TLCGet(1)), "of", Len(Cases)>>)
               /\ PrintT(<<"rejected", (1..Len(Cases)) \ TLCGet(1)>>)
               /\ TLCGet(1) = 1..Len(Cases)
=============================================================================
