------------------------------ MODULE PegGen ------------------------------
EXTENDS Naturals, Sequences, FiniteSets, TLC

\* ---------- values ----------
None      == [t |-> "n"]
Unit      == [t |-> "u"]
Str(s)    == [t |-> "s", v |-> s]
OpenL(xs) == [t |-> "l", c |-> FALSE, v |-> xs]
ClosedL(xs) == [t |-> "l", c |-> TRUE, v |-> xs]
IsOpen(x) == x.t = "l" /\ ~x.c

CstAdd(cst, node) ==
  IF cst.t = "n" THEN node
  ELSE IF IsOpen(cst) THEN OpenL(Append(cst.v, node))
  ELSE OpenL(<<cst, node>>)

CstMerge(cst, other) ==
  IF other.t = "n" THEN cst
  ELSE IF cst.t = "n" THEN other
  ELSE IF IsOpen(other) /\ IsOpen(cst) THEN OpenL(cst.v \o other.v)
  ELSE IF IsOpen(other) THEN OpenL(<<cst>> \o other.v)
  ELSE IF IsOpen(cst) THEN OpenL(Append(cst.v, other))
  ELSE OpenL(<<cst, other>>)

CstFinal(cst) == IF IsOpen(cst) THEN ClosedL(cst.v) ELSE cst

\* ---------- frames: [pos, ast, cst, cut] ; ast = seq of <<name, value>> ----------
AstGet(ast, k) == LET I == {i \in 1..Len(ast) : ast[i][1] = k} IN
                  IF I = {} THEN None ELSE ast[CHOOSE i \in I : TRUE][2]
AstHas(ast, k) == \E i \in 1..Len(ast) : ast[i][1] = k
AstPut(ast, k, v) == IF AstHas(ast, k)
                     THEN [i \in 1..Len(ast) |-> IF ast[i][1] = k THEN <<k, v>> ELSE ast[i]]
                     ELSE Append(ast, <<k, v>>)
AstSet(ast, k, node) == AstPut(ast, k, CstAdd(AstGet(ast, k), node))

CONSTANTS WS
VARIABLES G, Inp
\* G : [rules |-> <<[name, exp]>>]; exp records with field op

N == Len(Inp)
RECURSIVE Skip(_)
Skip(p) == IF p < N /\ Inp[p+1] \in WS THEN Skip(p+1) ELSE p

RuleExp(name) == LET I == {i \in 1..Len(G.rules) : G.rules[i].name = name}
                 IN G.rules[CHOOSE i \in I : TRUE].exp

MatchTok(p, s) == \* s is a sequence of chars
  /\ p + Len(s) <= N
  /\ \A i \in 1..Len(s) : Inp[p+i] = s[i]

Fr(pos) == [pos |-> pos, ast |-> <<>>, cst |-> None, cut |-> FALSE, last |-> None]
Push(st) == Append(st, [pos |-> st[Len(st)].pos, ast |-> st[Len(st)].ast, cst |-> None, cut |-> FALSE, last |-> None])
Top(st) == st[Len(st)]
SetTop(st, f) == [st EXCEPT ![Len(st)] = f]
Undo(st) == SubSeq(st, 1, Len(st)-1)
Merge(st) == LET prev == Top(st) rest == Undo(st) cur == Top(rest) IN
   SetTop(rest, [cur EXCEPT !.ast = prev.ast, !.cst = CstMerge(cur.cst, prev.cst), !.pos = prev.pos, !.last = prev.cst])
AppendNode(st, node) == SetTop(st, [Top(st) EXCEPT !.cst = CstAdd(@, node), !.last = node])
Goto(st, p) == SetTop(st, [Top(st) EXCEPT !.pos = p])
OK(st, v) == [ok |-> TRUE, st |-> st, v |-> v]
KO(st) == [ok |-> FALSE, st |-> st, v |-> None]

Fold(f) == IF f.ast = <<>> THEN CstFinal(f.cst)
           ELSE IF AstHas(f.ast, "@") THEN AstGet(f.ast, "@")
           ELSE [t |-> "d", v |-> f.ast]


RECURSIVE Defs(_)
RECURSIVE DefsSeq(_, _)
Defs(e) == CASE e.op = "named" -> {e.name} \cup Defs(e.e)
             [] e.op \in {"seq", "alt"} -> DefsSeq(e.es, 1)
             [] e.op \in {"group", "opt", "star", "ovr", "not", "and"} -> Defs(e.e)
             [] OTHER -> {}
DefsSeq(es, i) == IF i > Len(es) THEN {} ELSE Defs(es[i]) \cup DefsSeq(es, i + 1)

RECURSIVE DefineAll(_, _)
DefineAll(ast, ks) == IF ks = {} THEN ast
                      ELSE LET k == CHOOSE k \in ks : TRUE IN
                           DefineAll(IF AstHas(ast, k) THEN ast ELSE Append(ast, <<k, None>>), ks \ {k})
Define(st, e) == SetTop(st, [Top(st) EXCEPT !.ast = DefineAll(@, Defs(e))])
Dict1(k, v) == [t |-> "d", v |-> <<<<k, v>>>>]

RECURSIVE Ev(_, _, _)
RECURSIVE EvSeq(_, _, _, _, _)
RECURSIVE EvAlt(_, _, _, _)
RECURSIVE EvRep(_, _, _)

\* Ev(e, st, d): evaluate e on state stack st; d = remaining depth (termination guard)
Ev(e, st, d) ==
  IF d = 0 THEN KO(st) ELSE
  CASE e.op = "tok" ->
        LET p == Skip(Top(st).pos) IN
        IF MatchTok(p, e.s) THEN OK(AppendNode(Goto(st, p + Len(e.s)), Str(e.s)), Str(e.s))
        ELSE KO(Goto(st, p))
    [] e.op = "void" -> OK(Goto(st, Skip(Top(st).pos)), Unit)
    [] e.op = "eof" -> LET p == Skip(Top(st).pos) IN IF p = N THEN OK(Goto(st,p), None) ELSE KO(Goto(st,p))
    [] e.op = "cut" -> OK(SetTop(st, [Top(st) EXCEPT !.cut = TRUE]), None)
    [] e.op = "seq" -> EvSeq(e.es, 1, Define(st, e), None, d)
    [] e.op = "alt" -> EvAlt(e.es, 1, st, d)
    [] e.op = "group" -> Ev(e.e, st, d)
    [] e.op = "opt" ->
        LET r == Ev(e.e, Push(st), d-1) IN
        IF r.ok THEN OK(Merge(r.st), r.v)
        ELSE IF Top(r.st).cut THEN KO(Undo(r.st)) ELSE OK(Undo(r.st), None)
    [] e.op = "star" ->
        LET f1 == SetTop(Push(st), [Top(Push(st)) EXCEPT !.cst = OpenL(<<>>)])       \* F1, cst = []
            r1 == Ev(e.e, Push(f1), d-1)                                             \* first iteration on F2
        IN IF ~r1.ok
           THEN IF Top(r1.st).cut THEN KO(Undo(Undo(r1.st)))                         \* optional re-raises; statescope undoes F1
                ELSE LET s1 == Undo(r1.st)   \* back to F1
                         f == Top(s1)
                         s2 == SetTop(s1, [f EXCEPT !.cst = ClosedL(f.cst.v)])
                     IN OK(Merge(s2), ClosedL(f.cst.v))
           ELSE LET f2 == Top(r1.st)
                    s2 == SetTop(r1.st, [f2 EXCEPT !.cst = OpenL(<<f2.cst>>)])
                    rr == EvRep(e.e, s2, d-1)
                IN IF ~rr.ok THEN KO(Undo(Undo(rr.st)))
                   ELSE LET s3 == Merge(rr.st)      \* F2 -> F1
                            f == Top(s3)
                            s4 == SetTop(s3, [f EXCEPT !.cst = ClosedL(f.cst.v)])
                        IN OK(Merge(s4), ClosedL(f.cst.v))
    [] e.op = "named" ->
        LET r == Ev(e.e, st, d-1) IN
        IF r.ok THEN OK(SetTop(r.st, [Top(r.st) EXCEPT !.ast = AstSet(@, e.name, Top(r.st).last)]), r.v) ELSE r
    [] e.op = "ovr" ->
        LET r == Ev(e.e, st, d-1) IN
        IF r.ok THEN OK(SetTop(r.st, [Top(r.st) EXCEPT !.ast = AstSet(@, "@", Top(r.st).last)]), Dict1("@", r.v)) ELSE r
    [] e.op = "not" ->
        LET r == Ev(e.e, Push(st), d-1) IN
        IF r.ok THEN KO(Undo(r.st)) ELSE OK(Undo(r.st), None)
    [] e.op = "and" ->
        LET r == Ev(e.e, Push(st), d-1) IN
        IF r.ok THEN OK(Undo(r.st), r.v) ELSE KO(Undo(r.st))
    [] e.op = "call" ->
        LET p == Skip(Top(st).pos)
            s0 == Goto(st, p)
            s1 == Append(s0, Fr(p))                \* states.new()
            s2 == Push(s1)                          \* statescope
            r == Ev(RuleExp(e.name), s2, d-1) IN
        IF r.ok THEN LET node == Fold(Top(r.st))
                         newpos == Top(r.st).pos
                     IN OK(AppendNode(Goto(s0, newpos), node), node)
        ELSE KO(s0)

EvSeq(es, i, st, out, d) ==
  IF i > Len(es) THEN OK(st, out)
  ELSE LET r == Ev(es[i], st, d-1) IN
       IF r.ok THEN EvSeq(es, i+1, r.st, CstMerge(out, r.v), d) ELSE r

EvAlt(es, i, st, d) ==
  IF i > Len(es) THEN KO(st)
  ELSE LET r == Ev(es[i], Push(st), d-1) IN
       IF r.ok THEN OK(Merge(r.st), r.v)
       ELSE IF Top(r.st).cut THEN KO(Undo(r.st)) ELSE EvAlt(es, i+1, Undo(r.st), d)

\* repeat(): st top = F2 ; each round: F3 = option frame, Fi = isolate frame
EvRep(e, st, d) ==
  LET p0 == Top(st).pos
      r == Ev(e, Push(Push(st)), d-1)
  IN IF r.ok
     THEN LET iso == Top(r.st)
              s1 == Undo(r.st)
              o == Top(s1)
              s2 == SetTop(s1, [o EXCEPT !.pos = iso.pos, !.ast = iso.ast, !.cst = CstAdd(@, CstFinal(iso.cst)), !.last = CstFinal(iso.cst)])
          IN IF iso.pos = p0
             THEN (IF o.cut THEN KO(Undo(s2)) ELSE OK(Undo(s2), None))       \* "matched on no input": option fails
             ELSE EvRep(e, Merge(s2), d)
     ELSE LET s1 == Undo(r.st) IN           \* isolate popped (cut of Fi lost)
          IF Top(s1).cut THEN KO(Undo(s1)) ELSE OK(Undo(s1), None)

Parse == LET s0 == <<Fr(0)>>
             r == Ev([op |-> "call", name |-> G.rules[1].name], s0, 40)
         IN IF r.ok THEN [ok |-> TRUE, pos |-> Top(r.st).pos, v |-> r.v]
            ELSE [ok |-> FALSE, pos |-> 0, v |-> None]
=============================================================================
