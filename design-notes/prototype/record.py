import json, sys
sys.path.insert(0, '/tmp/scr')
import tatsu
from tatsu.contexts import core
from tatsu.contexts.tracing import NullTracer
from tatsu.exceptions import FailedParse
# reuse render from cmp.py
src = open('/tmp/proto/cmp.py').read()
start = src.index('def render'); end = src.index('def conv')
exec(src[start:end])
EV = []
class Rec(NullTracer):
    def trace_entry(self, ctx): EV.append({'ev':'enter','rule':ctx.callstack[-1].name,'pos':ctx.pos})
    def trace_success(self, ctx): EV.append({'ev':'ok','rule':ctx.callstack[-1].name,'pos':ctx.pos})
    def trace_failure(self, ctx, ex=None): EV.append({'ev':'fail','rule':ctx.callstack[-1].name,'pos':ctx.pos})
    def trace_cut(self, ctx): EV.append({'ev':'cut','rule':'','pos':ctx.pos})
    def trace_match(self, ctx, token, name=None, failed=False): EV.append({'ev':'match','rule':str(token),'pos':ctx.pos,'ok':not failed})
core.ParserCore.update_tracer = lambda self: setattr(self,'tracer',Rec()) or self.tracer
cases = json.load(open('/tmp/proto/cases2.json'))
out = []
for c in cases:
    gtxt = '\n'.join(f"{r['name']} = {render(r['exp'])} ;" for r in c['g']['rules'])
    m = tatsu.compile(gtxt)
    EV.clear()
    try:
        m.parse(''.join(c['inp']), nameguard=False); ok = True
    except FailedParse:
        ok = False
    evs = [dict(e, ok=e.get('ok', True)) for e in EV]
    out.append({'g': c['g'], 'inp': c['inp'], 'ev': evs, 'ok': ok})
    tatsu.api.api.__dict__['__compiled_grammar_cache'].clear()
json.dump(out, open('/tmp/proto/traces.json','w'))
print(len(out), sum(len(o['ev']) for o in out))
