import json, sys, collections
src = open('/tmp/proto/cmp.py').read()
start = src.index('def render'); end = src.index('def norm')
exec(src[start:end])
cases = json.load(open('/tmp/proto/cases.json'))
cats = collections.Counter(); ex = {}
for line in open('/tmp/proto/out5.txt'):
    if not line.startswith('"DIFF'): continue
    s = json.loads(line); _, i, js = s.split(' ', 2); i = int(i); d = json.loads(js)
    c = cases[i-1]
    gtxt = ' ; '.join(f"{r['name']} = {render(r['exp'])}" for r in c['g']['rules'])
    impl = ('ok', d['impl']['pos'], conv(d['impl']['v'])) if d['impl']['ok'] else ('fail',)
    doc = ('ok', d['doc']['pos'], conv(d['doc']['v'])) if d['doc']['ok'] else ('fail',)
    if impl[0] != doc[0]: cat = 'accept/reject'
    elif impl[1] != doc[1]: cat = 'endpos'
    else: cat = 'value'
    cats[cat] += 1
    ex.setdefault(cat, []).append((gtxt, ''.join(c['inp']), impl, doc))
print(cats)
for cat, l in ex.items():
    print('=====', cat)
    for e in l[:int(sys.argv[1]) if len(sys.argv)>1 else 12]:
        print(e[0]); print('   ', repr(e[1]), 'impl', e[2], '| doc', e[3])
