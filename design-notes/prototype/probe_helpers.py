import sys
sys.path.insert(0, '/tmp/scr')
import tatsu, traceback
def t(g, s, **kw):
    try:
        m = tatsu.compile(g)
        r = m.parse(s, **kw)
        print(f'{g!r:60} {s!r:12} -> {r!r}')
        return r
    except Exception as e:
        print(f'{g!r:60} {s!r:12} EXC {type(e).__name__}: {str(e).splitlines()[0] if str(e) else ""}')

def gen(g, name='T'):
    src = tatsu.to_python_sourcecode(g, name=name)
    ns = {}
    exec(compile(src, '<gen>', 'exec'), ns)
    return ns[name+'Parser']

def both(g, s, **kw):
    def run(f):
        try:
            return ('ok', f())
        except Exception as e:
            return ('EXC', type(e).__name__)
    m = tatsu.compile(g)
    a = run(lambda: m.parse(s, **kw))
    P = gen(g)
    b = run(lambda: P().parse(s, **kw))
    flag = '' if repr(a)==repr(b) else '   <<<<<< DIFF'
    print(f'{g!r:55} {s!r:10} model={a!r} gen={b!r}{flag}')
