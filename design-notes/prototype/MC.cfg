INIT Init
NEXT Next
