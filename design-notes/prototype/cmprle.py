import json, sys
sys.path.insert(0, '/tmp/scr')
from tatsu.packetz.compact import rle_encode, rle_decode
n = bad = 0
for line in open('/tmp/proto5/out.txt'):
    if not line.startswith('"ENC'): continue
    d = json.loads(json.loads(line)[4:])
    s = ''.join(d['s']); e = ''.join(d['e']); dd = ''.join(d['d'])
    n += 1
    if rle_encode(s) != e or rle_decode(rle_encode(s)) != dd:
        bad += 1
        if bad < 6: print('TRANSCRIPTION MISMATCH', repr(s), repr(e), repr(rle_encode(s)), repr(dd), repr(rle_decode(rle_encode(s))))
print('points', n, 'transcription mismatches', bad)
