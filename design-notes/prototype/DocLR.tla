------------------------------ MODULE DocLR ------------------------------
\* documented semantics with left recursion: dynamic head, seed growing; subset tok/seq/alt/opt/group/call/named/eof
EXTENDS PegSem2

Pack(items) == IF Len(items) = 0 THEN None ELSE IF Len(items) = 1 THEN items[1] ELSE OpenL(items)
S(p, items, val, ns) == [k |-> "ok", p |-> p, items |-> items, val |-> val, ns |-> ns]
F == [k |-> "ko"]

\* ---------- static analysis (also the LeftRec spec) ----------
RuleNames == {G.rules[i].name : i \in 1..Len(G.rules)}
RECURSIVE Nullable(_)
RECURSIVE NullSeq(_, _)
Nullable(e) == CASE e.op \in {"opt", "star", "void", "cut", "and", "not"} -> TRUE
                 [] e.op = "seq" -> NullSeq(e.es, 1)
                 [] e.op = "alt" -> \E i \in 1..Len(e.es) : Nullable(e.es[i])
                 [] e.op \in {"group", "named", "ovr"} -> Nullable(e.e)
                 [] OTHER -> FALSE           \* tok, eof, call (the property's proviso: calls are never nullable prefixes)
NullSeq(es, i) == IF i > Len(es) THEN TRUE ELSE Nullable(es[i]) /\ NullSeq(es, i + 1)
RECURSIVE LC(_)
RECURSIVE LCSeq(_, _)
LC(e) == CASE e.op = "call" -> {e.name}
           [] e.op = "seq" -> LCSeq(e.es, 1)
           [] e.op = "alt" -> UNION {LC(e.es[i]) : i \in 1..Len(e.es)}
           [] e.op \in {"group", "named", "ovr", "opt", "star", "and", "not"} -> LC(e.e)
           [] OTHER -> {}
LCSeq(es, i) == IF i > Len(es) THEN {} ELSE LC(es[i]) \cup (IF Nullable(es[i]) THEN LCSeq(es, i + 1) ELSE {})
LeftCalls(r) == LC(RuleExp(r))
RECURSIVE Reach(_, _)
Reach(front, seen) == LET nxt == UNION {LeftCalls(r) : r \in front} \ seen IN
                      IF nxt = {} THEN seen ELSE Reach(nxt, seen \cup nxt)
OnLeftCycle(r) == r \in Reach(LeftCalls(r), LeftCalls(r))
LeftRecursive == {r \in RuleNames : OnLeftCycle(r)}

\* ---------- evaluation ----------
RECURSIVE D(_, _, _, _, _)
RECURSIVE DSeq(_, _, _, _, _, _, _)
RECURSIVE DAlt(_, _, _, _, _, _)
RECURSIVE DRule(_, _, _, _)
RECURSIVE Grow(_, _, _, _, _, _)

SeedGet(sd, key) == LET I == {i \in 1..Len(sd) : sd[i].key = key} IN sd[CHOOSE i \in I : TRUE].r
SeedHas(sd, key) == \E i \in 1..Len(sd) : sd[i].key = key
SeedPut(sd, key, r) == Append(SelectSeq(sd, LAMBDA x : x.key # key), [key |-> key, r |-> r])

D(e, p, ns, sd, d) ==
  IF d = 0 THEN F ELSE
  CASE e.op = "tok" -> LET q == Skip(p) IN IF MatchTok(q, e.s) THEN S(q + Len(e.s), <<Str(e.s)>>, Str(e.s), ns) ELSE F
    [] e.op = "eof" -> IF Skip(p) = N THEN S(Skip(p), <<>>, None, ns) ELSE F
    [] e.op = "void" -> S(Skip(p), <<>>, Unit, ns)
    [] e.op = "seq" -> DSeq(e.es, 1, p, <<>>, ns, sd, d)
    [] e.op = "alt" -> DAlt(e.es, 1, p, ns, sd, d)
    [] e.op = "group" -> D(e.e, p, ns, sd, d - 1)
    [] e.op = "opt" -> LET r == D(e.e, p, ns, sd, d - 1) IN IF r.k = "ok" THEN r ELSE S(p, <<>>, None, ns)
    [] e.op = "named" -> LET r == D(e.e, p, ns, sd, d - 1) IN
                         IF r.k = "ok" THEN [r EXCEPT !.ns = AstSet(r.ns, e.name, r.val)] ELSE r
    [] e.op = "call" -> LET r == DRule(e.name, p, sd, d - 1) IN
                        IF r.k = "ok" THEN S(r.p, <<r.val>>, r.val, ns) ELSE F
DSeq(es, i, p, items, ns, sd, d) ==
  IF i > Len(es) THEN S(p, items, Pack(items), ns)
  ELSE LET r == D(es[i], p, ns, sd, d - 1) IN
       IF r.k = "ok" THEN DSeq(es, i + 1, r.p, items \o r.items, r.ns, sd, d) ELSE F
DAlt(es, i, p, ns, sd, d) ==
  IF i > Len(es) THEN F
  ELSE LET r == D(es[i], p, ns, sd, d - 1) IN IF r.k = "ok" THEN r ELSE DAlt(es, i + 1, p, ns, sd, d)

Body(name, q, sd, d) ==
  LET body == RuleExp(name)
      r == D(body, q, <<>>, sd, d - 1) IN
  IF r.k # "ok" THEN F
  ELSE LET wd == DefineAll(r.ns, IF body.op = "alt" THEN {} ELSE Defs(body)) IN
       IF wd # <<>> THEN [k |-> "ok", p |-> r.p, val |-> [t |-> "d", v |-> wd]]
       ELSE [k |-> "ok", p |-> r.p, val |-> CstFinal(Pack(r.items))]

\* grow the seed of (name, q): last = best result so far
Grow(name, q, sd, last, lastpos, d) ==
  IF d = 0 THEN last ELSE
  LET r == Body(name, q, SeedPut(sd, <<name, q>>, last), d - 1) IN
  IF r.k = "ok" /\ r.p + 1 > lastpos THEN Grow(name, q, sd, r, r.p + 1, d - 1) ELSE last

DRule(name, p, sd, d) ==
  IF d = 0 THEN F ELSE
  LET q == Skip(p) IN
  IF SeedHas(sd, <<name, q>>) THEN SeedGet(sd, <<name, q>>)
  ELSE IF OnLeftCycle(name) THEN Grow(name, q, sd, F, 0, d)    \* lastpos argument holds (last end position + 1), 0 = none yet
  ELSE Body(name, q, sd, d)

DocParse == LET r == DRule(G.rules[1].name, 0, <<>>, 60) IN
            IF r.k = "ok" THEN [ok |-> TRUE, pos |-> r.p, v |-> r.val] ELSE [ok |-> FALSE, pos |-> 0, v |-> None]
=============================================================================
