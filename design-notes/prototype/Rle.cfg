CONSTANTS Alphabet = {"~", "a", "1"}
MaxLen = 6
INIT Init
NEXT Next
