CONSTANT WS = {" "}
INIT TraceInit
NEXT Next
CHECK_DEADLOCK FALSE
POSTCONDITION AllAccepted
