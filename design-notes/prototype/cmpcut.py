import json, sys, collections, signal
sys.path.insert(0, '/tmp/scr')
import tatsu
from tatsu.exceptions import FailedParse
src = open('/tmp/proto/cmp.py').read()
exec(src[src.index('def render'):src.index('bad = 0')])
cases = json.load(open('/tmp/proto/cases.json'))
res = {}
for line in open('/tmp/proto/out.txt'):
    if line.startswith('"RES'):
        s = json.loads(line); _, i, js = s.split(' ', 2); res[int(i)] = json.loads(js)
class TO(Exception): pass
def _h(*a): raise TO()
signal.signal(signal.SIGALRM, _h)
models = {}
wh = collections.Counter(); stats = collections.Counter(); ex = collections.defaultdict(list)
for i, c in enumerate(cases, 1):
    gtxt = '\n'.join(f"{r['name']} = {render(r['exp'])} ;" for r in c['g']['rules'])
    if gtxt not in models:
        models[gtxt] = tatsu.compile(gtxt)
    m = models[gtxt]
    text = ''.join(c['inp'])
    signal.alarm(5)
    try:
        got = ('ok', norm(m.parse(text, nameguard=False)))
    except FailedParse: got = ('fail', None)
    except RecursionError: got = ('rec', None)
    except TO: got = ('hang', None)
    signal.alarm(0)
    exp = ('ok', norm(conv(res[i]['v']))) if res[i]['ok'] else ('fail', None)
    key = (c['fam'], 'agree' if got == exp else f'{got[0]}-vs-{exp[0]}')
    if got != exp: wh[(c['fam'], c['where'])] += 1
    stats[key] += 1
    if got != exp and len(ex[key]) < 2:
        ex[key].append((gtxt.replace('\n', ' '), text, got, exp, [(r.name, r.is_lrec, r.is_memo) for r in m.rules]))
for k in sorted(stats): print(k, stats[k])
for k, l in ex.items():
    for e in l: print('---', k, '\n  ', e[0], '\n  ', repr(e[1]), 'impl', e[2], '| doc', e[3], '\n  marks', e[4])

print('--- where');
for k in sorted(wh): print(k, wh[k])
