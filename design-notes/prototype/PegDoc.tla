------------------------------ MODULE PegDoc ------------------------------
\* prototype of the DOCUMENTED semantics (layer 1): items / names / override / cut scopes; no frames, no cst mechanics
EXTENDS PegSem2

Pack(items) == IF Len(items) = 0 THEN None ELSE IF Len(items) = 1 THEN items[1] ELSE OpenL(items)
Bind(ns, k, v) == AstSet(ns, k, v)                 \* second binding of the same name makes a list (docs: ast.rst)
S(p, items, val, ns, cut) == [k |-> "ok", p |-> p, items |-> items, val |-> val, ns |-> ns, cut |-> cut]
F == [k |-> "ko"]
FC == [k |-> "kocut"]          \* failure after a cut in the current scope
Scope(r) == IF r.k = "ok" THEN [r EXCEPT !.cut = FALSE] ELSE r    \* leaving a cut scope successfully forgets the cut

RECURSIVE D(_, _, _, _)
RECURSIVE DSeq(_, _, _, _, _, _, _)
RECURSIVE DAlt(_, _, _, _, _)
RECURSIVE DRep(_, _, _, _, _)
RECURSIVE DRule(_, _, _)

\* D(e, p, ns, d): ns = names bound so far in the enclosing rule (incl. "@")
D(e, p, ns, d) ==
  IF d = 0 THEN F ELSE
  CASE e.op = "tok" -> LET q == Skip(p) IN IF MatchTok(q, e.s) THEN S(q + Len(e.s), <<Str(e.s)>>, Str(e.s), ns, FALSE) ELSE F
    [] e.op = "void" -> S(Skip(p), <<>>, Unit, ns, FALSE)
    [] e.op = "eof" -> IF Skip(p) = N THEN S(Skip(p), <<>>, None, ns, FALSE) ELSE F
    [] e.op = "cut" -> S(p, <<>>, None, ns, TRUE)
    [] e.op = "seq" -> DSeq(e.es, 1, p, <<>>, ns, FALSE, d)
    [] e.op = "alt" -> DAlt(e.es, 1, p, ns, d)
    [] e.op = "group" -> D(e.e, p, ns, d - 1)                      \* transparent, also for cut (C05 does not list groups as scopes)
    [] e.op = "opt" -> LET r == D(e.e, p, ns, d - 1) IN
                       IF r.k = "ok" THEN Scope(r)
                       ELSE IF r.k = "kocut" THEN F                 \* committed: the optional itself fails (plain failure outside)
                       ELSE S(p, <<>>, None, ns, FALSE)
    [] e.op = "star" -> LET r == DRep(e.e, p, ns, <<>>, d - 1) IN
                        IF r.k = "ok" THEN S(r.p, <<ClosedL(r.items)>>, ClosedL(r.items), r.ns, FALSE) ELSE F
    [] e.op = "named" -> LET r == D(e.e, p, ns, d - 1) IN
                         IF r.k = "ok" THEN [r EXCEPT !.ns = Bind(r.ns, e.name, r.val)] ELSE r
    [] e.op = "ovr" -> LET r == D(e.e, p, ns, d - 1) IN
                       IF r.k = "ok" THEN [r EXCEPT !.ns = Bind(r.ns, "@", r.val)] ELSE r
    [] e.op = "and" -> LET r == D(e.e, p, ns, d - 1) IN IF r.k = "ok" THEN S(p, <<>>, None, ns, FALSE) ELSE F
    [] e.op = "not" -> LET r == D(e.e, p, ns, d - 1) IN IF r.k = "ok" THEN F ELSE S(p, <<>>, None, ns, FALSE)
    [] e.op = "call" -> LET r == DRule(e.name, p, d - 1) IN
                        IF r.k = "ok" THEN S(r.p, <<r.val>>, r.val, ns, FALSE) ELSE F

DSeq(es, i, p, items, ns, cut, d) ==
  IF i > Len(es) THEN S(p, items, Pack(items), ns, cut)
  ELSE LET r == D(es[i], p, ns, d - 1) IN
       IF r.k = "ok" THEN DSeq(es, i + 1, r.p, items \o r.items, r.ns, cut \/ r.cut, d)
       ELSE IF cut \/ r.k = "kocut" THEN FC ELSE F

DAlt(es, i, p, ns, d) ==
  IF i > Len(es) THEN F
  ELSE LET r == D(es[i], p, ns, d - 1) IN
       IF r.k = "ok" THEN Scope(r)
       ELSE IF r.k = "kocut" THEN F          \* committed option failed: the choice fails
       ELSE DAlt(es, i + 1, p, ns, d)

\* {x} == B -> x B | ()   : an iteration that fails after a cut fails the closure
DRep(e, p, ns, acc, d) ==
  LET r == D(e, p, ns, d - 1) IN
  IF r.k = "ok" /\ r.p > p THEN DRep(e, r.p, r.ns, Append(acc, Pack(r.items)), d)
  ELSE IF r.k = "kocut" THEN F
  ELSE [k |-> "ok", p |-> p, items |-> acc, ns |-> ns]

DefaultsOf(e) == Defs(e)
RECURSIVE TopDefs(_, _)
\* names that must be present: all names of the body, except that a choice at the top of the rule only contributes the taken option
TopDefs(e, ns) == Defs(e)

DRule(name, p, d) ==
  LET q == Skip(p)
      body == RuleExp(name)
      r == D(body, q, <<>>, d - 1) IN
  IF r.k # "ok" THEN F
  ELSE LET withDefaults == DefineAll(r.ns, IF body.op = "alt" THEN {} ELSE Defs(body)) IN
       IF AstHas(r.ns, "@") THEN [k |-> "ok", p |-> r.p, val |-> AstGet(r.ns, "@")]
       ELSE IF withDefaults # <<>> THEN [k |-> "ok", p |-> r.p, val |-> [t |-> "d", v |-> withDefaults]]
       ELSE [k |-> "ok", p |-> r.p, val |-> CstFinal(Pack(r.items))]

DocParse == LET r == DRule(G.rules[1].name, 0, 40) IN
            IF r.k = "ok" THEN [ok |-> TRUE, pos |-> r.p, v |-> r.val] ELSE [ok |-> FALSE, pos |-> 0, v |-> None]
=============================================================================
