------------------------------ MODULE Rle ------------------------------
\* transcription of tatsu/packetz/compact.py rle_encode / rle_decode over a small alphabet
EXTENDS Naturals, Sequences, FiniteSets, TLC, Json
CONSTANTS Alphabet, MaxLen
Digits == {"0","1","2","3","4","5","6","7","8","9"}
DigitOf(n) == CASE n = 0 -> "0" [] n = 1 -> "1" [] n = 2 -> "2" [] n = 3 -> "3" [] n = 4 -> "4" [] n = 5 -> "5" [] n = 6 -> "6" [] n = 7 -> "7" [] n = 8 -> "8" [] n = 9 -> "9"
ValOf(c) == CHOOSE n \in 0..9 : DigitOf(n) = c
RECURSIVE Dec(_)
Dec(n) == IF n < 10 THEN <<DigitOf(n)>> ELSE Dec(n \div 10) \o <<DigitOf(n % 10)>>
RECURSIVE Num(_, _)
Num(ds, acc) == IF ds = <<>> THEN acc ELSE Num(Tail(ds), acc * 10 + ValOf(Head(ds)))
Rep(c, n) == [i \in 1..n |-> c]

RECURSIVE DoubleTilde(_)
DoubleTilde(s) == IF s = <<>> THEN <<>> ELSE (IF Head(s) = "~" THEN <<"~","~">> ELSE <<Head(s)>>) \o DoubleTilde(Tail(s))
RECURSIVE RunLen(_, _, _)
RunLen(s, i, c) == IF i <= Len(s) /\ s[i] = c THEN 1 + RunLen(s, i + 1, c) ELSE 0
RECURSIVE Compress(_, _)
Compress(s, i) == IF i > Len(s) THEN <<>>
                  ELSE LET c == s[i] n == RunLen(s, i, c) IN
                       IF c # "~" /\ n >= 4 THEN <<"~", c>> \o Dec(n) \o <<"~">> \o Compress(s, i + n)
                       ELSE <<c>> \o Compress(s, i + 1)
Encode(s) == Compress(DoubleTilde(s), 1)

RECURSIVE DigitRun(_, _)
DigitRun(s, i) == IF i <= Len(s) /\ s[i] \in Digits THEN 1 + DigitRun(s, i + 1) ELSE 0
RECURSIVE Expand(_, _)
\* leftmost, non-overlapping matches of  ~([^~])(\d+)~
Expand(s, i) == IF i > Len(s) THEN <<>>
                ELSE IF s[i] = "~" /\ i + 3 <= Len(s) /\ s[i+1] # "~"
                     THEN LET k == DigitRun(s, i + 2) IN
                          \* regex backtracking: \d+ may give back digits so that the closing ~ is found; it never helps here
                          IF k >= 1 /\ i + 2 + k <= Len(s) /\ s[i + 2 + k] = "~"
                          THEN Rep(s[i+1], Num(SubSeq(s, i + 2, i + 1 + k), 0)) \o Expand(s, i + 3 + k)
                          ELSE <<s[i]>> \o Expand(s, i + 1)
                ELSE <<s[i]>> \o Expand(s, i + 1)
RECURSIVE Undouble(_, _)
Undouble(s, i) == IF i > Len(s) THEN <<>>
                  ELSE IF s[i] = "~" /\ i + 1 <= Len(s) /\ s[i+1] = "~" THEN <<"~">> \o Undouble(s, i + 2)
                  ELSE <<s[i]>> \o Undouble(s, i + 1)
Decode(s) == Undouble(Expand(s, 1), 1)

Strings == UNION {[1..n -> Alphabet] : n \in 0..MaxLen}
RoundTrip == \A s \in Strings : Decode(Encode(s)) = s
Bad == {s \in Strings : Decode(Encode(s)) # s}
VARIABLE x
Init == x = 0
Next == x' = x
ASSUME PrintT(<<"strings", Cardinality(Strings), "bad", Cardinality(Bad)>>)
ASSUME PrintT(<<"shortest bad", {s \in Bad : Len(s) <= 4}>>)
ASSUME \A s \in Strings : PrintT("ENC " \o ToJson([s |-> s, e |-> Encode(s), d |-> Decode(Encode(s))]))
=============================================================================
