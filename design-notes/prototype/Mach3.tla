------------------------------ MODULE Mach3 ------------------------------
\* prototype small-step machine: + closure frames, + left recursion with the marks read back from the code
EXTENDS PegSem2, Json, IOUtils

Cases == JsonDeserialize("/tmp/proto/traces.json")
VARIABLES id, ctl, ret, fr, memo, done, nmiss, seeds

mvars == <<id, ctl, ret, fr, memo, done, nmiss, seeds, G, Inp>>
RuleRec(name) == LET I == {i \in 1..Len(G.rules) : G.rules[i].name = name} IN G.rules[CHOOSE i \in I : TRUE]
SeedGet(key) == LET I == {j \in 1..Len(seeds) : seeds[j].key = key} IN IF I = {} THEN [key |-> key, k |-> "none"] ELSE seeds[CHOOSE j \in I : TRUE]
SeedPut(key, r) == Append(SelectSeq(seeds, LAMBDA m : m.key # key), [key |-> key] @@ r)
NoRet == [k |-> "none"]
RetOK(v) == [k |-> "ok", v |-> v]
RetKO == [k |-> "ko"]

K(e) == [e |-> e, i |-> 0, p0 |-> 0, lp |-> 0]
TopK == ctl[Len(ctl)]
PopK == SubSeq(ctl, 1, Len(ctl)-1)
SetK(k) == [ctl EXCEPT ![Len(ctl)] = k]

Init == \E i \in 1..Len(Cases) :
          /\ id = i /\ G = Cases[i].g /\ Inp = Cases[i].inp
          /\ ctl = <<K([op |-> "call", name |-> Cases[i].g.rules[1].name])>>
          /\ ret = NoRet /\ fr = <<Fr(0)>> /\ memo = <<>> /\ done = FALSE /\ nmiss = 0 /\ seeds = <<>>

MemoGet(key) == LET I == {j \in 1..Len(memo) : memo[j].key = key} IN
                IF I = {} THEN [key |-> key, k |-> "none"] ELSE memo[CHOOSE j \in I : TRUE]
MemoPut(key, r) == LET rest == SelectSeq(memo, LAMBDA m : m.key # key) IN Append(rest, [key |-> key] @@ r)

\* ---- leaves
Leaf == /\ ret = NoRet /\ Len(ctl) > 0
        /\ TopK.e.op \in {"tok", "eof", "cut", "void"}
        /\ LET e == TopK.e  p == Skip(Top(fr).pos) IN
           CASE e.op = "tok" ->
                  IF MatchTok(p, e.s)
                  THEN fr' = AppendNode(Goto(fr, p + Len(e.s)), Str(e.s)) /\ ret' = RetOK(Str(e.s))
                  ELSE fr' = Goto(fr, p) /\ ret' = RetKO
             [] e.op = "eof" -> fr' = Goto(fr, p) /\ ret' = (IF p = N THEN RetOK(None) ELSE RetKO)
             [] e.op = "void" -> fr' = Goto(fr, p) /\ ret' = RetOK(None)
             [] e.op = "cut" -> fr' = SetTop(fr, [Top(fr) EXCEPT !.cut = TRUE]) /\ ret' = RetOK(None)
        /\ ctl' = PopK /\ UNCHANGED <<memo, done, id, G, Inp, nmiss, seeds>>

\* ---- sequence
SeqStep == /\ Len(ctl) > 0 /\ TopK.e.op = "seq"
           /\ \/ /\ ret = NoRet /\ TopK.i = 0     \* start
                 /\ ctl' = Append(SetK([TopK EXCEPT !.i = 1, !.p0 = None]), K(TopK.e.es[1]))
                 /\ fr' = Define(fr, TopK.e) /\ UNCHANGED ret
              \/ /\ ret.k = "ok" /\ TopK.i >= 1
                 /\ LET out == CstMerge(TopK.p0, ret.v) IN
                    IF TopK.i = Len(TopK.e.es)
                    THEN ctl' = PopK /\ ret' = RetOK(out) /\ fr' = fr
                    ELSE ctl' = Append(SetK([TopK EXCEPT !.i = @ + 1, !.p0 = out]), K(TopK.e.es[TopK.i + 1]))
                         /\ ret' = NoRet /\ fr' = fr
              \/ /\ ret.k = "ko" /\ TopK.i >= 1 /\ ctl' = PopK /\ UNCHANGED <<ret, fr>>
           /\ UNCHANGED <<memo, done, id, G, Inp, nmiss, seeds>>

\* ---- choice / optional (one frame per option)
AltStep == /\ Len(ctl) > 0 /\ TopK.e.op \in {"alt", "opt"}
           /\ LET es == IF TopK.e.op = "alt" THEN TopK.e.es ELSE <<TopK.e.e>> IN
              \/ /\ ret = NoRet /\ TopK.i = 0
                 /\ ctl' = Append(SetK([TopK EXCEPT !.i = 1]), K(es[1])) /\ fr' = Define(Push(fr), es[1]) /\ ret' = ret
              \/ /\ ret.k = "ok" /\ TopK.i >= 1 /\ fr' = Merge(fr) /\ ctl' = PopK /\ ret' = ret
              \/ /\ ret.k = "ko" /\ TopK.i >= 1
                 /\ IF Top(fr).cut THEN ctl' = PopK /\ ret' = ret /\ fr' = Undo(fr)
                    ELSE IF TopK.i < Len(es)
                    THEN ctl' = Append(SetK([TopK EXCEPT !.i = @ + 1]), K(es[TopK.i + 1])) /\ fr' = Define(Push(Undo(fr)), es[TopK.i + 1]) /\ ret' = NoRet
                    ELSE ctl' = PopK /\ fr' = Undo(fr) /\ ret' = (IF TopK.e.op = "opt" THEN RetOK(None) ELSE RetKO)
           /\ UNCHANGED <<memo, done, id, G, Inp, nmiss, seeds>>

NamedStep == /\ Len(ctl) > 0 /\ TopK.e.op \in {"named", "group"}
             /\ \/ /\ ret = NoRet /\ TopK.i = 0
                   /\ ctl' = Append(SetK([TopK EXCEPT !.i = 1]), K(TopK.e.e)) /\ UNCHANGED <<fr, ret>>
                \/ /\ ret.k = "ok" /\ TopK.i = 1 /\ ctl' = PopK /\ ret' = ret
                   /\ fr' = IF TopK.e.op = "named" THEN SetTop(fr, [Top(fr) EXCEPT !.ast = AstSet(@, TopK.e.name, ret.v)]) ELSE fr
                \/ /\ ret.k = "ko" /\ TopK.i = 1 /\ ctl' = PopK /\ UNCHANGED <<fr, ret>>
             /\ UNCHANGED <<memo, done, id, G, Inp, nmiss, seeds>>

\* ---- rule call: memo (hit / forced miss), left-recursion seeds, growth
IsLrec(name) == RuleRec(name).lrec
IsMemo(name) == RuleRec(name).memo
StartBody(p, phase, lp) ==
   /\ fr' = Push(Append(Goto(fr, p), Fr(p)))
   /\ ctl' = Append(SetK([TopK EXCEPT !.i = phase, !.p0 = p, !.lp = lp]), K(RuleExp(TopK.e.name)))
   /\ ret' = ret

CallEnter == /\ ret = NoRet /\ Len(ctl) > 0 /\ TopK.e.op = "call" /\ TopK.i = 0
             /\ LET name == TopK.e.name  p == Skip(Top(fr).pos)  key == <<p, name>>  m == MemoGet(key)  sd == SeedGet(key) IN
                IF IsLrec(name)
                THEN \/ /\ sd.k = "ok"        \* LrSeedHit
                        /\ fr' = AppendNode(Goto(fr, sd.newpos), sd.node) /\ ret' = RetOK(sd.node) /\ ctl' = PopK
                        /\ UNCHANGED <<memo, nmiss, seeds>>
                     \/ /\ sd.k = "ko" /\ fr' = Goto(fr, p) /\ ret' = RetKO /\ ctl' = PopK /\ UNCHANGED <<memo, nmiss, seeds>>
                     \/ /\ sd.k = "none"       \* LrGrowStart
                        /\ seeds' = SeedPut(key, [k |-> "ko", node |-> None, newpos |-> 0])
                        /\ StartBody(p, 3, 0) /\ UNCHANGED <<memo, nmiss>>
                ELSE \/ /\ m.k = "ok"          \* MemoHit
                        /\ fr' = AppendNode(Goto(fr, m.newpos), m.node) /\ ret' = RetOK(m.node) /\ ctl' = PopK
                        /\ UNCHANGED <<memo, nmiss, seeds>>
                     \/ /\ m.k = "ko" /\ fr' = Goto(fr, p) /\ ret' = RetKO /\ ctl' = PopK /\ UNCHANGED <<memo, nmiss, seeds>>
                     \/ /\ (m.k = "none" \/ nmiss < 2)     \* MemoMiss (possibly evicted)
                        /\ nmiss' = IF m.k = "none" THEN nmiss ELSE nmiss + 1
                        /\ memo' = SelectSeq(memo, LAMBDA x : x.key # key)
                        /\ StartBody(p, 1, 0) /\ UNCHANGED seeds
             /\ UNCHANGED <<done, id, G, Inp>>

CallExit == /\ Len(ctl) > 0 /\ TopK.e.op = "call" /\ TopK.i = 1 /\ ret # NoRet
            /\ LET key == <<TopK.p0, TopK.e.name>> memoize == IsMemo(TopK.e.name) IN
               IF ret.k = "ok"
               THEN LET node == Fold(Top(fr)) newpos == Top(fr).pos
                        base == SubSeq(fr, 1, Len(fr) - 2) IN
                    /\ fr' = AppendNode(Goto(base, newpos), node)
                    /\ memo' = IF memoize THEN MemoPut(key, [k |-> "ok", node |-> node, newpos |-> newpos]) ELSE memo
                    /\ ret' = RetOK(node)
               ELSE /\ fr' = SubSeq(fr, 1, Len(fr) - 2)
                    /\ memo' = IF memoize THEN MemoPut(key, [k |-> "ko", node |-> None, newpos |-> 0]) ELSE memo
                    /\ ret' = ret
            /\ ctl' = PopK /\ UNCHANGED <<done, id, G, Inp, nmiss, seeds>>

\* one growth round finished (phase 3): keep growing or stop
GrowStep == /\ Len(ctl) > 0 /\ TopK.e.op = "call" /\ TopK.i = 3 /\ ret # NoRet
            /\ LET key == <<TopK.p0, TopK.e.name>>
                   base == SubSeq(fr, 1, Len(fr) - 2)
                   node == CstFinal(Fold(Top(fr)))      \* save_result closes open lists
                   newpos == Top(fr).pos
                   grows == ret.k = "ok" /\ newpos + 1 > TopK.lp
               IN IF grows
                  THEN /\ seeds' = SeedPut(key, [k |-> "ok", node |-> node, newpos |-> newpos])
                       /\ fr' = Push(Append(Goto(base, TopK.p0), Fr(TopK.p0)))
                       /\ ctl' = Append(SetK([TopK EXCEPT !.lp = newpos + 1]), K(RuleExp(TopK.e.name)))
                       /\ ret' = NoRet
                  ELSE LET sd == SeedGet(key) IN
                       /\ seeds' = seeds /\ ctl' = PopK
                       /\ IF sd.k = "ok" THEN fr' = AppendNode(Goto(base, sd.newpos), sd.node) /\ ret' = RetOK(sd.node)
                          ELSE fr' = Goto(base, TopK.p0) /\ ret' = RetKO
            /\ UNCHANGED <<done, id, G, Inp, nmiss, memo>>

\* ---- closure: frames F1 (scope), F2 (optional, first iteration), F3 (option), Fi (isolate)
CloseAndMerge(st) == LET f == Top(st) IN Merge(SetTop(st, [f EXCEPT !.cst = ClosedL(f.cst.v)]))
StarStep == /\ Len(ctl) > 0 /\ TopK.e.op = "star"
            /\ \/ /\ ret = NoRet /\ TopK.i = 0
                  /\ fr' = Push(SetTop(Push(fr), [Top(Push(fr)) EXCEPT !.cst = OpenL(<<>>)]))
                  /\ ctl' = Append(SetK([TopK EXCEPT !.i = 1]), K(TopK.e.e)) /\ ret' = ret
               \/ /\ TopK.i = 1 /\ ret.k = "ko"                       \* first iteration failed
                  /\ IF Top(fr).cut THEN fr' = Undo(Undo(fr)) /\ ret' = RetKO
                     ELSE LET s1 == Undo(fr) IN fr' = CloseAndMerge(s1) /\ ret' = RetOK(ClosedL(Top(s1).cst.v))
                  /\ ctl' = PopK
               \/ /\ TopK.i = 1 /\ ret.k = "ok"                       \* first iteration ok: wrap, start repeat
                  /\ LET f2 == Top(fr) s2 == SetTop(fr, [f2 EXCEPT !.cst = OpenL(<<f2.cst>>)]) IN
                     /\ fr' = Push(Push(s2))
                     /\ ctl' = Append(SetK([TopK EXCEPT !.i = 2, !.p0 = f2.pos]), K(TopK.e.e)) /\ ret' = NoRet
               \/ /\ TopK.i = 2 /\ ret.k = "ok"
                  /\ LET iso == Top(fr) s1 == Undo(fr) o == Top(s1)
                         s2 == SetTop(s1, [o EXCEPT !.pos = iso.pos, !.ast = iso.ast, !.cst = CstAdd(@, CstFinal(iso.cst))]) IN
                     IF iso.pos = TopK.p0
                     THEN /\ ctl' = PopK                               \* matched on no input: the option fails
                          /\ IF o.cut THEN fr' = Undo(Undo(Undo(s2))) /\ ret' = RetKO
                             ELSE LET s3 == Merge(Undo(s2)) IN fr' = CloseAndMerge(s3) /\ ret' = RetOK(ClosedL(Top(s3).cst.v))
                     ELSE LET s3 == Merge(s2) IN
                          /\ fr' = Push(Push(s3))
                          /\ ctl' = Append(SetK([TopK EXCEPT !.p0 = iso.pos]), K(TopK.e.e)) /\ ret' = NoRet
               \/ /\ TopK.i = 2 /\ ret.k = "ko"
                  /\ LET s1 == Undo(fr) IN                              \* isolate frame popped: its cut flag is lost
                     /\ ctl' = PopK
                     /\ IF Top(s1).cut THEN fr' = Undo(Undo(Undo(s1))) /\ ret' = RetKO
                        ELSE LET s3 == Merge(Undo(s1)) IN fr' = CloseAndMerge(s3) /\ ret' = RetOK(ClosedL(Top(s3).cst.v))
            /\ UNCHANGED <<memo, done, id, G, Inp, nmiss, seeds>>

Finish == /\ Len(ctl) = 0 /\ ~done /\ done' = TRUE /\ UNCHANGED <<id, ctl, ret, fr, memo, G, Inp, nmiss, seeds>>

Next == Leaf \/ SeqStep \/ AltStep \/ NamedStep \/ StarStep \/ CallEnter \/ CallExit \/ GrowStep \/ Finish

Outcome == IF ret.k = "ok" THEN [ok |-> TRUE, pos |-> Top(fr).pos, v |-> ret.v] ELSE [ok |-> FALSE, pos |-> 0, v |-> None]
RECURSIVE VEq(_, _)
VEq(a, b) == /\ a.t = b.t
             /\ CASE a.t \in {"n", "u"} -> TRUE
                  [] a.t = "s" -> a.v = b.v
                  [] a.t = "l" -> Len(a.v) = Len(b.v) /\ \A i \in 1..Len(a.v) : VEq(a.v[i], b.v[i])
                  [] a.t = "d" -> Len(a.v) = Len(b.v) /\ \A i \in 1..Len(a.v) : \E j \in 1..Len(b.v) : a.v[i][1] = b.v[j][1] /\ VEq(a.v[i][2], b.v[j][2])
                  [] OTHER -> FALSE
MatchesImpl == done => (Outcome.ok = Cases[id].ok /\ (Outcome.ok => VEq(Outcome.v, Cases[id].val)))
StackOK == Len(fr) >= 1
=============================================================================
