import json, random, sys
random.seed(2)
TOK=['a','b']
def tok(): return {'op':'tok','s':[random.choice(TOK)]}
def exp(d, calls):
    if d == 0: return random.choice([tok, tok, lambda: {'op':'call','name':random.choice(calls)}] if calls else [tok])()
    k = random.choice(['tok','seq','alt','opt','named','cut','call','group','seq','alt'])
    if k == 'tok': return tok()
    if k == 'cut': return {'op':'cut'}
    if k == 'call': return {'op':'call','name': random.choice(calls)} if calls else tok()
    if k in ('seq','alt'): return {'op':k,'es':[exp(d-1,calls) for _ in range(random.randint(2,3))]}
    if k == 'named': return {'op':'named','name':random.choice(['x','w']),'e':exp(d-1,calls)}
    return {'op':k,'e':exp(d-1,calls)}
cases=[]
n=int(sys.argv[1])
for i in range(n):
    g={'rules':[{'name':'s','exp':exp(3,['y','z'])},{'name':'y','exp':exp(2,['z'])},{'name':'z','exp':exp(1,[])}]}
    L=random.randint(0,5)
    cases.append({'g':g,'inp':[random.choice(['a','b',' ']) for _ in range(L)]})
json.dump(cases, open('/tmp/proto/cases2.json','w'))
