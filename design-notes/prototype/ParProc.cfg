CONSTANTS NT = 5
Window = 3
SPECIFICATION Spec
INVARIANT NoDup
INVARIANT NoLoss
INVARIANT ExactlyOnce
PROPERTY Finishes
