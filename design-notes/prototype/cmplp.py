import json, sys, collections
sys.path.insert(0, '/tmp/scr')
from tatsu.input.textlines import TextLines
from tatsu.input.buffer import Buffer
M = {'x': 'x', 'n': '\n', 'r': '\r'}
st = collections.Counter(); ex = {}
for line in open('/tmp/proto6/out.txt'):
    if not line.startswith('"LP'): continue
    d = json.loads(json.loads(line)[3:])
    t = ''.join(M[c] for c in d['t'])
    infos = d['info'] if isinstance(d['info'], list) else [d['info'][str(i)] for i in range(len(t)+1)]
    for cls in (TextLines, Buffer):
        try: c = cls(t).newcursor()
        except Exception as e: st[(cls.__name__, 'ctor-exc')] += 1; continue
        for o, inf in enumerate(infos):
            exp = (inf['line'], inf['col'], ''.join(M[ch] for ch in inf['text']))
            try:
                li = c.lineinfo(o); got = (li.line, li.col, li.text)
            except Exception as e:
                got = ('EXC', type(e).__name__)
            where = 'eot' if o == len(t) else 'inside'
            k = (cls.__name__, where, 'ok' if got == exp else 'DIFF')
            st[k] += 1
            if got != exp and k not in ex: ex[k] = (repr(t), o, got, exp)
for k in sorted(st): print(k, st[k])
for k, v in ex.items(): print(k, v)
