CONSTANT WS = {" "}
INIT Init
NEXT Next
INVARIANT MatchesImpl
INVARIANT StackOK
CHECK_DEADLOCK FALSE
