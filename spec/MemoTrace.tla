------------------------------ MODULE MemoTrace ------------------------------
(* C04, code -> spec for the memo table: the memo operations of REAL parses (ParserCore.memo / memoize / cut and
   ParserEngine.clear_recursion_errors, wrapped by harness/memoreplay.py; set_left_recursion_guard goes through memoize) must be a
   behaviour of MemoCache.  Every event is logged after the call returned, with cheap scalars of the table: its length and its oldest
   key.  The capacity, the pruning and memoization settings and the set of non-memoizable rules are read from the execution's header
   (cfg is a variable of MemoCache).  Values: "guard" for a FailedLeftRecursion, "ko<n>" / "ok<n>" for the n-th distinct failure /
   result object the parse stored - so a lookup that answers with anything but the LAST object stored under that key (a stale entry
   that survived a cut, an entry of another key, an entry that should have been evicted or was evicted although it is young) is
   rejected at that event.  MemoCache's invariants are evaluated in every state of every observed execution.  Acceptance is collected
   in a TLCSet register and reported by POSTCONDITION (run with -workers 1).                                                      *)
EXTENDS MemoCache, Json, IOUtils, TLCExt

Traces == JsonDeserialize(IOEnv.VERIF_TRACES)   \* Seq([cap, prune, memoization, nonmemo : Seq(STRING), ev : Seq(event)])
VARIABLES id, l
tvars == <<id, l>>

Tr == Traces[id].ev
NoEv == [op |-> "none", pos |-> 0, rule |-> "", val |-> "", len |-> 0, oldp |-> 0, oldr |-> ""]
EvAt(k) == IF k <= Len(Tr) THEN Tr[k] ELSE NoEv
SeqRange(s) == {s[i] : i \in 1..Len(s)}
KeyOf(e) == <<e.pos, e.rule>>
\* the scalars of the table logged with every event
Shape(e, c) == /\ Len(c) = e.len
               /\ IF c = <<>> THEN e.oldr = "" ELSE c[1][1] = <<e.oldp, e.oldr>>

TraceInit == /\ \E i \in 1..Len(Traces) :
                  /\ id = i
                  /\ cfg = [cap |-> Traces[i].cap, prune |-> Traces[i].prune, memoization |-> Traces[i].memoization,
                            nonmemo |-> SeqRange(Traces[i].nonmemo)]
             /\ cache = <<>> /\ last = <<>> /\ resp = "none" /\ lastop = <<"init", <<0, "m">>>>
             /\ l = 1
             /\ TLCSet(1, {})
             /\ TLCSet(2, [i \in 1..Len(Traces) |-> 0])

TStore == LET e == EvAt(l) IN
          /\ e.op = "store"
          /\ IF e.val = "guard" THEN Guard(KeyOf(e)) ELSE Store(KeyOf(e), e.val)
          /\ Shape(e, cache') /\ l' = l + 1
TLookup == LET e == EvAt(l) IN
           /\ e.op = "lookup" /\ Lookup(KeyOf(e))
           /\ resp' = e.val /\ Shape(e, cache') /\ l' = l + 1
TCut == LET e == EvAt(l) IN
        /\ e.op = "cut" /\ Cut(e.pos)
        /\ Shape(e, cache') /\ l' = l + 1
TClear == LET e == EvAt(l) IN
          /\ e.op = "clear" /\ ClearGuards
          /\ Shape(e, cache') /\ l' = l + 1
TFinish == /\ l = Len(Tr) /\ EvAt(l).op = "end" /\ l' = l + 1 /\ UNCHANGED vars
           /\ TLCSet(1, TLCGet(1) \cup {id})

TNext == /\ TStore \/ TLookup \/ TCut \/ TClear \/ TFinish
         /\ UNCHANGED id
         /\ TLCSet(2, [TLCGet(2) EXCEPT ![id] = IF l' > @ THEN l' ELSE @])

AllAccepted == PrintT("RES accepted " \o ToJson([accepted |-> TLCGet(1), total |-> Len(Traces), reached |-> TLCGet(2)]))
=============================================================================
