------------------------------ MODULE ConfigLayers ------------------------------
(* C09 (layering clause): the effective value of a setting is decided by four layers,
     built-in default  <  settings given when the grammar is compiled  <  the grammar's directives  <  explicit parse-time settings.
   A behaviour = one API call history  Compile(cs) ; Parse(ps)  on a grammar carrying directive d; every layer is either
   absent ("-") or one of the values of the setting.  TLC enumerates every combination for every setting and prints the
   value that must be in effect, which the harness observes through a behaviour-revealing parse.                          *)
EXTENDS Naturals, Sequences, TLC, Json

Absent == "-"
Settings == {"ignorecase", "nameguard", "whitespace", "eol_comments", "comments", "namechars", "left_recursion", "parseinfo"}
Values(s) == CASE s \in {"ignorecase", "nameguard", "left_recursion", "parseinfo"} -> {"True", "False"}
               [] s = "whitespace" -> {"none", "blank"}          \* no whitespace skipping / skip blanks and tabs only
               [] s = "eol_comments" -> {"hash", "semi"}         \* '#...' / ';...'
               [] s = "comments" -> {"paren", "brace"}           \* (*...*) / {#...#}
               [] s = "namechars" -> {"dash", "dollar"}
Default(s) == CASE s \in {"ignorecase", "parseinfo"} -> "False"
                [] s \in {"nameguard", "left_recursion"} -> "True"
                [] s = "whitespace" -> "default"                  \* \s+
                [] s \in {"eol_comments", "comments"} -> "nocomments"
                [] s = "namechars" -> "nochars"

VARIABLES setting, compileLayer, directiveLayer, parseLayer, pc, effective
vars == <<setting, compileLayer, directiveLayer, parseLayer, pc, effective>>

Layer(s) == Values(s) \cup {Absent}
Pick(a, b) == IF a # Absent THEN a ELSE b

Init == /\ setting \in Settings
        /\ compileLayer = Absent /\ directiveLayer \in Layer(setting) /\ parseLayer = Absent
        /\ pc = "grammar" /\ effective = Default(setting)

\* the grammar text is compiled: compile-time settings sit under the directives
Compile == /\ pc = "grammar"
           /\ \E c \in Layer(setting) :
                /\ compileLayer' = c
                /\ effective' = Pick(directiveLayer, Pick(c, Default(setting)))
           /\ pc' = "model" /\ UNCHANGED <<setting, directiveLayer, parseLayer>>

\* a parse with explicit settings: they win over everything; the model's own configuration is not altered
Parse == /\ pc = "model"
         /\ \E p \in Layer(setting) :
              /\ parseLayer' = p
              /\ effective' = Pick(p, Pick(directiveLayer, Pick(compileLayer, Default(setting))))
         /\ pc' = "parsed" /\ UNCHANGED <<setting, compileLayer, directiveLayer>>
         /\ PrintT("RES " \o setting \o "/" \o compileLayer \o "/" \o directiveLayer \o "/" \o parseLayer' \o " " \o ToJson([eff |-> effective']))

\* a second parse without settings on the same model sees the model configuration again (nothing leaked)
ParseAgain == /\ pc = "parsed" /\ pc' = "done"
              /\ effective' = Pick(directiveLayer, Pick(compileLayer, Default(setting)))
              /\ UNCHANGED <<setting, compileLayer, directiveLayer, parseLayer>>

Next == Compile \/ Parse \/ ParseAgain
Spec == Init /\ [][Next]_vars

\* properties of the layering function itself
Precedence == pc \in {"parsed"} =>
                 /\ (parseLayer # Absent => effective = parseLayer)
                 /\ (parseLayer = Absent /\ directiveLayer # Absent => effective = directiveLayer)
                 /\ (parseLayer = Absent /\ directiveLayer = Absent /\ compileLayer # Absent => effective = compileLayer)
                 /\ (parseLayer = Absent /\ directiveLayer = Absent /\ compileLayer = Absent => effective = Default(setting))
NoLeak == pc = "done" => effective = Pick(directiveLayer, Pick(compileLayer, Default(setting)))
TypeOK == effective \in Values(setting) \cup {Default(setting)}
=============================================================================
