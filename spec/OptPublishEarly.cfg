CONSTANTS Threads = {1, 2, 3}
Order = "publish-release-analyse"
SPECIFICATION Spec
INVARIANT TypeOK
INVARIANT AnalysedBeforeUse
INVARIANT BuiltOnce
PROPERTY Finishes
