------------------------------ MODULE PegMachine ------------------------------
(* Layer 2: the IMPLEMENTATION-SHAPED abstract machine of the TatSu runtime (tatsu/contexts/{engine,core,context,state,cst}.py and
   the _parse methods of tatsu/peg/*.py), small-step, one named action per critical section of the code so that recorded
   executions bind to it event by event (PegTrace) - see design-notes/engine-transcription.md for the code side of every action.

   state   ctl    control stack of continuations [e, i, p0, lp, acc]            the Python call stack of _parse / closures
           ret    NoRet | ok(v) | ko : what is being returned to the top continuation   return value / FailedParse in flight
           fr     stack of frames [pos, ast, cst, cut]                          ParseStateStack.state_stack
           memo   sequence of [key, k, node, newpos, guard]                     ParserCore._memos (key = <<pos, rule>>)
           seeds  sequence of [key, k, node, newpos]                            ParserEngine._results
           nmiss  forced memo misses taken so far (models LRU eviction: MemoMiss is enabled although an entry exists)
   Nondeterminism: memo hit vs forced miss (every eviction schedule / every perlinememos capacity); everything else is
   deterministic.  Cfg.prune chooses prune_memos_on_cut, Cfg.memoize chooses memoization on/off.
   Checked by TLC (PegMachineMC): Refines (the machine's outcome is PegSem's outcome under every schedule), FramesBalanced,
   CutContained, StepBound.                                                                                            *)
EXTENDS PegSem

VARIABLES ctl, ret, fr, memo, seeds, nmiss, done, steps
mvars == <<ctl, ret, fr, memo, seeds, nmiss, done, steps>>
gvars == <<G, Inp, Cfg>>

MaxForcedMisses == IF "maxmiss" \in DOMAIN Cfg THEN Cfg.maxmiss ELSE 2
Memoize == IF "memoize" \in DOMAIN Cfg THEN Cfg.memoize ELSE TRUE
Prune == IF "prune" \in DOMAIN Cfg THEN Cfg.prune ELSE TRUE

NoRet == [k |-> "none"]
RetOK(v) == [k |-> "ok", v |-> v]
RetKO == [k |-> "ko"]

\* ---- frames (contexts/state.py)
\* `last` is ParseState.last_node: the node most recently appended / merged into the frame.  Only GENERATED parsers read it
\* (nameset/nameadd/result bind last_node: KF-C02-1); the model interpreter binds the value returned by the sub-expression.
Gen == "backend" \in DOMAIN Cfg /\ Cfg.backend = "gen"
Fr(pos) == [pos |-> pos, ast |-> <<>>, cst |-> None, cut |-> FALSE, last |-> None]
Top(st) == st[Len(st)]
SetTop(st, f) == [st EXCEPT ![Len(st)] = f]
Push(st) == Append(st, [pos |-> Top(st).pos, ast |-> Top(st).ast, cst |-> None, cut |-> FALSE, last |-> None])
Undo(st) == SubSeq(st, 1, Len(st) - 1)
Merge(st) == LET prev == Top(st)  rest == Undo(st)  cur == Top(rest) IN
             SetTop(rest, [cur EXCEPT !.ast = prev.ast, !.cst = CstMerge(cur.cst, prev.cst), !.pos = prev.pos, !.last = prev.cst])
AppendNode(st, node) == SetTop(st, [Top(st) EXCEPT !.cst = CstAdd(@, node), !.last = node])
Goto(st, p) == SetTop(st, [Top(st) EXCEPT !.pos = p])
SetCut(st) == SetTop(st, [Top(st) EXCEPT !.cut = TRUE])
\* isolate(): pop the iteration frame keeping position and ast, and (since the fix recorded as KF-C05-1) its cut flag
PopIso(st) == LET iso == Top(st)  rest == Undo(st)  o == Top(rest) IN
              SetTop(rest, [o EXCEPT !.pos = iso.pos, !.ast = iso.ast, !.cut = o.cut \/ iso.cut])
DefineFr(st, e) == SetTop(st, [Top(st) EXCEPT !.ast = DefineAll(DefineAll(@, DefsL(e), OpenL(<<>>)), Defs(e) \ DefsL(e), None)])
\* generated parsers call define() for Sequence nodes only (ngparser_gen.walk_Sequence): KF-C02-2
DefineOpt(st, e) == IF Gen THEN st ELSE DefineFr(st, e)
FoldFr(f) == IF f.ast = <<>> THEN CstFinal(f.cst)
             ELSE IF AstHas(f.ast, "@") THEN AstGet(f.ast, "@")
             ELSE Dict(f.ast)
Dict1(k, v) == Dict(<<<<k, v>>>>)

\* ---- continuations
K(e) == [e |-> e, i |-> 0, p0 |-> 0, lp |-> 0, acc |-> None]
TopK == ctl[Len(ctl)]
PopK == SubSeq(ctl, 1, Len(ctl) - 1)
SetK(k) == [ctl EXCEPT ![Len(ctl)] = k]
Running(ops) == Len(ctl) > 0 /\ TopK.e.op \in ops

\* ---- memo / seeds (contexts/core.py, engine.py)
MemoGet(key) == LET I == {j \in 1..Len(memo) : memo[j].key = key} IN
                IF I = {} THEN [key |-> key, k |-> "none"] ELSE memo[CHOOSE j \in I : TRUE]
MemoDrop(key) == SelectSeq(memo, LAMBDA m : m.key # key)
MemoPut(key, r) == Append(MemoDrop(key), [key |-> key] @@ r)
SeedGetM(key) == LET I == {j \in 1..Len(seeds) : seeds[j].key = key} IN
                 IF I = {} THEN [key |-> key, k |-> "none"] ELSE seeds[CHOOSE j \in I : TRUE]
SeedPutM(key, r) == Append(SelectSeq(seeds, LAMBDA m : m.key # key), [key |-> key] @@ r)
\* Grammar.parse() runs the *optimized* grammar (peg/base.py Grammar.optimized, Optional.optimized): an optional whose body is an
\* optional, a closure or a non-positive join/gather is replaced by that body - which loses the optional's own define() of its names.
\* The body is kept wrapped when it contains a cut: a closure / optional that saw a cut RAISES when its body then fails, and the
\* enclosing optional is what absorbs that failure (the collapse let it escape: KF-C05-2, repaired).
RECURSIVE Optimized(_)
Optimized(e) == CASE e.op \in Nary -> [e EXCEPT !.es = [i \in 1..Len(e.es) |-> Optimized(e.es[i])]]
                  [] e.op = "join" -> [e EXCEPT !.e = Optimized(e.e)]
                  [] e.op = "opt" -> LET x == Optimized(e.e) IN
                                     IF (x.op \in {"opt", "star"} \/ (x.op = "join" /\ ~x.plus)) /\ ~HasCut(x) THEN x ELSE [e EXCEPT !.e = x]
                  [] e.op \in Unary -> [e EXCEPT !.e = Optimized(e.e)]
                  [] OTHER -> e
BodyExp(name) == IF Gen THEN RuleRec(name).exp ELSE Optimized(RuleRec(name).exp)      \* the code generator walks the model as written
Memoizable(name) == Memoize /\ RuleRec(name).memo /\ ~RuleRec(name).nomemo
IsLrec(name) == RuleRec(name).lrec /\ Cfg.lr

MInit(start) ==
  /\ ctl = <<K([op |-> "call", name |-> start])>>
  /\ ret = NoRet /\ fr = <<Fr(0)>> /\ memo = <<>> /\ seeds = <<>> /\ nmiss = 0 /\ done = FALSE /\ steps = 0

\* ---------------------------------------------------------------- leaves
LeafOps == {"tok", "pat", "opat", "dot", "const", "oconst", "oalert", "constbad", "void", "fail", "eof", "eol", "cut", "emptyclosure", "meta"}
\* `cv` (trace mode): the evaluated value of a string constant ("oconst": interpolation / evaluation is C17's subject, not modelled
\* here) is taken from the recorded "const" event
NoCv == [ok |-> FALSE, v |-> None]
LeafW(cv) ==
  /\ ret = NoRet /\ Running(LeafOps)
  /\ LET e == TopK.e  p0 == Top(fr).pos  p == Skip(p0) IN
     CASE e.op = "tok" -> IF TokAt(p, e.s)
                          THEN fr' = AppendNode(Goto(fr, p + Len(e.s)), Str(e.s)) /\ ret' = RetOK(Str(e.s)) /\ memo' = memo
                          ELSE fr' = Goto(fr, p) /\ ret' = RetKO /\ memo' = memo
       [] e.op = "pat" -> LET n == ClassRun(p0, e.cls, IF e.many THEN N ELSE 1)
                              \* a second group: the whole match is consumed, the value is the FIRST group (util/itertools.py: str_from_match)
                              n2 == IF e.cls2 = <<>> THEN 0 ELSE ClassRun(p0 + n, e.cls2, IF e.many2 THEN N ELSE 1) IN
                          IF n < e.min \/ (e.cls2 # <<>> /\ n2 < e.min2) THEN fr' = fr /\ ret' = RetKO /\ memo' = memo
                          ELSE fr' = AppendNode(Goto(fr, p0 + n + n2), Str(SubText(p0, p0 + n))) /\ ret' = RetOK(Str(SubText(p0, p0 + n))) /\ memo' = memo
       [] e.op = "opat" -> LET m == OPat(e, p0) IN
                           IF m.n < 0 THEN fr' = fr /\ ret' = RetKO /\ memo' = memo
                           ELSE fr' = AppendNode(Goto(fr, p0 + m.n), m.v) /\ ret' = RetOK(m.v) /\ memo' = memo
       [] e.op = "dot" -> IF p0 < N THEN fr' = AppendNode(Goto(fr, p0 + 1), Str(<<Inp[p0 + 1]>>)) /\ ret' = RetOK(Str(<<Inp[p0 + 1]>>)) /\ memo' = memo
                          ELSE fr' = fr /\ ret' = RetKO /\ memo' = memo
       [] e.op = "meta" -> LET r == MetaMatch(e.kind, p) IN
                           IF r.ok THEN fr' = AppendNode(Goto(fr, r.p), r.v) /\ ret' = RetOK(r.v) /\ memo' = memo
                           ELSE fr' = Goto(fr, p) /\ ret' = RetKO /\ memo' = memo
       [] e.op = "const" -> fr' = AppendNode(Goto(fr, p), e.v) /\ ret' = RetOK(e.v) /\ memo' = memo
       [] e.op = "constbad" -> fr' = Goto(fr, p) /\ ret' = [k |-> "kosem"] /\ memo' = memo
       [] e.op = "oalert" -> IF cv.ok THEN fr' = Goto(fr, p) /\ ret' = RetOK(None) /\ memo' = memo     \* ^`msg`: the message is evaluated, nothing appended
                             ELSE fr' = Goto(fr, p) /\ ret' = [k |-> "kosem"] /\ memo' = memo
       [] e.op = "oconst" -> IF cv.ok THEN fr' = AppendNode(Goto(fr, p), cv.v) /\ ret' = RetOK(cv.v) /\ memo' = memo
                             ELSE fr' = Goto(fr, p) /\ ret' = [k |-> "kosem"] /\ memo' = memo
       [] e.op = "void" -> fr' = Goto(fr, p) /\ ret' = RetOK(Unit) /\ memo' = memo
       [] e.op = "fail" -> fr' = Goto(fr, p) /\ ret' = RetKO /\ memo' = memo
       [] e.op = "eof" -> fr' = Goto(fr, p) /\ ret' = (IF p = N THEN RetOK(None) ELSE RetKO) /\ memo' = memo
       [] e.op = "eol" -> LET q == Cfg.eol[p0 + 1] IN          \* eolcheck(): no next_token, nothing appended, position restored on failure
                          IF q < 0 THEN fr' = fr /\ ret' = RetKO /\ memo' = memo
                          ELSE fr' = Goto(fr, q) /\ ret' = RetOK(None) /\ memo' = memo
       [] e.op = "emptyclosure" -> fr' = AppendNode(fr, ClosedL(<<>>)) /\ ret' = RetOK(ClosedL(<<>>)) /\ memo' = memo
       [] e.op = "cut" -> /\ fr' = SetCut(fr) /\ ret' = RetOK(None)
                          \* prune_memos_on_cut: entries before the cut position can never be asked for again; guards are kept
                          /\ memo' = IF Prune THEN SelectSeq(memo, LAMBDA m : m.key[1] >= p0 \/ ("guard" \in DOMAIN m /\ m.guard)) ELSE memo
  /\ ctl' = PopK /\ UNCHANGED <<seeds, nmiss, done>>

Leaf == LeafW(NoCv)

Failing(r) == r.k \in {"ko", "kosem"}

\* ---------------------------------------------------------------- Sequence._parse
SeqStep ==
  /\ Running({"seq"})
  /\ \/ /\ ret = NoRet /\ TopK.i = 0
        /\ fr' = DefineFr(fr, TopK.e)
        /\ IF Len(TopK.e.es) = 0 THEN ctl' = PopK /\ ret' = RetOK(None)
           ELSE ctl' = Append(SetK([TopK EXCEPT !.i = 1]), K(TopK.e.es[1])) /\ ret' = ret
     \/ /\ ret.k = "ok" /\ TopK.i >= 1
        /\ LET out == CstMerge(TopK.acc, ret.v) IN
           IF TopK.i = Len(TopK.e.es) THEN ctl' = PopK /\ ret' = RetOK(out)
           ELSE ctl' = Append(SetK([TopK EXCEPT !.i = @ + 1, !.acc = out]), K(TopK.e.es[TopK.i + 1])) /\ ret' = NoRet
        /\ fr' = fr
     \/ /\ Failing(ret) /\ TopK.i >= 1 /\ ctl' = PopK /\ UNCHANGED <<ret, fr>>
  /\ UNCHANGED <<memo, seeds, nmiss, done>>

\* ---------------------------------------------------------------- Choice._parse / Optional._parse: one frame per option
AltStep ==
  /\ Running({"alt", "opt"})
  /\ LET es == IF TopK.e.op = "alt" THEN TopK.e.es ELSE <<TopK.e.e>> IN
     \/ /\ ret = NoRet /\ TopK.i = 0
        /\ ctl' = Append(SetK([TopK EXCEPT !.i = 1]), K(es[1])) /\ fr' = DefineOpt(Push(fr), es[1]) /\ ret' = ret
     \/ /\ ret.k = "ok" /\ TopK.i >= 1 /\ fr' = Merge(fr) /\ ctl' = PopK /\ ret' = ret
     \/ /\ ret.k = "kosem" /\ TopK.i >= 1 /\ fr' = Undo(fr) /\ ctl' = PopK /\ ret' = ret        \* FailedSemantics is not a FailedParse here
     \/ /\ ret.k = "ko" /\ TopK.i >= 1
        /\ IF Top(fr).cut THEN ctl' = PopK /\ ret' = ret /\ fr' = Undo(fr)                        \* committed: re-raise
           ELSE IF TopK.i < Len(es)
           THEN /\ ctl' = Append(SetK([TopK EXCEPT !.i = @ + 1]), K(es[TopK.i + 1]))
                /\ fr' = DefineOpt(Push(Undo(fr)), es[TopK.i + 1]) /\ ret' = NoRet
           ELSE ctl' = PopK /\ fr' = Undo(fr) /\ ret' = (IF TopK.e.op = "opt" THEN RetOK(None) ELSE RetKO)
  /\ UNCHANGED <<memo, seeds, nmiss, done>>

\* ---------------------------------------------------------------- Group, Named, NamedList, Override, OverrideList
WrapStep ==
  /\ Running({"group", "named", "namedlist", "ovr", "ovrlist"})
  /\ \/ /\ ret = NoRet /\ TopK.i = 0
        /\ ctl' = Append(SetK([TopK EXCEPT !.i = 1]), K(TopK.e.e)) /\ UNCHANGED <<fr, ret>>
     \/ /\ ret.k = "ok" /\ TopK.i = 1 /\ ctl' = PopK
        /\ LET e == TopK.e  f == Top(fr)  v == IF Gen THEN f.last ELSE ret.v IN
           CASE e.op = "group" -> fr' = fr /\ ret' = ret
             [] e.op = "named" -> fr' = SetTop(fr, [f EXCEPT !.ast = AstSet(@, e.name, v)]) /\ ret' = ret
             [] e.op = "namedlist" -> fr' = SetTop(fr, [f EXCEPT !.ast = AstSetList(@, e.name, v)]) /\ ret' = ret
             [] e.op = "ovr" -> fr' = SetTop(fr, [f EXCEPT !.ast = AstSet(@, "@", v)]) /\ ret' = RetOK(Dict1("@", v))
             [] e.op = "ovrlist" -> IF Gen THEN fr' = SetTop(fr, [f EXCEPT !.ast = AstSetList(@, "@", v)]) /\ ret' = ret   \* nameadd('@')
                                    ELSE LET v2 == IF AstHas(f.ast, "@") THEN v ELSE OpenL(<<v>>) IN
                                         fr' = SetTop(fr, [f EXCEPT !.ast = AstSet(@, "@", v2)]) /\ ret' = RetOK(Dict1("@", v2))
     \/ /\ Failing(ret) /\ TopK.i = 1 /\ ctl' = PopK /\ UNCHANGED <<fr, ret>>
  /\ UNCHANGED <<memo, seeds, nmiss, done>>

\* ---------------------------------------------------------------- Lookahead, NegativeLookahead, SkipGroup
LookStep ==
  /\ Running({"and", "not", "skipgroup"})
  /\ \/ /\ ret = NoRet /\ TopK.i = 0
        /\ ctl' = Append(SetK([TopK EXCEPT !.i = 1]), K(TopK.e.e)) /\ fr' = Push(fr) /\ ret' = ret
     \/ /\ ret # NoRet /\ TopK.i = 1 /\ ctl' = PopK
        /\ LET e == TopK.e IN
           CASE e.op = "and" -> fr' = Undo(fr) /\ ret' = ret                                   \* returns the inner value (!), consumes nothing
             [] e.op = "not" -> fr' = Undo(fr) /\ ret' = (IF ret.k = "ok" THEN RetKO ELSE IF ret.k = "kosem" THEN ret ELSE RetOK(None))
             [] e.op = "skipgroup" -> IF ret.k = "ok"
                                      THEN fr' = Goto(Undo(fr), Top(fr).pos) /\ ret' = RetOK(None)   \* pop: position kept, cst/ast/cut dropped
                                      ELSE fr' = Undo(fr) /\ ret' = ret
  /\ UNCHANGED <<memo, seeds, nmiss, done>>

\* ---------------------------------------------------------------- SkipTo: skip_to()
\* while not at end: probe e under a lookahead; on failure skip whitespace/comments, or one character; finally parse e for real
SkipToStep ==
  /\ Running({"skipto"})
  /\ LET e == TopK.e IN
     \/ /\ ret = NoRet /\ TopK.i = 0
        /\ IF Top(fr).pos >= N THEN ctl' = Append(SetK([TopK EXCEPT !.i = 2]), K(e.e)) /\ fr' = fr
           ELSE ctl' = Append(SetK([TopK EXCEPT !.i = 1]), K(e.e)) /\ fr' = Push(fr)
        /\ ret' = ret
     \/ /\ TopK.i = 1 /\ ret.k = "ok"                     \* the probe matched: undo it, parse for real
        /\ fr' = Undo(fr) /\ ctl' = Append(SetK([TopK EXCEPT !.i = 2]), K(e.e)) /\ ret' = NoRet
     \/ /\ TopK.i = 1 /\ ret.k = "kosem" /\ fr' = Undo(fr) /\ ctl' = PopK /\ ret' = ret
     \/ /\ TopK.i = 1 /\ ret.k = "ko"
        /\ LET base == Undo(fr)  p == Top(base).pos  q == Skip(p)  q2 == IF q = p THEN p + 1 ELSE q  b2 == Goto(base, IF q2 > N THEN N ELSE q2) IN
           IF Top(b2).pos >= N THEN ctl' = Append(SetK([TopK EXCEPT !.i = 2]), K(e.e)) /\ fr' = b2 /\ ret' = NoRet
           ELSE ctl' = Append(SetK([TopK EXCEPT !.i = 1]), K(e.e)) /\ fr' = Push(b2) /\ ret' = NoRet
     \/ /\ TopK.i = 2 /\ ret # NoRet /\ ctl' = PopK /\ UNCHANGED <<fr, ret>>
  /\ UNCHANGED <<memo, seeds, nmiss, done>>

\* ---------------------------------------------------------------- closure / positive_closure / join  (contexts/context.py)
\* phases: 1 first iteration, 4 separator of a later iteration, 2 element of a later iteration
Positive(e) == e.op = "plus" \/ (e.op = "join" /\ e.plus)
CloseTop(st) == LET f == Top(st) IN SetTop(st, [f EXCEPT !.cst = ClosedL(IF IsList(f.cst) THEN f.cst.v ELSE <<f.cst>>)])
\* the repetition ends normally: top frame is F2 (closure) or F1 (positive closure)
EndLoop(st, e) == IF Positive(e) THEN LET s == CloseTop(st) IN [fr |-> Merge(s), v |-> Top(s).cst]
                  ELSE LET s1 == Merge(st)  s == CloseTop(s1) IN [fr |-> Merge(s), v |-> Top(s).cst]
\* an option of repeat() failed after a cut: FailedParse leaves repeat(); top frame is F2 / F1 (F3 already undone)
CutOut(st, e) == IF Positive(e) THEN [fr |-> Undo(st), ret |-> RetKO]                         \* statescope undoes F1
                 ELSE IF Top(st).cut THEN [fr |-> Undo(Undo(st)), ret |-> RetKO]              \* optional re-raises, statescope undoes F1
                 ELSE LET s1 == Undo(st)  s == CloseTop(s1) IN [fr |-> Merge(s), ret |-> RetOK(Top(s).cst)]   \* optional swallows: []
StartIter(st, e, k) ==   \* push the option frame F3 and the isolate frame, run separator or element
  LET s == Push(Push(st)) IN
  /\ fr' = s
  /\ ctl' = Append(SetK([k EXCEPT !.i = IF e.op = "join" THEN 4 ELSE 2, !.p0 = Top(st).pos]), K(IF e.op = "join" THEN e.sep ELSE e.e))
  /\ ret' = NoRet
RepStep ==
  /\ Running({"star", "plus", "join"})
  /\ LET e == TopK.e IN
     \/ /\ ret = NoRet /\ TopK.i = 0                                  \* ClosureEnter
        /\ fr' = IF Positive(e) THEN Push(fr) ELSE Push(SetTop(Push(fr), [Top(Push(fr)) EXCEPT !.cst = OpenL(<<>>)]))
        /\ ctl' = Append(SetK([TopK EXCEPT !.i = 1]), K(e.e)) /\ ret' = ret /\ memo' = memo
     \/ /\ TopK.i = 1 /\ Failing(ret)                                 \* the first iteration failed
        /\ ctl' = PopK /\ memo' = memo
        /\ IF Positive(e) \/ ret.k = "kosem" THEN fr' = (IF Positive(e) THEN Undo(fr) ELSE Undo(Undo(fr))) /\ ret' = ret
           ELSE IF Top(fr).cut THEN fr' = Undo(Undo(fr)) /\ ret' = RetKO
           ELSE LET s1 == Undo(fr)  s == CloseTop(s1) IN fr' = Merge(s) /\ ret' = RetOK(Top(s).cst)
     \/ /\ TopK.i = 1 /\ ret.k = "ok"                                 \* first iteration ok: self.cst = [self.cst]; repeat
        /\ LET f == Top(fr)  s == SetTop(fr, [f EXCEPT !.cst = OpenL(<<f.cst>>)]) IN StartIter(s, e, TopK)
        /\ memo' = memo
     \/ /\ TopK.i = 4 /\ ret.k = "ok"                                 \* SepOk: separator matched: append it (join), commit
        /\ LET iso == Top(fr)  s1 == PopIso(fr)  o == Top(s1)
               s2 == SetCut(SetTop(s1, [o EXCEPT !.cst = IF e.keep THEN CstAdd(@, CstFinal(iso.cst)) ELSE @,
                                                 !.last = IF e.keep THEN CstFinal(iso.cst) ELSE @])) IN
           /\ fr' = Push(s2)
           /\ ctl' = Append(SetK([TopK EXCEPT !.i = 2]), K(e.e)) /\ ret' = NoRet
           /\ memo' = IF Prune THEN SelectSeq(memo, LAMBDA m : m.key[1] >= iso.pos \/ ("guard" \in DOMAIN m /\ m.guard)) ELSE memo
     \/ /\ TopK.i \in {2, 4} /\ Failing(ret)                          \* an iteration (or its separator) failed
        /\ ctl' = PopK /\ memo' = memo
        /\ LET s1 == PopIso(fr) IN                                    \* finally: the isolate frame is popped, its cut flag kept
           IF ret.k = "kosem" THEN fr' = Undo(Undo(IF Positive(e) THEN s1 ELSE Undo(s1))) /\ ret' = ret
           ELSE IF Top(s1).cut THEN LET c == CutOut(Undo(s1), e) IN fr' = c.fr /\ ret' = c.ret
           ELSE LET r == EndLoop(Undo(s1), e) IN fr' = r.fr /\ ret' = RetOK(r.v)
     \/ /\ TopK.i = 2 /\ ret.k = "ok"                                 \* IterOk
        /\ memo' = memo
        /\ LET iso == Top(fr)  s1 == PopIso(fr)  o == Top(s1)
               s2 == SetTop(s1, [o EXCEPT !.cst = CstAdd(@, CstFinal(iso.cst)), !.last = CstFinal(iso.cst)]) IN
           IF iso.pos = TopK.p0
           THEN /\ ctl' = PopK                                        \* "matched on no input": the option fails
                /\ IF Top(s2).cut THEN LET c == CutOut(Undo(s2), e) IN fr' = c.fr /\ ret' = c.ret
                   ELSE LET r == EndLoop(Undo(s2), e) IN fr' = r.fr /\ ret' = RetOK(r.v)
           ELSE StartIter(Merge(s2), e, TopK)
  /\ UNCHANGED <<seeds, nmiss, done>>

\* ---------------------------------------------------------------- rule invocation: engine.call / rule_call / recursive_call
StartBody(p, phase, lp, st) ==
  /\ fr' = Push(Append(Goto(st, p), Fr(p)))                          \* goto after next_token; states.new(); statescope push
  /\ ctl' = Append(SetK([TopK EXCEPT !.i = phase, !.p0 = p, !.lp = lp]), K(BodyExp(TopK.e.name)))
  /\ ret' = NoRet

CallEnter ==
  /\ ret = NoRet /\ Running({"call"}) /\ TopK.i = 0
  /\ LET name == TopK.e.name IN
     IF ~HasRule(name) THEN ctl' = PopK /\ ret' = RetKO /\ UNCHANGED <<fr, memo, seeds, nmiss>>
     ELSE
     LET p == IF RuleRec(name).tokn THEN Top(fr).pos ELSE Skip(Top(fr).pos)
         key == <<p, name>>  m == MemoGet(key)  sd == SeedGetM(key) IN
     IF RuleRec(name).lrec /\ ~Cfg.lr                                  \* LrDisabled: recursive_call raises 'Left recursion detected'
     THEN fr' = Goto(fr, p) /\ ret' = RetKO /\ ctl' = PopK /\ UNCHANGED <<memo, seeds, nmiss>>
     ELSE
     IF IsLrec(name)
     THEN \/ /\ sd.k = "ok"                                           \* LrSeedHit
             /\ fr' = AppendNode(Goto(fr, sd.newpos), sd.node) /\ ret' = RetOK(sd.node) /\ ctl' = PopK
             /\ UNCHANGED <<memo, seeds, nmiss>>
          \/ /\ sd.k = "ko" /\ fr' = Goto(fr, p) /\ ret' = RetKO /\ ctl' = PopK /\ UNCHANGED <<memo, seeds, nmiss>>
          \/ /\ sd.k = "none"                                         \* LrGrowStart: seed := failure; clear guards; first round
             /\ seeds' = SeedPutM(key, [k |-> "ko", node |-> None, newpos |-> 0])
             /\ memo' = SelectSeq(memo, LAMBDA x : ~("guard" \in DOMAIN x /\ x.guard))
             /\ StartBody(p, 3, 0, fr) /\ nmiss' = nmiss
     ELSE \/ /\ m.k = "ok"                                            \* MemoHit
             /\ fr' = AppendNode(Goto(fr, m.newpos), m.node) /\ ret' = RetOK(m.node) /\ ctl' = PopK
             /\ UNCHANGED <<memo, seeds, nmiss>>
          \/ /\ m.k = "ko" /\ fr' = Goto(fr, p) /\ ret' = RetKO /\ ctl' = PopK /\ UNCHANGED <<memo, seeds, nmiss>>   \* MemoFailHit / guard
          \/ /\ (m.k = "none" \/ (nmiss < MaxForcedMisses /\ ~("guard" \in DOMAIN m /\ m.guard)))                   \* MemoMiss (evicted)
             /\ nmiss' = IF m.k = "none" THEN nmiss ELSE nmiss + 1
             /\ memo' = IF Memoizable(name) /\ Cfg.lr
                        THEN MemoPut(key, [k |-> "ko", node |-> None, newpos |-> 0, guard |-> TRUE])                 \* left-recursion guard
                        ELSE MemoDrop(key)
             /\ StartBody(p, 1, 0, fr) /\ seeds' = seeds
  /\ UNCHANGED done

\* body finished: fold, keyword check, action, memoize (rule_call); then goto/append on the caller frame (call)
\* `ov` (trace mode with an arbitrary semantics object): the action's outcome is taken from the recorded "act" event instead of the
\* action family; NoOv everywhere else
NoOv == [use |-> FALSE]
BodyValueW(name, f, ov) ==
    LET node == FoldFr(f) IN
    IF RuleRec(name).isname /\ IsKeyword(node) THEN [k |-> "ko"]
    ELSE IF ov.use THEN (IF ov.ok THEN [k |-> "ok", node |-> ov.v] ELSE [k |-> "ko"])
    ELSE LET a == Act(name, node) IN
         IF a.k = "ok" THEN [k |-> "ok", node |-> a.v] ELSE [k |-> "ko"]     \* failsem -> failure ("raise" is not run here)
BodyValue(name, f) == BodyValueW(name, f, NoOv)
CallExitW(ov) ==
  /\ Running({"call"}) /\ TopK.i = 1 /\ ret # NoRet
  /\ LET name == TopK.e.name  key == <<TopK.p0, name>>  base == SubSeq(fr, 1, Len(fr) - 2)
         bv == IF ret.k = "ok" THEN BodyValueW(name, Top(fr), ov) ELSE [k |-> "ko"] IN
     IF bv.k = "ok"
     THEN /\ fr' = AppendNode(Goto(base, Top(fr).pos), bv.node)
          /\ memo' = IF Memoizable(name) THEN MemoPut(key, [k |-> "ok", node |-> bv.node, newpos |-> Top(fr).pos, guard |-> FALSE]) ELSE MemoDrop(key)
          /\ ret' = RetOK(bv.node)
     ELSE /\ fr' = base
          /\ memo' = IF Memoizable(name) THEN MemoPut(key, [k |-> "ko", node |-> None, newpos |-> 0, guard |-> FALSE]) ELSE MemoDrop(key)
          /\ ret' = RetKO
  /\ ctl' = PopK /\ UNCHANGED <<seeds, nmiss, done>>

\* one growth round of recursive_call finished (phase 3)
GrowStepW(ov) ==
  /\ Running({"call"}) /\ TopK.i = 3 /\ ret # NoRet
  /\ LET name == TopK.e.name  key == <<TopK.p0, name>>  base == SubSeq(fr, 1, Len(fr) - 2)
         bv == IF ret.k = "ok" THEN BodyValueW(name, Top(fr), ov) ELSE [k |-> "ko"]
         newpos == Top(fr).pos
         grows == bv.k = "ok" /\ newpos + 1 > TopK.lp IN
     IF grows
     THEN /\ seeds' = SeedPutM(key, [k |-> "ok", node |-> CstFinal(bv.node), newpos |-> newpos])      \* save_result closes open lists
          /\ memo' = SelectSeq(memo, LAMBDA x : ~("guard" \in DOMAIN x /\ x.guard))                    \* clear_recursion_errors
          /\ fr' = Push(Append(Goto(base, TopK.p0), Fr(TopK.p0)))
          /\ ctl' = Append(SetK([TopK EXCEPT !.lp = newpos + 1]), K(BodyExp(name)))
          /\ ret' = NoRet
     ELSE LET sd == SeedGetM(key) IN
          /\ seeds' = seeds /\ memo' = memo /\ ctl' = PopK
          /\ IF sd.k = "ok" THEN fr' = AppendNode(Goto(base, sd.newpos), sd.node) /\ ret' = RetOK(sd.node)
             ELSE fr' = Goto(base, TopK.p0) /\ ret' = RetKO
  /\ UNCHANGED <<nmiss, done>>

CallExit == CallExitW(NoOv)
GrowStep == GrowStepW(NoOv)

Finish == /\ Len(ctl) = 0 /\ ~done /\ done' = TRUE /\ UNCHANGED <<ctl, ret, fr, memo, seeds, nmiss>>

Step == Leaf \/ SeqStep \/ AltStep \/ WrapStep \/ LookStep \/ SkipToStep \/ RepStep \/ CallEnter \/ CallExit \/ GrowStep \/ Finish
MNext == Step /\ steps' = steps + 1 /\ UNCHANGED gvars

\* ---------------------------------------------------------------- what the machine computed
MOutcome == IF ret.k = "ok" THEN [k |-> "ok", pos |-> Top(fr).pos, v |-> ret.v] ELSE [k |-> "fail", pos |-> 0, v |-> None]

\* ---------------------------------------------------------------- properties
FramesBalanced == /\ Len(fr) >= 1
                  /\ (done => Len(fr) = 1)
\* a frame's cut flag is read only by the construct that pushed it: frames below the top never change their flag while a
\* continuation above them is running, except through isolate()'s documented propagation into the option frame
CutContained == [][\A i \in 1..Len(fr') : i <= Len(fr) - 2 => fr'[i].cut = fr[i].cut]_mvars
StepBound == steps <= 40 * (Len(Inp) + 2) * (Len(Inp) + 2) + 400
=============================================================================
