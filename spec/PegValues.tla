------------------------------ MODULE PegValues ------------------------------
(* Values returned by parses, as tagged records so that TLC never compares values of different TLA+ types.
   The open/closed distinction of lists (contexts/cst.py) is part of a value while it is being assembled;
   results are compared modulo it (see VEq).  Text is a sequence of one-character strings. *)
EXTENDS Naturals, Sequences, FiniteSets, TLC

None        == [t |-> "n"]
Unit        == [t |-> "u"]                       \* the () of the empty expression
Str(s)      == [t |-> "s", v |-> s]              \* s : Seq(Char)
Int(i)      == [t |-> "i", v |-> i]
Bool(b)     == [t |-> "b", v |-> b]
OpenL(xs)   == [t |-> "l", c |-> FALSE, v |-> xs]
ClosedL(xs) == [t |-> "l", c |-> TRUE, v |-> xs]
Dict(ps)    == [t |-> "d", v |-> ps, pi |-> <<>>] \* ps : Seq(<<name, value>>), insertion order; pi : parse information (C12)
Tagged(r, x) == [t |-> "g", r |-> r, v |-> x]    \* result of the "tagging" semantic action of C06
Obj(cls, bases, attrs) == [t |-> "o", cls |-> cls, bases |-> bases, v |-> attrs, pi |-> <<>>]   \* object-model node (C07): attrs as Dict pairs
IsOpen(x)   == x.t = "l" /\ ~x.c
IsList(x)   == x.t = "l"

\* ---- contexts/cst.py
CstAdd(cst, node) ==
  IF cst.t = "n" THEN node
  ELSE IF IsOpen(cst) THEN OpenL(Append(cst.v, node))
  ELSE OpenL(<<cst, node>>)

CstAddList(cst, node) ==
  IF cst.t = "n" THEN OpenL(<<node>>)
  ELSE IF IsOpen(cst) THEN OpenL(Append(cst.v, node))
  ELSE OpenL(<<cst, node>>)

CstMerge(cst, other) ==
  IF other.t = "n" THEN cst
  ELSE IF cst.t = "n" THEN other
  ELSE IF IsOpen(other) /\ IsOpen(cst) THEN OpenL(cst.v \o other.v)
  ELSE IF IsOpen(other) THEN OpenL(<<cst>> \o other.v)
  ELSE IF IsOpen(cst) THEN OpenL(Append(cst.v, other))
  ELSE OpenL(<<cst, other>>)

CstFinal(cst) == IF IsOpen(cst) THEN ClosedL(cst.v) ELSE cst

\* ---- name/value maps (contexts/ast.py): a sequence of pairs, "@" is the override key
AstHas(ast, k) == \E i \in 1..Len(ast) : ast[i][1] = k
AstGet(ast, k) == LET I == {i \in 1..Len(ast) : ast[i][1] = k} IN
                  IF I = {} THEN None ELSE ast[CHOOSE i \in I : TRUE][2]
AstPut(ast, k, v) == IF AstHas(ast, k)
                     THEN [i \in 1..Len(ast) |-> IF ast[i][1] = k THEN <<k, v>> ELSE ast[i]]
                     ELSE Append(ast, <<k, v>>)
\* docs/syntax.rst: "If a name collides with a Python keyword or builtin, an underscore will be appended": at the AST level the names
\* that collide are the attributes of dict (contexts/ast.py: AST._safekey)
DictAttrs == {"clear", "copy", "fromkeys", "get", "items", "keys", "pop", "popitem", "setdefault", "update", "values"}
RECURSIVE SafeKey(_)
SafeKey(k) == IF k \in DictAttrs THEN SafeKey(k \o "_") ELSE k
AstSet(ast, k0, node)     == LET k == SafeKey(k0) IN AstPut(ast, k, CstAdd(AstGet(ast, k), node))
AstSetList(ast, k0, node) == LET k == SafeKey(k0) IN AstPut(ast, k, CstAddList(AstGet(ast, k), node))

RECURSIVE DefineAll(_, _, _)
DefineAll(ast, ks, dflt) ==
  IF ks = {} THEN ast
  ELSE LET k0 == CHOOSE k \in ks : TRUE  k == SafeKey(k0) IN
       DefineAll(IF AstHas(ast, k) THEN ast ELSE Append(ast, <<k, dflt>>), ks \ {k0}, dflt)

\* ---- equality of results: tag first, lists modulo open/closed, dicts as unordered maps
RECURSIVE VEq(_, _)
VEq(a, b) ==
  /\ a.t = b.t
  /\ CASE a.t \in {"n", "u"} -> TRUE
       [] a.t \in {"s", "b", "x"} -> a.v = b.v              \* "x": an opaque object produced by a semantic action (type name + identity)
       [] a.t = "i" -> a.v = b.v /\ ("neg" \in DOMAIN a /\ a.neg) = ("neg" \in DOMAIN b /\ b.neg)
       [] a.t = "f" -> TRUE      \* the spec carries the matched text, the engine a float: the numeric conversion is compared in Python (C08)
       [] a.t = "l" -> Len(a.v) = Len(b.v) /\ \A i \in 1..Len(a.v) : VEq(a.v[i], b.v[i])
       [] a.t = "d" -> /\ Len(a.v) = Len(b.v)
                       /\ \A i \in 1..Len(a.v) : \E j \in 1..Len(b.v) : a.v[i][1] = b.v[j][1] /\ VEq(a.v[i][2], b.v[j][2])
       [] a.t = "g" -> a.r = b.r /\ VEq(a.v, b.v)
       [] a.t = "o" -> /\ a.cls = b.cls /\ Len(a.v) = Len(b.v)
                       /\ \A i \in 1..Len(a.v) : \E j \in 1..Len(b.v) : a.v[i][1] = b.v[j][1] /\ VEq(a.v[i][2], b.v[j][2])
       [] OTHER -> FALSE

\* ---- sequences of characters
IsPrefixAt(text, p, s) == p + Len(s) <= Len(text) /\ \A i \in 1..Len(s) : text[p + i] = s[i]
=============================================================================
