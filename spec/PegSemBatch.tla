------------------------------ MODULE PegSemBatch ------------------------------
(* Oracle mode: evaluate PegSem!Parse on every (grammar, configuration, start rule, text) of a job file and print one
   RES line per case.  Job file (JSON, path in env VERIF_CASES):
     [grammars |-> Seq(G), cfgs |-> Seq(Cfg), textsets |-> Seq(Seq(text)), jobs |-> Seq([g, c, ts, start])]          *)
EXTENDS PegSem, Json, IOUtils

Jobs == JsonDeserialize(IOEnv.VERIF_CASES)
VARIABLES job, ti, done
bvars == <<G, Inp, Cfg, job, ti, done>>

Init == \E j \in 1..Len(Jobs.jobs) :
          \E t \in 1..Len(Jobs.textsets[Jobs.jobs[j].ts]) :
            /\ job = j /\ ti = t /\ done = FALSE
            /\ G = Jobs.grammars[Jobs.jobs[j].g]
            /\ Cfg = Jobs.cfgs[Jobs.jobs[j].c]
            /\ Inp = Jobs.textsets[Jobs.jobs[j].ts][t]

Next == /\ ~done /\ done' = TRUE /\ UNCHANGED <<G, Inp, Cfg, job, ti>>
        /\ PrintT("RES " \o ToString(job) \o "." \o ToString(ti) \o " " \o
                  ToJson([r |-> Parse(Jobs.jobs[job].start), u |-> Unspecified, ua |-> UnspecifiedAcceptance, lr |-> LeftRecursive # {}]))
=============================================================================
