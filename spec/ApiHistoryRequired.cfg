CONSTANTS Grammars = {"g1", "g2", "g3"}
Colliding = {"g3"}
Names = {"none", "N"}
Sems = {"s1"}
AsIs = FALSE
MaxCalls = 3
MaxHandles = 2
SPECIFICATION Spec
INVARIANT HistoryIndependent
INVARIANT ModelStable
CHECK_DEADLOCK FALSE
