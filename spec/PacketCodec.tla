------------------------------ MODULE PacketCodec ------------------------------
(* C19 (codec part): the layers of tatsu/packetz/packet.py pack()/unpack() as functions on character sequences, over the alphabet of
   the characters the encoding itself uses.
     Rle        run-length layer (compact.py): '~' doubled, runs of >= 4 equal non-'~' characters -> ~cN~ ; decoding is ONE left-to-right
                pass over the tokens '~~' and '~cN~' (RleDecTwoPass transcribes the former two-pass decoder, kept to document KF-C19-1)
     Json       JSON string-literal encoding of a payload string (only the escapes that matter here)
     ClassEsc   '"__class__":' <-> '"@":'       (global text replacement on the JSON text)
     TtyEsc     ESC / '\x1b' -> '\e' ; '\e' -> ESC  (global text replacement on the JSON text)
     Sniff      the JSON loader behind unpack() (util/fromjson.py) turns every string VALUE that starts with  f{  or  \e[  into a
                Style object (the written form of styled text); dict keys are not looked at
   Required law (the property):  Unpack(Pack(p)) = p  for every payload.  TLC evaluates, for every payload string up to MaxLen, both
   the law on the layers AS CODED (the witnesses where it fails are exactly the listed known findings) and the per-layer outputs
   that the harness compares with the real functions.  Characters: "~" "a" "1" "B"(=backslash) "e" "E"(=ESC) "q"(=double quote) "@" ":" "_"  *)
EXTENDS Naturals, Sequences, FiniteSets, TLC, Json

CONSTANTS Alphabet, MaxLen

Digits == {"0", "1", "2", "3", "4", "5", "6", "7", "8", "9"}
DigitOf(n) == CASE n = 0 -> "0" [] n = 1 -> "1" [] n = 2 -> "2" [] n = 3 -> "3" [] n = 4 -> "4" [] n = 5 -> "5"
                [] n = 6 -> "6" [] n = 7 -> "7" [] n = 8 -> "8" [] n = 9 -> "9"
ValOf(c) == CHOOSE n \in 0..9 : DigitOf(n) = c
RECURSIVE Dec(_)
Dec(n) == IF n < 10 THEN <<DigitOf(n)>> ELSE Dec(n \div 10) \o <<DigitOf(n % 10)>>
RECURSIVE Num(_, _)
Num(ds, acc) == IF ds = <<>> THEN acc ELSE Num(Tail(ds), acc * 10 + ValOf(Head(ds)))
Rep(c, n) == [i \in 1..n |-> c]

\* ---------------------------------------------------------------- run-length layer
RECURSIVE DoubleTilde(_)
DoubleTilde(s) == IF s = <<>> THEN <<>> ELSE (IF Head(s) = "~" THEN <<"~", "~">> ELSE <<Head(s)>>) \o DoubleTilde(Tail(s))
RECURSIVE RunLen(_, _, _)
RunLen(s, i, c) == IF i <= Len(s) /\ s[i] = c THEN 1 + RunLen(s, i + 1, c) ELSE 0
RECURSIVE Compress(_, _)
Compress(s, i) == IF i > Len(s) THEN <<>>
                  ELSE LET c == s[i]  n == RunLen(s, i, c) IN
                       IF c # "~" /\ n >= 4 THEN <<"~", c>> \o Dec(n) \o <<"~">> \o Compress(s, i + n)
                       ELSE <<c>> \o Compress(s, i + 1)
RleEnc(s) == Compress(DoubleTilde(s), 1)

RECURSIVE DigitRun(_, _)
DigitRun(s, i) == IF i <= Len(s) /\ s[i] \in Digits THEN 1 + DigitRun(s, i + 1) ELSE 0
\* one pass over the tokens  ~~ | ~cN~
RECURSIVE RleDec1(_, _)
RleDec1(s, i) ==
  IF i > Len(s) THEN <<>>
  ELSE IF s[i] = "~" /\ i + 1 <= Len(s) /\ s[i + 1] = "~" THEN <<"~">> \o RleDec1(s, i + 2)
  ELSE IF s[i] = "~" /\ i + 3 <= Len(s) /\ s[i + 1] # "~"
       THEN LET k == DigitRun(s, i + 2) IN
            IF k >= 1 /\ i + 2 + k <= Len(s) /\ s[i + 2 + k] = "~"
            THEN Rep(s[i + 1], Num(SubSeq(s, i + 2, i + 1 + k), 0)) \o RleDec1(s, i + 3 + k)
            ELSE <<s[i]>> \o RleDec1(s, i + 1)
  ELSE <<s[i]>> \o RleDec1(s, i + 1)
RleDec(s) == RleDec1(s, 1)

\* the former decoder: expand every ~cN~ first, then collapse ~~ (refuted by TLC on '~a1~': KF-C19-1, fixed)
RECURSIVE Expand(_, _)
Expand(s, i) == IF i > Len(s) THEN <<>>
                ELSE IF s[i] = "~" /\ i + 3 <= Len(s) /\ s[i + 1] # "~"
                     THEN LET k == DigitRun(s, i + 2) IN
                          IF k >= 1 /\ i + 2 + k <= Len(s) /\ s[i + 2 + k] = "~"
                          THEN Rep(s[i + 1], Num(SubSeq(s, i + 2, i + 1 + k), 0)) \o Expand(s, i + 3 + k)
                          ELSE <<s[i]>> \o Expand(s, i + 1)
                ELSE <<s[i]>> \o Expand(s, i + 1)
RECURSIVE Undouble(_, _)
Undouble(s, i) == IF i > Len(s) THEN <<>>
                  ELSE IF s[i] = "~" /\ i + 1 <= Len(s) /\ s[i + 1] = "~" THEN <<"~">> \o Undouble(s, i + 2)
                  ELSE <<s[i]>> \o Undouble(s, i + 1)
RleDecTwoPass(s) == Undouble(Expand(s, 1), 1)

\* ---------------------------------------------------------------- JSON text and the two global replacements
RECURSIVE JsonStr(_)
JsonStr(s) == IF s = <<>> THEN <<>>
              ELSE (CASE Head(s) = "q" -> <<"B", "q">>
                      [] Head(s) = "B" -> <<"B", "B">>
                      [] Head(s) = "E" -> <<"B", "u", "0", "0", "1", "b">>
                      [] OTHER -> <<Head(s)>>) \o JsonStr(Tail(s))
IsAt(s, i, pat) == i + Len(pat) - 1 <= Len(s) /\ \A j \in 1..Len(pat) : s[i + j - 1] = pat[j]
RECURSIVE Replace(_, _, _, _)
Replace(s, i, pat, rep) == IF i > Len(s) THEN <<>>
                           ELSE IF IsAt(s, i, pat) THEN rep \o Replace(s, i + Len(pat), pat, rep)
                           ELSE <<s[i]>> \o Replace(s, i + 1, pat, rep)
ClassKey == <<"q", "_", "_", "c", "_", "_", "q", ":">>       \* "__class__": abbreviated to "__c__":
AtKey    == <<"q", "@", "q", ":">>
ClassEsc(t) == Replace(t, 1, ClassKey, AtKey)
ClassUn(t)  == Replace(t, 1, AtKey, ClassKey)
TtyEsc(t) == Replace(Replace(t, 1, <<"E">>, <<"B", "e">>), 1, <<"B", "x", "1", "b">>, <<"B", "e">>)
TtyUn(t)  == Replace(t, 1, <<"B", "e">>, <<"E">>)

\* the JSON text of a packet whose data is: the string s / a dict with key s / a list with item s
Text(kind, s) == CASE kind = "str"  -> <<"{", "q", "d", "q", ":", "q">> \o JsonStr(RleEnc(s)) \o <<"q", "}">>
                   [] kind = "key"  -> <<"{", "q", "d", "q", ":", "{", "q">> \o JsonStr(s) \o <<"q", ":", "1", "}", "}">>
                   [] kind = "item" -> <<"{", "q", "d", "q", ":", "[", "q">> \o JsonStr(RleEnc(s)) \o <<"q", "]", "}">>
Wire(kind, s) == TtyEsc(ClassEsc(Text(kind, s)))
Back(kind, s) == ClassUn(TtyUn(Wire(kind, s)))
Sniffed(s) == IsAt(s, 1, <<"f", "{">>) \/ IsAt(s, 1, <<"B", "e", "[">>)
AsCodedOK(kind, s) == Back(kind, s) = Text(kind, s) /\ (kind = "key" \/ ~Sniffed(s))

Strings == UNION {[1..n -> Alphabet] : n \in 0..MaxLen}
RleRoundTrip == \A s \in Strings : RleDec(RleEnc(s)) = s

RECURSIVE Cat(_)
Cat(u) == IF u = <<>> THEN "" ELSE Head(u) \o Cat(Tail(u))
Order == <<"~", "a", "1", "B", "e", "E", "q", "@", "n", "f", "{", "[">>      \* every alphabet character gets its own letter
Idx(c) == CHOOSE i \in 1..Len(Order) : Order[i] = c
Letter == <<"a", "b", "c", "d", "e", "f", "g", "h", "i", "j", "k", "l">>
RECURSIVE Id(_)
Id(u) == IF u = <<>> THEN "" ELSE Letter[Idx(Head(u))] \o Id(Tail(u))
VARIABLES s, done
Init == s \in Strings /\ done = FALSE
Next == /\ ~done /\ done' = TRUE /\ UNCHANGED s
        /\ PrintT("RES s" \o Id(s) \o " " \o
                  ToJson([s |-> s, enc |-> RleEnc(s), dec |-> RleDec(RleEnc(s)), twopass |-> RleDecTwoPass(RleEnc(s)) = s,
                          str |-> AsCodedOK("str", s), key |-> AsCodedOK("key", s), item |-> AsCodedOK("item", s), sniffed |-> Sniffed(s)]))
RleLaw == RleDec(RleEnc(s)) = s
=============================================================================
