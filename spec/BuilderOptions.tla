------------------------------ MODULE BuilderOptions ------------------------------
(* C10, the object-model options of tatsu.compile(): "the result of compiling or parsing through the public API is determined by
   the arguments of that call alone ... after any sequence of earlier calls with other ... model-building options".

   compile(grammar, asmodel=True, basetype=B) returns a grammar model whose parses build nodes of classes derived from B.  Two
   pieces of process-wide state stand between the call and that result:
     cache     the compiled-grammar cache of tatsu/api/api.py (key -> model object); the model object's semantics is (re)installed by
               every compile() that returns it
     registry  the registry of synthesized node classes of tatsu/objectmodel/synth.py: class name -> the class first synthesized
               under that name (with the bases of THAT request)
   Designs (constants):
     KeyHasOptions     TRUE: the builder options are part of the cache key; FALSE: calls that differ only in builder options share
                       one model object, and the later call replaces the builder of the object an earlier caller still holds
     RegistryPerBases  TRUE: a class is found again only for the same bases; FALSE: the class synthesized first under a name is
                       returned for every later request of that name, whatever bases are asked for
   A response is abstracted to the base option the built node derives from.  Ideal(call) depends on the arguments only.
   TLC proves HistoryIndependent / ModelStable for (TRUE, TRUE) and refutes them for the other designs; the call histories of the
   (FALSE, FALSE) state graph are replayed in fresh interpreters against the same call executed alone.                            *)
EXTENDS Naturals, Sequences, FiniteSets, TLC

CONSTANTS Opts,             \* builder options, e.g. {"A", "B"} (basetype=BaseA / BaseB) and "plain" (asmodel=True alone)
          KeyHasOptions, RegistryPerBases, MaxCalls, MaxHandles

Calls == [op : {"compile"}, o : Opts] \cup [op : {"modelparse"}, h : 1..MaxHandles]

VARIABLES cache,      \* key -> model id
          models,     \* model id -> the builder option currently installed on that model object
          registry,   \* "none" or the option under which the class of the grammar's rule type was first synthesized
          handles,    \* sequence of [m |-> model id, o |-> the option its creating call asked for]
          resp, last, ncalls
vars == <<cache, models, registry, handles, resp, last, ncalls>>

Init == cache = <<>> /\ models = <<>> /\ registry = "none" /\ handles = <<>> /\ resp = "none" /\ last = [op |-> "none"] /\ ncalls = 0

Key(o) == IF KeyHasOptions THEN o ELSE "asmodel"
\* building a node: the class comes from the registry
Built(o) == IF RegistryPerBases \/ registry = "none" THEN o ELSE registry
Synth(o) == IF registry = "none" THEN o ELSE registry

Compile(c) == /\ c.op = "compile"
              /\ LET k == Key(c.o)
                     m == IF k \in DOMAIN cache THEN cache[k] ELSE Cardinality(DOMAIN models) + 1 IN
                 /\ cache' = (k :> m) @@ cache
                 /\ models' = (m :> c.o) @@ models                     \* the builder of THIS call is installed on the (shared) object
                 /\ handles' = IF Len(handles) < MaxHandles THEN Append(handles, [m |-> m, o |-> c.o]) ELSE handles
                 /\ resp' = Built(c.o)                                 \* compile(...).parse(text) right away
                 /\ registry' = Synth(c.o)
ModelParse(c) == /\ c.op = "modelparse" /\ c.h <= Len(handles)
                 /\ resp' = Built(models[handles[c.h].m])
                 /\ registry' = Synth(models[handles[c.h].m])
                 /\ UNCHANGED <<cache, models, handles>>

Next == /\ ncalls < MaxCalls
        /\ \E c \in Calls : (Compile(c) \/ ModelParse(c)) /\ last' = c /\ ncalls' = ncalls + 1
Spec == Init /\ [][Next]_vars

Ideal(c) == IF c.op = "compile" THEN c.o ELSE handles[c.h].o
HistoryIndependent == ncalls > 0 => resp = Ideal(last)
ModelStable == \A i \in 1..Len(handles) : models[handles[i].m] = handles[i].o
=============================================================================
