------------------------------ MODULE Sgr ------------------------------
(* C20: styling never alters the text.  tatsu/ztyle/style.py and tatsu/util/tty.py over an abstract alphabet.
     Codes(st)      ordered SGR parameter list of a style (apply_style)
     Wrap(cs, t)    ESC [ p1;..;pn m  t  ESC [ 0 m        (t itself when there are no codes or t is empty)
     Strip(u)       the ANSI_RE automaton  ESC ( [@-Z\-_] | '[' [0-?]* [ -/]* [@-~] )  removed (descape)
     ParseCodes(ps) the attribute reader of Style.from_raw
     Enabled(..)    the colour gate: explicit override > NO_COLOR > FORCE_COLOR > isatty of the policy's OWN stream
                    (Color() looks at stdout, Color.stderr() - the policy of all error rendering - at stderr)
   Laws (checked by TLC for every style of the domain and every ESC-free text up to MaxLen):
     StripLaw   Strip(Wrap(Codes(st), t)) = t          LenLaw   Len(Strip(..)) = Len(t)
     ParseLaw   ParseCodes(Codes(st)) = st              OffLaw   colour disabled => output = t (no ESC at all)
   Characters are abstract: "E"=ESC, "[" , "m", ";", "5" (a digit), "x" (plain), "{" , ":", "B" (backslash), "q" (quote),
   "W" (a wide character), "C" (a base letter followed by a combining mark).  The harness concretises them.            *)
EXTENDS Naturals, Sequences, FiniteSets, TLC, Json

CONSTANTS TextAlphabet, MaxLen, ModSets, Colors
(* a style: [mods |-> SUBSET 1..9 \ {6}, fg |-> colour, bg |-> colour]; colour = <<"none">> | <<"idx", n>> | <<"rgb", r, g, b>> *)

DefColors == {<<"none">>, <<"idx", 0>>, <<"idx", 7>>, <<"idx", 8>>, <<"idx", 15>>, <<"idx", 16>>, <<"idx", 255>>,
              <<"rgb", 0, 128, 255>>, <<"rgb", 10, 20, 2>>, <<"rgb", 10, 20, 30>>}
DefModSets == {{}, {1}, {2}, {3}, {4}, {5}, {7}, {8}, {9}, {1, 3}, {2, 9}, {1, 2, 3, 4, 5, 7, 8, 9}}
Mods == {1, 2, 3, 4, 5, 7, 8, 9}        \* bold dim italic underline blink inverse hidden strikethrough
RECURSIVE ModCodes(_, _)
ModCodes(ms, k) == IF k > 9 THEN <<>> ELSE (IF k \in ms THEN <<k>> ELSE <<>>) \o ModCodes(ms, k + 1)
ColorCodes(c, base) ==     \* base 30 foreground, 40 background
  CASE c[1] = "none" -> <<>>
    [] c[1] = "rgb" -> <<base + 8, 2, c[2], c[3], c[4]>>
    [] c[1] = "idx" -> IF c[2] < 8 THEN <<base + c[2]>>
                       ELSE IF c[2] < 16 THEN <<base + 60 + c[2] - 8>>
                       ELSE <<base + 8, 5, c[2]>>
Codes(st) == ModCodes(st.mods, 1) \o ColorCodes(st.fg, 30) \o ColorCodes(st.bg, 40)

\* decimal rendering of a parameter as abstract characters (every digit is a parameter character for Strip)
DigitCh(n) == CASE n = 0 -> "0" [] n = 1 -> "1" [] n = 2 -> "2" [] n = 3 -> "3" [] n = 4 -> "4" [] n = 5 -> "5"
                [] n = 6 -> "6" [] n = 7 -> "7" [] n = 8 -> "8" [] n = 9 -> "9"
RECURSIVE Dec(_)
Dec(n) == IF n < 10 THEN <<DigitCh(n)>> ELSE Dec(n \div 10) \o <<DigitCh(n % 10)>>
RECURSIVE JoinParams(_)
JoinParams(ps) == IF ps = <<>> THEN <<>> ELSE IF Len(ps) = 1 THEN Dec(ps[1]) ELSE Dec(ps[1]) \o <<";">> \o JoinParams(Tail(ps))
Wrap(cs, t) == IF t = <<>> THEN <<>> ELSE IF cs = <<>> THEN t
               ELSE <<"E", "[">> \o JoinParams(cs) \o <<"m">> \o t \o <<"E", "[", "0", "m">>

\* ---- ANSI_RE as an automaton over character classes
IsParam(c) == c \in {"0", "1", "2", "3", "4", "5", "6", "7", "8", "9", ";", ":"}          \* [0-?]
IsInter(c) == c \in {"s", "q"}                                                          \* [ -/]  (space, double quote)
IsFinal(c) == c \in {"m", "x", "[", "{", "B", "W", "C"} /\ c # "W" /\ c # "C"            \* [@-~]  (ASCII letters, [ \ { ...)
IsTwoChar(c) == c \in {"x", "B"} /\ FALSE                                               \* ESC + [@-Z\-_]: not produced by ESC-free text
RECURSIVE SkipParams(_, _)
SkipParams(u, i) == IF i <= Len(u) /\ IsParam(u[i]) THEN SkipParams(u, i + 1) ELSE i
RECURSIVE SkipInters(_, _)
SkipInters(u, i) == IF i <= Len(u) /\ IsInter(u[i]) THEN SkipInters(u, i + 1) ELSE i
RECURSIVE Strip1(_, _)
Strip1(u, i) ==
  IF i > Len(u) THEN <<>>
  ELSE IF u[i] = "E" /\ i + 1 <= Len(u) /\ u[i + 1] = "["
       THEN LET j == SkipParams(u, i + 2)
                k == SkipInters(u, j) IN
            IF k <= Len(u) /\ IsFinal(u[k]) THEN Strip1(u, k + 1)
            ELSE <<u[i]>> \o Strip1(u, i + 1)
  ELSE <<u[i]>> \o Strip1(u, i + 1)
Strip(u) == Strip1(u, 1)

\* ---- Style.from_raw: read the attributes back from a parameter list
RECURSIVE Parse(_, _, _)
Parse(ps, i, st) ==
  IF i > Len(ps) THEN st
  ELSE LET p == ps[i] IN
       IF p \in Mods THEN Parse(ps, i + 1, [st EXCEPT !.mods = @ \cup {p}])
       ELSE IF p \in 30..37 THEN Parse(ps, i + 1, [st EXCEPT !.fg = <<"idx", p - 30>>])
       ELSE IF p \in 40..47 THEN Parse(ps, i + 1, [st EXCEPT !.bg = <<"idx", p - 40>>])
       ELSE IF p \in 90..97 THEN Parse(ps, i + 1, [st EXCEPT !.fg = <<"idx", p - 82>>])
       ELSE IF p \in 100..107 THEN Parse(ps, i + 1, [st EXCEPT !.bg = <<"idx", p - 92>>])
       ELSE IF p \in {38, 48} /\ i + 2 <= Len(ps) /\ ps[i + 1] = 5
            THEN Parse(ps, i + 3, IF p = 38 THEN [st EXCEPT !.fg = <<"idx", ps[i + 2]>>] ELSE [st EXCEPT !.bg = <<"idx", ps[i + 2]>>])
       ELSE IF p \in {38, 48} /\ i + 4 <= Len(ps) /\ ps[i + 1] = 2
            THEN Parse(ps, i + 5, IF p = 38 THEN [st EXCEPT !.fg = <<"rgb", ps[i + 2], ps[i + 3], ps[i + 4]>>]
                                  ELSE [st EXCEPT !.bg = <<"rgb", ps[i + 2], ps[i + 3], ps[i + 4]>>])
       ELSE Parse(ps, i + 1, st)
Plain == [mods |-> {}, fg |-> <<"none">>, bg |-> <<"none">>]
ParseCodes(ps) == Parse(ps, 1, Plain)

\* ---- the colour gate
Enabled(force, nocolor, forcecolor, stream, ttyout, ttyerr) ==
  IF force # "unset" THEN force = "on"
  ELSE IF nocolor THEN FALSE
  ELSE IF forcecolor THEN TRUE
  ELSE IF stream = "stderr" THEN ttyerr ELSE ttyout

Texts == UNION {[1..n -> TextAlphabet] : n \in 1..MaxLen}
Styles == {[mods |-> m, fg |-> f, bg |-> b] : m \in ModSets, f \in Colors, b \in Colors}

VARIABLES st, t, gate, done
Init == st \in Styles /\ t \in Texts /\ done = FALSE
        /\ gate \in [force : {"unset", "on", "off"}, nocolor : BOOLEAN, forcecolor : BOOLEAN, stream : {"stdout", "stderr"},
                     ttyout : BOOLEAN, ttyerr : BOOLEAN]
        /\ (gate.force = "on" \/ st = CHOOSE s \in Styles : s.mods = {1} /\ s.fg = <<"none">> /\ s.bg = <<"none">>)   \* the gate is explored with one style
        /\ (gate.force # "on" => Len(t) = 1)
        /\ (gate.force = "on" => ~gate.nocolor /\ ~gate.forcecolor /\ gate.ttyout /\ gate.ttyerr /\ gate.stream = "stdout")
On == Enabled(gate.force, gate.nocolor, gate.forcecolor, gate.stream, gate.ttyout, gate.ttyerr)
Out == IF On THEN Wrap(Codes(st), t) ELSE t

Bit(b) == IF b THEN "1" ELSE "0"
RECURSIVE Cat(_)
Cat(u) == IF u = <<>> THEN "" ELSE Head(u) \o Cat(Tail(u))
Next == /\ ~done /\ done' = TRUE /\ UNCHANGED <<st, t, gate>>
        /\ PrintT("RES " \o Cat(t) \o "_" \o Cat(JoinParams(Codes(st))) \o "_" \o gate.force \o Bit(gate.nocolor) \o Bit(gate.forcecolor) \o gate.stream \o Bit(gate.ttyout) \o Bit(gate.ttyerr) \o " " \o
                  ToJson([mods |-> st.mods, fg |-> st.fg, bg |-> st.bg, t |-> t, gate |-> gate, on |-> On, codes |-> Codes(st), out |-> Out]))

StripLaw == Strip(Out) = t
LenLaw == Len(Strip(Out)) = Len(t)
ParseLaw == ParseCodes(Codes(st)) = st
OffLaw == ~On => (Out = t /\ \A i \in 1..Len(Out) : Out[i] # "E")
=============================================================================
