------------------------------ MODULE MemoCache ------------------------------
(* C04, the packrat memo table as the code keeps it: tatsu/util/boundeddict.py (BoundedDict: a dict in insertion order with a
   capacity; storing a key moves it to the young end and then drops entries from the old end while there are too many; reading
   does NOT refresh an entry), tatsu/contexts/core.py (memo = lookup, memoize = store if the rule is memoizable and memoization
   is on, cut = prune every entry in front of the cut that is not a left-recursion guard, when pruning is on),
   tatsu/contexts/engine.py (set_left_recursion_guard = store a guard, clear_recursion_errors = prune the guards),
   tatsu/util/abctools.py (prune_dict).  One action per call of those methods.

   Keys are <<position, rule>>; values are "ok1" / "ok2" (two different remembered results), "ko" (a remembered failure) and
   "guard" (FailedLeftRecursion).  `cache` is the sequence of <<key, value>> pairs, oldest first.

   What the rest of the specification relies on (PegMachine models the table as a function with "hit or forced miss" at every
   call) is stated here as properties of THIS table and checked by TLC for every sequence of operations (the state space is finite), every
   capacity in Caps, pruning on and off, memoization on and off:
       Bounded        never more entries than the capacity
       NoDupKeys      one entry per key
       Sound          an entry holds the LAST value stored under its key (history variable `last`): a lookup answers with that
                      value or with nothing - never with a stale or foreign value  ("hit or miss" is a sound abstraction)
       YoungestKept   the entry stored by the latest Store is present right after it, whatever the capacity (a left-recursion
                      guard is found by the re-entry that follows it immediately)
       NothingBeforeCut  with pruning on, right after Cut(p) nothing but guards lies in front of p
       UpdateIsStores an Update with a batch of pairs leaves the table as storing the pairs one by one does
   and the two action properties
       OnlyStoreAdds  only Store / Guard / Update add or change an entry
       LookupPure     Lookup changes nothing (no LRU refresh on reads: the eviction order is the order of stores)
   The design switches RefreshOnRead (a true LRU) and EvictYoung (dropping from the wrong end) are refuted by LookupPure and
   YoungestKept; the driver requires those refutations (a vacuous model would not produce them).

   Bound to the code in both directions by harness/memoreplay.py: an edge cover of the state graph is replayed onto a real
   BoundedDict through the real ParserCore methods (memo / memoize / cut / set_left_recursion_guard / clear_recursion_errors)
   with the whole ordered content compared after every step; and the memo operations of real parses, recorded by wrapping those
   methods, are replayed through this specification's transition function (MemoTrace).                                        *)
EXTENDS Naturals, Sequences, FiniteSets, TLC

CONSTANTS Positions,      \* e.g. 0..2
          Rules,          \* e.g. {"m", "n"}: m is memoizable, n is not (a @nomemo rule or a member of a left-recursive cycle)
          Caps,           \* the capacities explored, e.g. 1..3
          RefreshOnRead,  \* design switch: FALSE in the code
          EvictYoung      \* design switch: FALSE in the code

Keys == Positions \X Rules
Values == {"ok1", "ok2", "ko", "guard"}

VARIABLES cfg,        \* [cap, prune, memoization, nonmemo] of this parse: chosen in Init (or read from a recorded execution), never changed
          cache,      \* Seq(<<key, value>>), oldest first
          last,       \* history: key -> last value stored and not pruned / evicted since ("none" otherwise); never read by the actions
          resp,       \* what the latest Lookup answered ("none" = not in the table)
          lastop      \* <<name, key>> of the latest operation
vars == <<cfg, cache, last, resp, lastop>>
Cap == cfg.cap
Prune == cfg.prune
Memoization == cfg.memoization
Memoizable(k) == k[2] \notin cfg.nonmemo

KeysOf(c) == {c[i][1] : i \in 1..Len(c)}
Get(c, k) == IF k \in KeysOf(c) THEN (CHOOSE i \in 1..Len(c) : c[i][1] = k) ELSE 0
Without(c, k) == SelectSeq(c, LAMBDA e : e[1] # k)
Filter(c, Keep(_)) == SelectSeq(c, Keep)

\* _enforce_limit: drop from the old end (the code) or, for the refuted design, from the young end
RECURSIVE Enforce(_)
Enforce(c) == IF Len(c) <= Cap THEN c
              ELSE IF EvictYoung THEN Enforce(SubSeq(c, 1, Len(c) - 1)) ELSE Enforce(Tail(c))

\* BoundedDict.__setitem__
SetItem(c, k, v) == Enforce(Append(Without(c, k), <<k, v>>))

\* BoundedDict.update(batch): dict.update (existing keys keep their place, new ones are appended), then every incoming key is
\* deleted and stored again in the batch's order, then the limit is enforced ONCE
RECURSIVE Reinsert(_, _)
Reinsert(c, batch) == IF batch = <<>> THEN c ELSE Reinsert(Append(Without(c, Head(batch)[1]), Head(batch)), Tail(batch))
UpdateAll(c, batch) == Enforce(Reinsert(c, batch))
RECURSIVE StoreAll(_, _)
StoreAll(c, batch) == IF batch = <<>> THEN c ELSE StoreAll(SetItem(c, Head(batch)[1], Head(batch)[2]), Tail(batch))

Init == /\ cfg \in [cap : Caps, prune : BOOLEAN, memoization : BOOLEAN, nonmemo : {{"n"}}]
        /\ cache = <<>> /\ last = <<>> /\ resp = "none" /\ lastop = <<"init", <<0, "m">>>>
Tick == UNCHANGED cfg

\* the history map forgets what the table dropped: it is the ideal "last value stored" restricted to the surviving keys
Resync(c, l) == [k \in KeysOf(c) |-> l[k]]

\* ParserCore.memoize(key, value): only for memoizable rules and with memoization on
Store(k, v) == /\ Tick /\ v # "guard"
               /\ IF Memoizable(k) /\ Memoization
                  THEN /\ cache' = SetItem(cache, k, v)
                       /\ last' = Resync(cache', ((k :> v) @@ last))
                  ELSE UNCHANGED <<cache, last>>
               /\ lastop' = <<"store", k>> /\ UNCHANGED resp

\* ParserEngine.set_left_recursion_guard(key) = memoize(key, FailedLeftRecursion): goes through the same gate
Guard(k) == /\ Tick
            /\ IF Memoizable(k) /\ Memoization
               THEN /\ cache' = SetItem(cache, k, "guard")
                    /\ last' = Resync(cache', ((k :> "guard") @@ last))
               ELSE UNCHANGED <<cache, last>>
            /\ lastop' = <<"guard", k>> /\ UNCHANGED resp

\* ParserCore.memo(key) = dict.get
Lookup(k) == /\ Tick
             /\ resp' = IF Get(cache, k) = 0 THEN "none" ELSE cache[Get(cache, k)][2]
             /\ cache' = IF RefreshOnRead /\ Get(cache, k) # 0 THEN Append(Without(cache, k), cache[Get(cache, k)]) ELSE cache
             /\ lastop' = <<"lookup", k>> /\ UNCHANGED last

\* ParserCore.cut() at position p
Cut(p) == /\ Tick
          /\ cache' = IF Prune THEN Filter(cache, LAMBDA e : ~(e[1][1] < p /\ e[2] # "guard")) ELSE cache
          /\ last' = Resync(cache', last)
          /\ lastop' = <<"cut", <<p, "m">>>> /\ UNCHANGED resp

\* ParserEngine.clear_recursion_errors()
ClearGuards == /\ Tick
               /\ cache' = Filter(cache, LAMBDA e : e[2] # "guard")
               /\ last' = Resync(cache', last)
               /\ lastop' = <<"clear", <<0, "m">>>> /\ UNCHANGED resp

\* BoundedDict.update with a batch of two pairs (not used by the parser today; part of the class's contract)
Update(k1, v1, k2, v2) == /\ Tick /\ k1 # k2 /\ k1[2] = "m"
                          /\ cache' = UpdateAll(cache, <<<<k1, v1>>, <<k2, v2>>>>)
                          /\ last' = Resync(cache', ((k1 :> v1) @@ (k2 :> v2) @@ last))
                          /\ lastop' = <<"update", k1>> /\ UNCHANGED resp

Next == \/ \E k \in Keys, v \in Values : Store(k, v)
        \/ \E k \in Keys : Guard(k) \/ Lookup(k)
        \/ \E p \in Positions : Cut(p)
        \/ ClearGuards
        \/ \E k1, k2 \in Keys : Update(k1, "ok1", k2, "ko")
Spec == Init /\ [][Next]_vars

TypeOK == /\ cache \in Seq(Keys \X Values) /\ resp \in Values \cup {"none"}
Bounded == Len(cache) <= Cap
NoDupKeys == Cardinality(KeysOf(cache)) = Len(cache)
Sound == /\ DOMAIN last = KeysOf(cache)
         /\ \A i \in 1..Len(cache) : cache[i][2] = last[cache[i][1]]
         /\ lastop[1] = "lookup" => resp = (IF lastop[2] \in DOMAIN last THEN last[lastop[2]] ELSE "none")
YoungestKept == (lastop[1] \in {"store", "guard"} /\ Memoizable(lastop[2]) /\ Memoization) => lastop[2] \in KeysOf(cache)
NothingBeforeCut == (lastop[1] = "cut" /\ Prune) => \A i \in 1..Len(cache) : cache[i][1][1] < lastop[2][1] => cache[i][2] = "guard"
UpdateIsStores == \A k1, k2 \in Keys : k1 # k2 =>
                     UpdateAll(cache, <<<<k1, "ok1">>, <<k2, "ko">>>>) = StoreAll(cache, <<<<k1, "ok1">>, <<k2, "ko">>>>)
\* for the state-graph dump only: the history and observation variables are no part of the table
GraphView == <<cfg, cache>>
OnlyStoreAdds == [][\A k \in Keys : (Get(cache', k) # 0 /\ (Get(cache, k) = 0 \/ cache'[Get(cache', k)][2] # cache[Get(cache, k)][2]))
                                      => lastop'[1] \in {"store", "guard", "update"}]_vars
LookupPure == [][lastop'[1] = "lookup" => cache' = cache]_vars
=============================================================================
