------------------------------ MODULE PegUnspec ------------------------------
(* Generator support: classify each grammar of a file as Unspecified / left recursive (one RES line per grammar). *)
EXTENDS PegGrammar, Json, IOUtils
Gs == JsonDeserialize(IOEnv.VERIF_CASES)
VARIABLES gi, done
Init == \E i \in 1..Len(Gs) : gi = i /\ G = Gs[i] /\ done = FALSE
Next == /\ ~done /\ done' = TRUE /\ UNCHANGED <<G, gi>>
        /\ PrintT("RES " \o ToString(gi) \o " " \o ToJson([u |-> Unspecified, lr |-> LeftRecursive # {}]))
=============================================================================
