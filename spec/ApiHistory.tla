------------------------------ MODULE ApiHistory ------------------------------
(* C10: results of the public API depend only on the arguments of the call.
   State of the process: the compiled-grammar cache of tatsu/api/api.py, the grammar model objects it holds (shared by every
   caller that ever got them), and the handles callers kept.  A response is abstracted to what it reveals:
       [g |-> the grammar whose rules parsed, sem |-> whose actions ran ("none" | "builder" | a semantics object), name |-> parser name]
   Ideal(call) is a function of the arguments only.  HistoryIndependent: after every call, resp = Ideal(that call).
   Two designs are instances of this one module:
       AsIs = TRUE   the design as coded: key = (name, grammar, id(semantics)); the cached model object is given the semantics of the
                     LATEST call (and keeps it); tatsu.parse() compiles without forwarding name/semantics.  TLC refutes
                     HistoryIndependent and ModelStable for it; every refuting (state, call) pair is the scope of KF-C10-1.
       AsIs = FALSE  what the property requires (key covers every argument that shapes the model; cached objects are not mutated). *)
EXTENDS Naturals, Sequences, FiniteSets, TLC, Json

CONSTANTS Grammars, Names, Sems, AsIs, MaxCalls, MaxHandles,
          Colliding    \* grammars one of whose rule types has the name of a class of the grammar-model library itself (Token, Rule, ...)
NoSem == "none"
NoName == "none"

Calls == [op : {"compile"}, g : Grammars, name : Names, sem : Sems \cup {NoSem}, asmodel : BOOLEAN]
   \cup  [op : {"parse"}, g : Grammars, sem : Sems \cup {NoSem}, asmodel : BOOLEAN]
   \cup  [op : {"source"}, g : Grammars, name : Names]
   \cup  [op : {"load"}, g : Grammars]                         \* Grammar.load(json of g), then parse
   \cup  [op : {"modelparse"}, h : 1..MaxHandles]
   \cup  [op : {"failedparse"}, h : 1..MaxHandles]

VARIABLES cache,     \* key -> model id
          models,    \* model id -> [g, sem, name]     the shared, mutable grammar model objects
          handles,   \* sequence of [m |-> model id, ideal |-> the response the creating call promised]
          clobbered, \* the by-name registry of classes that JSON loading uses has had a library class replaced by a synthesized one
          resp, last, ncalls
vars == <<cache, models, handles, clobbered, resp, last, ncalls>>

EffSem(sem, asmodel) == IF sem # NoSem THEN sem ELSE IF asmodel THEN "builder" ELSE "none"
Key(g, name, sem, asmodel) == IF AsIs THEN <<name, g, sem>> ELSE <<name, g, sem, asmodel>>
NewId == Cardinality(DOMAIN models) + 1

Init == cache = <<>> /\ models = <<>> /\ handles = <<>> /\ clobbered = FALSE /\ resp = [k |-> "none"] /\ last = [op |-> "none"] /\ ncalls = 0

\* building object-model nodes synthesizes a class per rule type; as coded, every new class registers itself BY NAME for JSON loading,
\* replacing whatever had that name (KF-C10-3)
Clobbers(g, sem) == AsIs /\ g \in Colliding /\ sem = "builder"

\* tatsu.compile(): look up / create the model, then (as coded) set the semantics on the cached object itself
Lookup(g, name, sem, asmodel) ==
  LET key == Key(g, name, sem, asmodel)
      hit == key \in DOMAIN cache
      m == IF hit THEN cache[key] ELSE NewId
      base == IF hit THEN models[m] ELSE [g |-> g, sem |-> "none", name |-> name]
      sem2 == IF sem # NoSem THEN sem ELSE IF asmodel THEN "builder" ELSE (IF AsIs THEN base.sem ELSE "none")
  IN [m |-> m, mdl |-> [base EXCEPT !.sem = sem2], key |-> key]

Compile(c) == /\ c.op = "compile"
              /\ LET r == Lookup(c.g, c.name, c.sem, c.asmodel) IN
                 /\ cache' = (r.key :> r.m) @@ cache
                 /\ models' = (r.m :> r.mdl) @@ models
                 /\ resp' = [k |-> "model", g |-> r.mdl.g, sem |-> r.mdl.sem, name |-> r.mdl.name]
                 /\ clobbered' = (clobbered \/ Clobbers(r.mdl.g, r.mdl.sem))
                 /\ handles' = IF Len(handles) < MaxHandles
                               THEN Append(handles, [m |-> r.m, ideal |-> [k |-> "parse", g |-> c.g, sem |-> EffSem(c.sem, c.asmodel)]])
                               ELSE handles

\* tatsu.parse(): as coded it calls compile(grammar, config=..., asmodel=...) - name and semantics are not forwarded - and then
\* parses with semantics := given or the model's
Parse(c) == /\ c.op = "parse"
            /\ LET r == Lookup(c.g, NoName, NoSem, c.asmodel) IN
               /\ cache' = (r.key :> r.m) @@ cache
               /\ models' = (r.m :> r.mdl) @@ models
               /\ resp' = [k |-> "parse", g |-> c.g, sem |-> IF c.sem # NoSem THEN c.sem ELSE r.mdl.sem]
               /\ clobbered' = (clobbered \/ Clobbers(c.g, IF c.sem # NoSem THEN c.sem ELSE r.mdl.sem))
            /\ UNCHANGED handles

\* to_python_sourcecode(): compile(grammar, name=name) then generate: the source carries the model's name
Source(c) == /\ c.op = "source"
             /\ LET r == Lookup(c.g, c.name, NoSem, FALSE) IN
                /\ cache' = (r.key :> r.m) @@ cache
                /\ models' = (r.m :> r.mdl) @@ models
                /\ resp' = [k |-> "source", g |-> r.mdl.g, name |-> r.mdl.name]
             /\ UNCHANGED <<handles, clobbered>>

\* Grammar.load(): the classes named in the JSON are looked up by name
Load(c) == /\ c.op = "load"
           /\ resp' = IF clobbered THEN [k |-> "failed"] ELSE [k |-> "parse", g |-> c.g, sem |-> "none"]
           /\ UNCHANGED <<cache, models, handles, clobbered>>

\* a caller parses with a model object it got earlier: it sees whatever the shared object holds NOW
ModelParse(c) == /\ c.op \in {"modelparse", "failedparse"} /\ c.h <= Len(handles)
                 /\ resp' = IF c.op = "failedparse" THEN [k |-> "failed"]
                            ELSE [k |-> "parse", g |-> models[handles[c.h].m].g, sem |-> models[handles[c.h].m].sem]
                 /\ clobbered' = (clobbered \/ (c.op = "modelparse" /\ Clobbers(models[handles[c.h].m].g, models[handles[c.h].m].sem)))
                 /\ UNCHANGED <<cache, models, handles>>

Next == /\ ncalls < MaxCalls
        /\ \E c \in Calls : /\ (Compile(c) \/ Parse(c) \/ Source(c) \/ Load(c) \/ ModelParse(c))
                            /\ last' = c /\ ncalls' = ncalls + 1
Spec == Init /\ [][Next]_vars

Ideal(c) == CASE c.op = "compile" -> [k |-> "model", g |-> c.g, sem |-> EffSem(c.sem, c.asmodel), name |-> c.name]
              [] c.op = "parse" -> [k |-> "parse", g |-> c.g, sem |-> EffSem(c.sem, c.asmodel)]
              [] c.op = "source" -> [k |-> "source", g |-> c.g, name |-> c.name]
              [] c.op = "load" -> [k |-> "parse", g |-> c.g, sem |-> "none"]
              [] c.op = "modelparse" -> handles[c.h].ideal
              [] c.op = "failedparse" -> [k |-> "failed"]
              [] OTHER -> [k |-> "none"]
HistoryIndependent == ncalls > 0 => resp = Ideal(last)
\* a grammar model a caller holds keeps behaving as when it was handed out
ModelStable == \A i \in 1..Len(handles) : models[handles[i].m].g = handles[i].ideal.g /\ models[handles[i].m].sem = handles[i].ideal.sem
=============================================================================
