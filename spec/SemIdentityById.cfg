CONSTANTS Objects = {"p1", "t1", "t2"}
Addrs = {"A", "B"}
KeyBy = "address"
TruthTest = FALSE
MaxSteps = 7
SPECIFICATION Spec
INVARIANT ActionsOfGivenObject
INVARIANT TypeOK
CHECK_DEADLOCK FALSE
