------------------------------ MODULE LeftRec ------------------------------
(* C16 (static part): which rules can reach themselves at the same input position through calls preceded only by elements able to
   match empty.  PegGrammar defines Nullable, the left-call relation LeftCalls and OnLeftCycle; this module evaluates them for every
   grammar of a job file and states what the API must do:
     - compiling with left recursion switched off raises a grammar error  <=>  LeftRecursive # {}
     - with left recursion on:  r \notin LeftRecursive  =>  r stays memoized and is not treated as left recursive;
       every left cycle contains at least one rule marked as a recursion leader (checked on the marks read back from the code,
       and dynamically: no input of the battery makes the parser recurse without bound).
   Laws of the analysis itself, checked by TLC on every grammar: a rule on a left cycle has a left call into its own component, and the
   relation "reaches through left calls" is transitive.                                                                   *)
EXTENDS PegGrammar, Json, IOUtils

Gs == JsonDeserialize(IOEnv.VERIF_CASES)
VARIABLES gi, done

LeftReach(r) == Reach(LeftCalls(r), LeftCalls(r))
SameCycle(a, b) == a \in LeftReach(b) /\ b \in LeftReach(a)
Cycles == {{b \in RuleNames : SameCycle(a, b)} : a \in LeftRecursive}            \* the strongly connected components with a cycle

Init == \E i \in 1..Len(Gs) : gi = i /\ G = Gs[i] /\ done = FALSE
Next == /\ ~done /\ done' = TRUE /\ UNCHANGED <<G, gi>>
        /\ PrintT("RES " \o ToString(gi) \o " " \o ToJson([lr |-> LeftRecursive, sccs |-> Cycles,
                                                          edges |-> [r \in RuleNames |-> LeftCalls(r)]]))
Laws == /\ \A r \in LeftRecursive : LeftCalls(r) \cap LeftReach(r) # {} /\ r \in LeftReach(r)
        /\ \A a, b \in RuleNames : b \in LeftReach(a) => LeftReach(b) \subseteq LeftReach(a)
=============================================================================
