------------------------------ MODULE ParProcTrace ------------------------------
(* Code -> spec for C18: executions of the REAL parallel loop (tatsu.parproc.parproc / pmap.executor_pmap with real
   ThreadPoolExecutor and ProcessPoolExecutor workers finishing in whatever order the operating system decides) are recorded
   by harness/parrecord.py and validated against ParProc.  All recorded events are emitted in the generator's own thread, in
   program order, so the trace is a total order and no clock is involved:

       [ev |-> "submit",   t]          executor.submit(process, task t)              (wrapper around the executor class)
       [ev |-> "snapshot", ts]         as_completed(futures) called with tasks ts    (wrapper around pmap.as_completed)
       [ev |-> "observe",  t]          as_completed hands the future of task t to the loop
       [ev |-> "forend"]               that as_completed iteration is exhausted
       [ev |-> "yield",    t, exc]     the consumer received the Result of task t (exc: it carries a captured exception)
       [ev |-> "cancel"]               the consumer set the stop event carried by the Result it just received
       [ev |-> "end"]                  the generator returned

   What is NOT logged is the environment: a worker finishing task t (Complete(t)).  It is composed as a silent step, bounded by
   the trace: Complete(t) is only taken when the next logged event is observe(t) and t is still pending.  Each generator action of
   ParProc consumes exactly the events the code emits in that critical section (InitialSubmit: the whole burst of submits;
   Refill: one submit, or none when the task list is exhausted), and every logged field must agree with the specification's
   state.  ParProc's invariants are evaluated in every state of every observed execution.  Acceptance is collected in a TLCSet
   register and reported by POSTCONDITION (run with -workers 1).                                                         *)
EXTENDS ParProc, Json, IOUtils, TLCExt

Traces == JsonDeserialize(IOEnv.VERIF_TRACES)    \* Seq([mode, raises : Seq(Nat), ev : Seq(event)]) - all of one (NT, Window)
VARIABLES id, l
tvars == <<id, l>>

Tr == Traces[id].ev
EvAt(k) == IF k <= Len(Tr) THEN Tr[k] ELSE [ev |-> "none", t |-> 0, ts |-> <<>>, exc |-> FALSE]
SeqRange(s) == {s[i] : i \in 1..Len(s)}

TraceInit == /\ \E i \in 1..Len(Traces) :
                  /\ id = i /\ mode = Traces[i].mode /\ raises = SeqRange(Traces[i].raises)
             /\ unsub = 1 /\ pending = {} /\ finished = {} /\ futures = {} /\ snap = {}
             /\ yielded = <<>> /\ pc = "Start" /\ cur = 0 /\ stop = FALSE
             /\ l = 1
             /\ TLCSet(1, {})
             /\ TLCSet(2, [i \in 1..Len(Traces) |-> 0])

IsYield(k, r) == EvAt(k).ev = "yield" /\ EvAt(k).t = r.t /\ EvAt(k).exc = r.exc

TSingle == Single /\ IsYield(l, Res(1)) /\ l' = l + 1
TSeqStep == /\ SeqStep /\ EvAt(l).ev # "cancel"
            /\ IF unsub <= NT THEN IsYield(l, ResSeq(unsub)) /\ l' = l + 1 ELSE l' = l
TEmpty == Empty /\ l' = l
\* the initial burst: submit events for tasks 1..k in payload order, k = the size of the window (or every task: thread branch)
TInitialSubmit == /\ InitialSubmit
                  /\ LET k == Cardinality(futures') IN
                     /\ \A i \in 1..k : EvAt(l + i - 1).ev = "submit" /\ EvAt(l + i - 1).t = i
                     /\ l' = l + k
\* `while futures:` then `as_completed(futures)`: the snapshot logged by the wrapper must be the loop's dict of futures
TWhile == /\ While
          /\ IF futures = {} \/ stop THEN l' = l
             ELSE EvAt(l).ev = "snapshot" /\ SeqRange(EvAt(l).ts) = futures /\ l' = l + 1
\* the environment, inferred: the worker finished task t some time before as_completed handed it over
TComplete == /\ EvAt(l).ev = "observe" /\ EvAt(l).t \in pending /\ Complete(EvAt(l).t) /\ l' = l
TObserve == /\ EvAt(l).ev = "observe" /\ EvAt(l).t \in Tasks /\ Observe(EvAt(l).t) /\ l' = l + 1
TForEnd == ForEnd /\ EvAt(l).ev = "forend" /\ l' = l + 1
\* the refill of the window: exactly one submit, of the next task in payload order, while tasks remain - whatever the result was
TRefill == /\ Refill
           /\ IF unsub <= NT THEN EvAt(l).ev = "submit" /\ EvAt(l).t = unsub /\ l' = l + 1 ELSE l' = l
TYield == Yield /\ IsYield(l, Res(cur)) /\ l' = l + 1
\* the consumer's cancellation is logged; the generator's resumption is not (it waits for a pending cancel event)
TCancel == Cancel /\ EvAt(l).ev = "cancel" /\ l' = l + 1
TResume == Resume /\ EvAt(l).ev # "cancel" /\ l' = l
TFinish == /\ pc = "Done" /\ l = Len(Tr) /\ EvAt(l).ev = "end" /\ l' = l + 1 /\ UNCHANGED vars
           /\ TLCSet(1, TLCGet(1) \cup {id})

TNext == /\ \/ TSingle \/ TSeqStep \/ TEmpty \/ TInitialSubmit \/ TWhile \/ TComplete \/ TObserve \/ TForEnd \/ TRefill \/ TYield \/ TCancel \/ TResume \/ TFinish
         /\ UNCHANGED id
         /\ TLCSet(2, [TLCGet(2) EXCEPT ![id] = IF l' > @ THEN l' ELSE @])        \* longest prefix matched, for the rejection report

AllAccepted == PrintT("RES accepted " \o ToJson([accepted |-> TLCGet(1), total |-> Len(Traces), reached |-> TLCGet(2)]))
=============================================================================
