CONSTANT AllowSelfRef = TRUE
CONSTANT MaxGrow = 4
SPECIFICATION Spec
INVARIANT NeverEvaluatesRejected
INVARIANT Bounded
CHECK_DEADLOCK FALSE
