CONSTANT N = 3
CONSTANT MaxKids = 2
INIT Init
NEXT Next
INVARIANT Terminates
INVARIANT CyclesCut
INVARIANT SharedAsRefs
CHECK_DEADLOCK FALSE
