CONSTANT Depth = 2
INIT Init
NEXT Next
INVARIANT Sandbox
CHECK_DEADLOCK FALSE
