------------------------------ MODULE AsJson ------------------------------
(* C14 (second sentence): converting any parse result or model to JSON terminates, yields data json can dump, and cuts every cycle
   with a reference.  tatsu/util/asjson.py: a depth-first walk that keeps the set of containers on the CURRENT PATH (added on entry,
   discarded on exit); a container met again on its own path is rendered as a reference string.
   An object graph: Nodes 1..N, kind[n] \in {"dict", "list", "obj"}, kids[n] = the sequence of nodes stored in n (dict values, list
   items, public attributes); scalars are leaves and need no node.  TLC enumerates every graph up to N nodes with at most MaxKids
   children each and checks the laws of the walk; the harness builds the same graph out of real dicts, lists and Node objects.   *)
EXTENDS Naturals, Sequences, FiniteSets, TLC, Json

CONSTANTS N, MaxKids
Nodes == 1..N
Kinds == {"dict", "list", "obj"}
KidSeqs == UNION {[1..k -> Nodes] : k \in 0..MaxKids}

VARIABLES kind, kids, done
vars == <<kind, kids, done>>

\* the walk: Out(n, path) = a reference if n is on the path, else the container with its children rendered below it
RECURSIVE Out(_, _)
Out(n, path) == IF n \in path THEN [ref |-> n]
                ELSE [node |-> n, kind |-> kind[n], kids |-> [i \in 1..Len(kids[n]) |-> Out(kids[n][i], path \cup {n})]]
RECURSIVE Depth(_)
Depth(t) == IF "ref" \in DOMAIN t THEN 1
            ELSE IF t.kids = <<>> THEN 1
            ELSE 1 + (CHOOSE d \in 1..(N + 2) : \E i \in 1..Len(t.kids) : Depth(t.kids[i]) = d /\ \A j \in 1..Len(t.kids) : Depth(t.kids[j]) <= d)
\* every path of the output visits a node at most once before a reference: no container is expanded inside itself
RECURSIVE NoSelfNesting(_, _)
NoSelfNesting(t, above) == IF "ref" \in DOMAIN t THEN t.ref \in above
                           ELSE t.node \notin above /\ \A i \in 1..Len(t.kids) : NoSelfNesting(t.kids[i], above \cup {t.node})

\* how often a container is written out in full: the property text reads "shared and cyclic references rendered as references" - a walk that
\* keeps only the CURRENT PATH writes a container that is shared by two siblings (no cycle) out twice.  SharedAsRefs is REFUTED for this walk
\* (cfg AsJsonShared): known finding KF-C14-9; the graphs concerned are marked in the RES lines (dup) and counted by the driver.
RECURSIVE Expansions(_, _)
RECURSIVE SumExp(_, _, _)
Expansions(t, n) == IF "ref" \in DOMAIN t THEN 0 ELSE (IF t.node = n THEN 1 ELSE 0) + SumExp(t.kids, 1, n)
SumExp(ks, i, n) == IF i > Len(ks) THEN 0 ELSE Expansions(ks[i], n) + SumExp(ks, i + 1, n)
Dup == {n \in Nodes : Expansions(Out(1, {}), n) > 1}
SharedAsRefs == Dup = {}

Init == kind \in [Nodes -> Kinds] /\ kids \in [Nodes -> KidSeqs] /\ done = FALSE
Next == /\ ~done /\ done' = TRUE /\ UNCHANGED <<kind, kids>>
        /\ PrintT("RES " \o ToString(TLCGet("level")) \o "_" \o ToString(RandomElement(1..2000000000)) \o ToString(RandomElement(1..2000000000)) \o " " \o
                  ToJson([kind |-> kind, kids |-> kids, out |-> Out(1, {}), dup |-> Cardinality(Dup)]))
Terminates == Depth(Out(1, {})) <= N + 1                  \* the walk is bounded by the number of containers
CyclesCut == NoSelfNesting(Out(1, {}), {})
=============================================================================
