------------------------------ MODULE PegSem ------------------------------
(* Layer 1: the DOCUMENTED semantics of TatSu grammars (docs/syntax.rst, ast.rst, semantics.rst, left_recursion.rst and
   the statements of C01 C03 C05 C06 C09 C11), as compositional big-step equations.  No frames, no memo, no cst mechanics.

   E(e, p, ns, sd, d) evaluates expression e at offset p.
     ns : names bound so far in the enclosing rule ("@" = override)      sd : left-recursion seeds      d : fuel
   result kinds:  ok(p, items, val, ns, cut) | ko | kocut (failure after a cut in the current cut scope)
                  | raise(x) (a semantic action raised x) | fuel (evaluation bound reached; never a verdict)
   items = the values the expression contributes to the enclosing sequence; val = what name:e binds.          *)
EXTENDS PegGrammar

VARIABLES Inp, Cfg
(* Cfg = [ws, eolc, cmto, cmtc, nameguard, namechars, ignorecase, alpha, alnum, fold, keywords, act, actrule, lr] *)

N == Len(Inp)
InSeq(c, s) == \E i \in 1..Len(s) : s[i] = c

\* ---------------------------------------------------------------- lexical level (C09)
Lower(c) == LET I == {i \in 1..Len(Cfg.fold) : Cfg.fold[i][1] = c} IN
            IF I = {} THEN c ELSE Cfg.fold[CHOOSE i \in I : TRUE][2]
RECURSIVE SkipWs(_)
SkipWs(p) == IF p < N /\ InSeq(Inp[p + 1], Cfg.ws) THEN SkipWs(p + 1) ELSE p
RECURSIVE LineEnd(_)
LineEnd(p) == IF p < N /\ Inp[p + 1] # "\n" THEN LineEnd(p + 1) ELSE p          \* '#.*?$' under (?m)
SkipEol(p) == IF Cfg.eolc # <<>> /\ IsPrefixAt(Inp, p, Cfg.eolc) THEN LineEnd(p + Len(Cfg.eolc)) ELSE p
RECURSIVE FindClose(_)
FindClose(q) == IF q + Len(Cfg.cmtc) > N THEN 0
                ELSE IF IsPrefixAt(Inp, q, Cfg.cmtc) THEN q + Len(Cfg.cmtc) ELSE FindClose(q + 1)
SkipCmt(p) == IF Cfg.cmto # <<>> /\ IsPrefixAt(Inp, p, Cfg.cmto)
              THEN LET q == FindClose(p + Len(Cfg.cmto)) IN IF q = 0 THEN p ELSE q
              ELSE p
RECURSIVE SkipC(_)
SkipC(p) == LET q == SkipCmt(SkipEol(SkipWs(p))) IN IF q = p THEN p ELSE SkipC(q)
\* trace mode for arbitrary real grammars: whitespace and comments are regular expressions of the parse configuration; the harness
\* tabulates the same fixpoint with Python's re (harness/frompeg.py: skip_table) and the specification reads the table
Skip(p) == IF "skip" \in DOMAIN Cfg THEN Cfg.skip[p + 1] ELSE SkipC(p)
\* oracle patterns (trace mode): Cfg.pm[id] maps the positions at which the engine tried a pattern (as strings) to
\* [n |-> matched length or -1, v |-> value]; a position the engine never tried reads as "no match" (the trace is then rejected at
\* the next event, because the engine left no match event there)
OPat(e, p) == LET row == Cfg.pm[e.id]  k == ToString(p) IN
              IF k \in DOMAIN row THEN row[k] ELSE [n |-> 0 - 1, v |-> None]

IsNameChar(c) == InSeq(c, Cfg.alnum) \/ InSeq(c, Cfg.namechars)
IsNameTok(s)  == /\ Len(s) > 0
                 /\ (InSeq(s[1], Cfg.alpha) \/ InSeq(s[1], Cfg.namechars))
                 /\ \A i \in 2..Len(s) : IsNameChar(s[i])
TokAt(p, s) == /\ p + Len(s) <= N
               /\ \A i \in 1..Len(s) : IF Cfg.ignorecase THEN Lower(Inp[p + i]) = Lower(s[i]) ELSE Inp[p + i] = s[i]
               /\ ~(Cfg.nameguard /\ IsNameTok(s) /\ p + Len(s) < N /\ IsNameChar(Inp[p + Len(s) + 1]))
RECURSIVE ClassRun(_, _, _)
ClassRun(p, cls, max) == IF max > 0 /\ p < N /\ InSeq(Inp[p + 1], cls) THEN 1 + ClassRun(p + 1, cls, max - 1) ELSE 0
SubText(p, q) == SubSeq(Inp, p + 1, q)

\* ---------------------------------------------------------------- meta expressions @name @int @uint @float @bool (docs/syntax.rst)
IsDigit(c) == c \in {"0", "1", "2", "3", "4", "5", "6", "7", "8", "9"}
IsAlphaCh(c) == InSeq(c, Cfg.alpha)
\* digits with optional INTERNAL underscores, from offset p: end offset (p if there is no digit at p)
RECURSIVE DigitsEnd(_)
DigitsEnd(p) == IF p < N /\ IsDigit(Inp[p + 1]) THEN DigitsEnd(p + 1)
                ELSE IF p + 1 < N /\ Inp[p + 1] = "_" /\ IsDigit(Inp[p + 2]) /\ p > 0 /\ IsDigit(Inp[p]) THEN DigitsEnd(p + 1)
                ELSE p
SignEnd(p) == IF p < N /\ Inp[p + 1] \in {"+", "-"} THEN p + 1 ELSE p
IntEnd(p) == LET q == SignEnd(p) IN IF DigitsEnd(q) > q THEN DigitsEnd(q) ELSE p           \* p itself: no match
FloatEnd(p) == LET i == IntEnd(p) IN
               IF i = p THEN p
               ELSE LET f == IF i < N /\ Inp[i + 1] = "." THEN (IF DigitsEnd(i + 1) > i + 1 THEN DigitsEnd(i + 1) ELSE i + 1) ELSE i
                        x == IF f < N /\ Inp[f + 1] \in {"e", "E"} /\ IntEnd(f + 1) > f + 1 THEN IntEnd(f + 1) ELSE f
                    IN x
RECURSIVE NameEnd(_)
NameEnd(p) == IF p < N /\ (IsAlphaCh(Inp[p + 1]) \/ IsDigit(Inp[p + 1]) \/ Inp[p + 1] = "_" \/ InSeq(Inp[p + 1], Cfg.namechars)) THEN NameEnd(p + 1) ELSE p
NameStartOk(p) == p < N /\ (IsAlphaCh(Inp[p + 1]) \/ Inp[p + 1] = "_" \/ InSeq(Inp[p + 1], Cfg.namechars))
RECURSIVE DigitsVal(_, _, _)
DigitsVal(p, q, acc) == IF p >= q THEN acc ELSE IF Inp[p + 1] = "_" THEN DigitsVal(p + 1, q, acc)
                        ELSE DigitsVal(p + 1, q, acc * 10 + (CHOOSE n \in 0..9 : ToString(n) = Inp[p + 1]))
BoolWords == <<<<"t", "r", "u", "e">>, <<"T", "r", "u", "e">>, <<"f", "a", "l", "s", "e">>, <<"F", "a", "l", "s", "e">>>>
MetaMatch(kind, p) ==
  CASE kind = "uint" -> IF DigitsEnd(p) > p THEN [ok |-> TRUE, p |-> DigitsEnd(p), v |-> Int(DigitsVal(p, DigitsEnd(p), 0))] ELSE [ok |-> FALSE]
    [] kind = "int" -> IF IntEnd(p) > p
                       THEN [ok |-> TRUE, p |-> IntEnd(p),
                             v |-> [t |-> "i", v |-> DigitsVal(SignEnd(p), IntEnd(p), 0), neg |-> (p < N /\ Inp[p + 1] = "-")]]
                       ELSE [ok |-> FALSE]
    [] kind = "float" -> IF FloatEnd(p) > p THEN [ok |-> TRUE, p |-> FloatEnd(p), v |-> [t |-> "f", v |-> SubText(p, FloatEnd(p))]] ELSE [ok |-> FALSE]
    [] kind = "name" -> IF NameStartOk(p) THEN [ok |-> TRUE, p |-> NameEnd(p), v |-> Str(SubText(p, NameEnd(p)))] ELSE [ok |-> FALSE]
    [] kind = "bool" -> LET I == {i \in 1..4 : IsPrefixAt(Inp, p, BoolWords[i])} IN
                        IF I = {} THEN [ok |-> FALSE]
                        ELSE LET i == CHOOSE i \in I : TRUE IN [ok |-> TRUE, p |-> p + Len(BoolWords[i]), v |-> Bool(i <= 2)]

\* ---------------------------------------------------------------- results
S(p, items, val, ns, cut) == [k |-> "ok", p |-> p, items |-> items, val |-> val, ns |-> ns, cut |-> cut]
F  == [k |-> "ko"]
FC == [k |-> "kocut"]
Raise(x) == [k |-> "raise", x |-> x]
Fuel == [k |-> "fuel"]
KoSem == [k |-> "kosem"]          \* a constant whose evaluation fails: a semantic failure of the enclosing RULE invocation
Abort(r) == r.k \in {"raise", "fuel", "kosem"}
Pack(items) == IF Len(items) = 0 THEN None ELSE IF Len(items) = 1 THEN items[1] ELSE OpenL(items)
Leave(r) == [r EXCEPT !.cut = FALSE]                        \* leaving a cut scope successfully forgets the cut
WithDefaults(ns, e) == DefineAll(DefineAll(ns, DefsL(e), OpenL(<<>>)), Defs(e) \ DefsL(e), None)

RuleOk(p, val) == [k |-> "ok", p |-> p, val |-> val]
\* C12: with parse information on, a dict-like rule value carries (rule, start after leading whitespace, end) of every rule
\* that returned it (a rule whose value is another rule's dict returns the same AST)
WithInfo(v, name, q, e) == IF v.t \in {"d", "o"} /\ "parseinfo" \in DOMAIN Cfg /\ Cfg.parseinfo
                           THEN [v EXCEPT !.pi = Append(@, [rule |-> name, pos |-> q, end |-> e])] ELSE v

\* ---------------------------------------------------------------- semantic actions (C06): a finite family
FlatHasB(v) == \/ (v.t = "s" /\ v.v = <<"b">>)
               \/ (v.t = "d" /\ \E i \in 1..Len(v.v) : v.v[i][2].t = "s" /\ v.v[i][2].v = <<"b">>)
\* C07: ModelBuilderSemantics - a rule annotated  name::T::Base...  yields an instance of T (bases as declared); its attributes are the
\* rule's named elements, or the single attribute ast when there are none; builtin type names convert the value
DigitVal(c) == CASE c = "0" -> 0 [] c = "1" -> 1 [] c = "2" -> 2 [] c = "3" -> 3 [] c = "4" -> 4 [] c = "5" -> 5 [] c = "6" -> 6
                 [] c = "7" -> 7 [] c = "8" -> 8 [] c = "9" -> 9 [] OTHER -> 0
RECURSIVE StrToInt(_, _)
StrToInt(s, acc) == IF s = <<>> THEN acc ELSE StrToInt(Tail(s), acc * 10 + DigitVal(Head(s)))
Builtins == {"int", "str", "list", "bool"}
MkNode(typ, val) ==
  LET cls == typ[1] IN
  IF cls = "int" THEN (IF val.t = "s" THEN Int(StrToInt(val.v, 0)) ELSE val)
  ELSE IF cls = "str" THEN val
  ELSE IF cls = "list" THEN (IF val.t = "l" THEN val ELSE IF val.t = "s" THEN ClosedL([i \in 1..Len(val.v) |-> Str(<<val.v[i]>>)]) ELSE val)
  ELSE IF cls = "bool" THEN Bool(~(val.t = "n" \/ (val.t \in {"s", "l"} /\ val.v = <<>>)))
  ELSE Obj(cls, Tail(typ), IF val.t = "d" THEN val.v ELSE <<<<"ast", val>>>>)

Act(name, val) ==
  CASE Cfg.act \in {"none", "id"} -> [k |-> "ok", v |-> val]
    [] Cfg.act = "model" -> [k |-> "ok", v |-> IF RuleRec(name).typ = <<>> THEN val ELSE MkNode(RuleRec(name).typ, val)]
    [] Cfg.act = "tag"   -> [k |-> "ok", v |-> IF name = Cfg.actrule \/ Cfg.actrule = "*" THEN Tagged(name, val) ELSE val]
    [] Cfg.act = "failb" -> IF (name = Cfg.actrule \/ Cfg.actrule = "*") /\ FlatHasB(val) THEN [k |-> "failsem"] ELSE [k |-> "ok", v |-> val]
    [] Cfg.act = "raise" -> IF (name = Cfg.actrule \/ Cfg.actrule = "*") /\ FlatHasB(val) THEN [k |-> "raise"] ELSE [k |-> "ok", v |-> val]
    [] OTHER -> [k |-> "ok", v |-> val]

IsKeyword(val) ==
  /\ val.t = "s"
  /\ \E i \in 1..Len(Cfg.keywords) :
        LET kw == Cfg.keywords[i] IN
        /\ Len(kw) = Len(val.v)
        /\ \A j \in 1..Len(kw) : IF Cfg.ignorecase THEN Lower(kw[j]) = Lower(val.v[j]) ELSE kw[j] = val.v[j]

\* ---------------------------------------------------------------- seeds (C03)
SeedHas(sd, key) == \E i \in 1..Len(sd) : sd[i].key = key
SeedGet(sd, key) == sd[CHOOSE i \in 1..Len(sd) : sd[i].key = key].r
SeedPut(sd, key, r) == Append(SelectSeq(sd, LAMBDA x : x.key # key), [key |-> key, r |-> r])

RECURSIVE E(_, _, _, _, _)
RECURSIVE ESeq(_, _, _, _, _, _, _, _)
RECURSIVE EAlt(_, _, _, _, _, _)
RECURSIVE ERep(_, _, _, _, _, _, _)
RECURSIVE ESkipTo(_, _, _, _, _)
RECURSIVE R(_, _, _, _)
RECURSIVE Body(_, _, _, _)
RECURSIVE Grow(_, _, _, _, _, _)

E(e, p, ns, sd, d) ==
  IF d = 0 THEN Fuel ELSE
  CASE e.op = "tok" -> LET q == Skip(p) IN
                       IF TokAt(q, e.s) THEN S(q + Len(e.s), <<Str(e.s)>>, Str(e.s), ns, FALSE) ELSE F
    [] e.op = "pat" -> LET n == ClassRun(p, e.cls, IF e.many THEN N ELSE 1) IN
                       IF n < e.min THEN F
                       ELSE IF e.cls2 = <<>> THEN S(p + n, <<Str(SubText(p, p + n))>>, Str(SubText(p, p + n)), ns, FALSE)
                       ELSE \* two groups (disjoint classes: no backtracking between them): "the semantics of re.findall(pattern, text)[0]
                            \* (a tuple if there is more than one group)" - docs/syntax.rst
                            LET n2 == ClassRun(p + n, e.cls2, IF e.many2 THEN N ELSE 1)
                                v == ClosedL(<<Str(SubText(p, p + n)), Str(SubText(p + n, p + n + n2))>>) IN
                            IF n2 < e.min2 THEN F ELSE S(p + n + n2, <<v>>, v, ns, FALSE)
    [] e.op = "opat" -> LET m == OPat(e, p) IN IF m.n < 0 THEN F ELSE S(p + m.n, <<m.v>>, m.v, ns, FALSE)
    [] e.op = "meta" -> LET r == MetaMatch(e.kind, Skip(p)) IN
                        IF r.ok THEN S(r.p, <<r.v>>, r.v, ns, FALSE) ELSE F
    [] e.op = "eol" -> LET q == Cfg.eol[p + 1] IN IF q < 0 THEN F ELSE S(q, <<>>, None, ns, FALSE)      \* $-> (trace mode: tabulated)
    [] e.op = "dot" -> IF p < N THEN S(p + 1, <<Str(<<Inp[p + 1]>>)>>, Str(<<Inp[p + 1]>>), ns, FALSE) ELSE F
    [] e.op = "const" -> S(Skip(p), <<e.v>>, e.v, ns, FALSE)
    [] e.op = "constbad" -> KoSem
    [] e.op = "void" -> S(Skip(p), <<>>, Unit, ns, FALSE)
    [] e.op = "fail" -> F
    [] e.op = "eof" -> IF Skip(p) = N THEN S(Skip(p), <<>>, None, ns, FALSE) ELSE F
    [] e.op = "cut" -> S(p, <<>>, None, ns, TRUE)
    [] e.op = "emptyclosure" -> S(p, <<ClosedL(<<>>)>>, ClosedL(<<>>), ns, FALSE)
    [] e.op = "seq" -> ESeq(e, 1, p, <<>>, ns, FALSE, sd, d)
    [] e.op = "alt" -> EAlt(e.es, 1, p, ns, sd, d)
    [] e.op = "group" -> E(e.e, p, ns, sd, d - 1)              \* transparent, also for cuts
    [] e.op = "skipgroup" -> LET r == E(e.e, p, ns, sd, d - 1) IN
                             IF Abort(r) THEN r
                             ELSE IF r.k = "ok" THEN S(r.p, <<>>, None, ns, FALSE) ELSE F
    [] e.op = "opt" -> LET r == E(e.e, p, ns, sd, d - 1) IN
                       IF Abort(r) THEN r
                       ELSE IF r.k = "ok" THEN Leave([r EXCEPT !.ns = WithDefaults(r.ns, e.e)])
                       ELSE IF r.k = "kocut" THEN F             \* committed: the optional itself fails
                       ELSE S(p, <<>>, None, ns, FALSE)
    [] e.op \in {"star", "plus", "join"} ->
          LET isjoin == e.op = "join"
              positive == e.op = "plus" \/ (isjoin /\ e.plus)
              first == E(e.e, p, ns, sd, d - 1) IN
          IF Abort(first) THEN first
          ELSE IF first.k = "kocut" THEN F
          ELSE IF first.k = "ko"
               THEN IF positive THEN F ELSE S(p, <<ClosedL(<<>>)>>, ClosedL(<<>>), ns, FALSE)
          ELSE LET r == ERep(e, first.p, first.ns, <<Pack(first.items)>>, sd, d - 1, p) IN
               IF Abort(r) THEN r
               ELSE IF r.k = "ok" THEN S(r.p, <<ClosedL(r.items)>>, ClosedL(r.items), r.ns, FALSE)
               ELSE IF isjoin /\ ~e.plus /\ r.k = "kosep" /\ ~first.cut     \* s%{e} == s%{e}+ | {} ; a cut in the first
                    THEN S(p, <<ClosedL(<<>>)>>, ClosedL(<<>>), ns, FALSE)   \* element commits the option e {s ~ e}
               ELSE F
    [] e.op = "and" -> LET r == E(e.e, p, ns, sd, d - 1) IN
                       IF Abort(r) THEN r ELSE IF r.k = "ok" THEN S(p, <<>>, None, ns, FALSE) ELSE F
    [] e.op = "not" -> LET r == E(e.e, p, ns, sd, d - 1) IN
                       IF Abort(r) THEN r ELSE IF r.k = "ok" THEN F ELSE S(p, <<>>, None, ns, FALSE)
    [] e.op = "named" -> LET r == E(e.e, p, ns, sd, d - 1) IN
                         IF r.k = "ok" THEN [r EXCEPT !.ns = AstSet(r.ns, e.name, r.val)] ELSE r
    [] e.op = "namedlist" -> LET r == E(e.e, p, ns, sd, d - 1) IN
                             IF r.k = "ok" THEN [r EXCEPT !.ns = AstSetList(r.ns, e.name, r.val)] ELSE r
    [] e.op = "ovr" -> LET r == E(e.e, p, ns, sd, d - 1) IN
                       IF r.k = "ok" THEN [r EXCEPT !.ns = AstSet(r.ns, "@", r.val)] ELSE r
    [] e.op = "ovrlist" -> LET r == E(e.e, p, ns, sd, d - 1) IN
                           IF r.k = "ok" THEN [r EXCEPT !.ns = AstSetList(r.ns, "@", r.val)] ELSE r
    [] e.op = "skipto" -> ESkipTo(e.e, p, ns, sd, d - 1)
    [] e.op = "call" -> IF ~HasRule(e.name) THEN F ELSE
                        LET r == R(e.name, p, sd, d - 1) IN
                        IF r.k = "ok" THEN S(r.p, <<r.val>>, r.val, ns, FALSE) ELSE r

ESeq(s, i, p, items, ns, cut, sd, d) ==
  IF i > Len(s.es) THEN S(p, items, Pack(items), WithDefaults(ns, s), cut)
  ELSE LET r == E(s.es[i], p, ns, sd, d - 1) IN
       IF Abort(r) THEN r
       ELSE IF r.k = "ok" THEN ESeq(s, i + 1, r.p, items \o r.items, r.ns, cut \/ r.cut, sd, d)
       ELSE IF cut \/ r.k = "kocut" THEN FC ELSE F

EAlt(es, i, p, ns, sd, d) ==
  IF i > Len(es) THEN F
  ELSE LET r == E(es[i], p, ns, sd, d - 1) IN
       IF Abort(r) THEN r
       ELSE IF r.k = "ok" THEN Leave([r EXCEPT !.ns = WithDefaults(r.ns, es[i])])
       ELSE IF r.k = "kocut" THEN F                    \* a committed option failed: the choice fails
       ELSE EAlt(es, i + 1, p, ns, sd, d)

(* iterations 2.. of {x} == B -> x B | () ;  a join iteration is  s ~ x.
   Result kinds here: ok(p, items, ns) | ko (an iteration failed after a cut: the repetition fails)
   | kosep (a join failed after a separator: the positive join fails, the plain join falls back to {})        *)
ERep(c, p, ns, acc, sd, d, p0) ==
  IF d = 0 THEN Fuel ELSE
  LET isjoin == c.op = "join" IN
  IF isjoin
  THEN LET s == E(c.sep, p, ns, sd, d - 1) IN
       IF Abort(s) THEN s
       ELSE IF s.k = "kocut" THEN F
       ELSE IF s.k = "ko" THEN [k |-> "ok", p |-> p, items |-> acc, ns |-> ns]
       ELSE LET r == E(c.e, s.p, s.ns, sd, d - 1) IN
            IF Abort(r) THEN r
            ELSE IF r.k # "ok" THEN [k |-> "kosep"]
            ELSE IF r.p = p THEN [k |-> "kosep"]                      \* separator and element matched no input
            ELSE ERep(c, r.p, r.ns, IF c.keep THEN acc \o <<Pack(s.items), Pack(r.items)>> ELSE Append(acc, Pack(r.items)),
                      sd, d - 1, p0)
  ELSE LET r == E(c.e, p, ns, sd, d - 1) IN
       IF Abort(r) THEN r
       ELSE IF r.k = "kocut" THEN F
       ELSE IF r.k = "ok" /\ r.p > p THEN ERep(c, r.p, r.ns, Append(acc, Pack(r.items)), sd, d - 1, p0)
       ELSE [k |-> "ok", p |-> p, items |-> acc, ns |-> ns]

\* ->e  ==  { !e /./ } e , whitespace and comments skipped at each step; only e contributes to the AST
ESkipTo(e, p, ns, sd, d) ==
  IF d = 0 THEN Fuel ELSE
  LET r == E(e, p, ns, sd, d - 1) IN
  IF Abort(r) \/ r.k = "ok" THEN r
  ELSE LET q == Skip(p) IN
       IF q > p THEN ESkipTo(e, q, ns, sd, d - 1)
       ELSE IF p < N THEN ESkipTo(e, p + 1, ns, sd, d - 1)
       ELSE F

Body(name, q, sd, d) ==
  IF d = 0 THEN Fuel ELSE
  LET rule == RuleRec(name)
      r == E(rule.exp, q, <<>>, sd, d - 1) IN
  IF r.k = "kosem" THEN F                                             \* FailedSemantics -> an ordinary failure of this rule
  ELSE IF Abort(r) THEN r
  ELSE IF r.k # "ok" THEN F
  ELSE LET ns  == IF Strip(rule.exp).op = "alt" THEN r.ns ELSE WithDefaults(r.ns, rule.exp)
           val == IF AstHas(ns, "@") THEN AstGet(ns, "@")
                  ELSE IF ns # <<>> THEN Dict(ns)
                  ELSE CstFinal(Pack(r.items)) IN
       IF rule.isname /\ IsKeyword(val) THEN F                      \* C11: an ordinary failure, before the action
       ELSE LET a == Act(name, val) IN
            IF a.k = "ok" THEN RuleOk(r.p, WithInfo(a.v, name, q, r.p))
            ELSE IF a.k = "failsem" THEN F
            ELSE Raise(name)

\* grow the seed of (name, q): lastp = end of the last seed + 1 (0 = none yet)
Grow(name, q, sd, last, lastp, d) ==
  IF d = 0 THEN Fuel ELSE
  LET r == Body(name, q, SeedPut(sd, <<name, q>>, last), d - 1) IN
  IF Abort(r) THEN r
  ELSE IF r.k = "ok" /\ r.p + 1 > lastp THEN Grow(name, q, sd, [r EXCEPT !.val = CstFinal(r.val)], r.p + 1, d - 1)
  ELSE last

R(name, p, sd, d) ==
  IF d = 0 THEN Fuel ELSE
  LET q == IF RuleRec(name).tokn THEN p ELSE Skip(p) IN
  IF SeedHas(sd, <<name, q>>) THEN SeedGet(sd, <<name, q>>)
  ELSE IF Cfg.lr /\ OnLeftCycle(name) THEN Grow(name, q, sd, F, 0, d)
  ELSE Body(name, q, sd, d)

FuelMax == 60
Parse(start) ==
  LET r == R(start, 0, <<>>, FuelMax) IN
  IF r.k = "ok" THEN [k |-> "ok", pos |-> r.p, v |-> r.val]
  ELSE IF r.k = "raise" THEN [k |-> "raise", pos |-> 0, v |-> Str(<<r.x>>)]
  ELSE IF r.k = "fuel" THEN [k |-> "fuel", pos |-> 0, v |-> None]
  ELSE [k |-> "fail", pos |-> 0, v |-> None]
=============================================================================
