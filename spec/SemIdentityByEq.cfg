CONSTANTS Objects = {"e1", "e2", "u1", "f1"}
Addrs = {"A", "B", "C", "D"}
KeyBy = "equality"
TruthTest = TRUE
MaxSteps = 5
SPECIFICATION Spec
INVARIANT ActionsOfGivenObject
INVARIANT TypeOK
CHECK_DEADLOCK FALSE
