CONSTANTS Grammars = {"g1", "g2", "g3"}
Colliding = {"g3"}
Names = {"none", "N"}
Sems = {"s1"}
AsIs = TRUE
MaxCalls = 3
MaxHandles = 2
SPECIFICATION Spec
INVARIANT HistoryIndependent
CHECK_DEADLOCK FALSE
