CONSTANTS Threads = {1, 2, 3}
Order = "analyse-publish-release"
SPECIFICATION Spec
INVARIANT TypeOK
INVARIANT AnalysedBeforeUse
INVARIANT BuiltOnce
PROPERTY Finishes
