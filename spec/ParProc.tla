------------------------------ MODULE ParProc ------------------------------
(* C18: tatsu/parproc/pmap.py executor_pmap and tatsu/parproc/parproc.py parproc, one action per step of the generator
   (structured like the code so that traces and replays bind one to one), plus the environment action Complete(t)
   - a worker finishing any pending task at any moment - which is the schedule.

   Tasks 1..NT in payload order.  raises \subseteq Tasks = payloads whose function raises an exception that the loop is asked to
   capture (the Result then carries the exception); they are ordinary results.

   Cancellation (constant Cancels): every call of parproc() creates its OWN stop event, which every Result carries; the consumer
   may set it after any result it received (Cancel).  The generator tests it when it is resumed after a yield (leaves the
   as_completed loop), at the top of `while futures` (shuts the pool down and returns) and before refilling the window; a task that
   starts after the event is set returns at once with InterruptedError.  A cancelled run yields no duplicates, submits nothing more
   and terminates; exactly-one-result-per-payload is claimed for runs that are never cancelled.                          *)
EXTENDS Naturals, Sequences, FiniteSets, TLC

CONSTANTS NT,         \* number of payloads
          Window,     \* 1 + max_workers : size of the initial submission window of the process-pool branch
          Modes,      \* subset of {"window", "all", "seq", "single"} explored from Init
          Cancels     \* BOOLEAN: the consumer may set the stop event
Tasks == 1..NT

VARIABLES mode,      \* which branch of parproc()/executor_pmap runs
          raises,    \* payloads whose (captured) exception is the outcome
          unsub,     \* index of the next task taskiter will hand out
          pending,   \* submitted to the executor, not yet completed by a worker
          finished,  \* completed by a worker, not yet observed by the generator
          futures,   \* the generator's dict of futures: submitted and not yet popped
          snap,      \* the set as_completed() is iterating (snapshot of futures at call time)
          yielded,   \* sequence of yielded results [t |-> task, exc |-> BOOLEAN]
          pc, cur,
          stop       \* this call's stop event
vars == <<mode, raises, unsub, pending, finished, futures, snap, yielded, pc, cur, stop>>

Min(a, b) == IF a < b THEN a ELSE b
Res(t) == [t |-> t, exc |-> t \in raises]
\* sequential / single mode: a task that starts after the stop event was set returns a Result carrying InterruptedError
ResSeq(t) == [t |-> t, exc |-> t \in raises \/ stop]

Init == /\ mode \in Modes /\ raises \in SUBSET Tasks
        /\ (mode = "single" => NT = 1)
        /\ unsub = 1 /\ pending = {} /\ finished = {} /\ futures = {} /\ snap = {}
        /\ yielded = <<>> /\ pc = "Start" /\ cur = 0 /\ stop = FALSE

\* ---- parproc(): the single-task and sequential shortcuts
Single == /\ pc = "Start" /\ NT = 1 /\ yielded' = <<Res(1)>> /\ unsub' = 2 /\ pc' = "Done"
          /\ UNCHANGED <<mode, raises, pending, finished, futures, snap, cur, stop>>
SeqStep == /\ pc = "Start" /\ mode = "seq" /\ NT # 1
           /\ IF unsub <= NT THEN yielded' = Append(yielded, ResSeq(unsub)) /\ unsub' = unsub + 1 /\ pc' = pc
              ELSE pc' = "Done" /\ UNCHANGED <<yielded, unsub>>
           /\ UNCHANGED <<mode, raises, pending, finished, futures, snap, cur, stop>>

\* ---- executor_pmap
Empty == /\ pc = "Start" /\ mode \in {"window", "all"} /\ NT = 0 /\ pc' = "Done"       \* 'if not tasks: return'
         /\ UNCHANGED <<mode, raises, unsub, pending, finished, futures, snap, yielded, cur, stop>>
InitialSubmit == /\ pc = "Start" /\ mode \in {"window", "all"} /\ NT > 1
                 /\ LET k == IF mode = "window" THEN Min(Window, NT) ELSE NT IN
                    /\ futures' = 1..k /\ pending' = 1..k /\ unsub' = k + 1
                 /\ pc' = "While" /\ UNCHANGED <<mode, raises, finished, snap, yielded, cur, stop>>

While == /\ pc = "While"
         /\ IF futures = {} \/ stop THEN pc' = "Done" /\ snap' = snap        \* `while futures:` / `if stop.is_set(): shutdown; break`
            ELSE pc' = "For" /\ snap' = futures                \* as_completed(futures) takes a snapshot
         /\ UNCHANGED <<mode, raises, unsub, pending, finished, futures, yielded, cur, stop>>

Complete(t) == /\ t \in pending /\ pending' = pending \ {t} /\ finished' = finished \cup {t}
               /\ UNCHANGED <<mode, raises, unsub, futures, snap, yielded, pc, cur, stop>>

Observe(t) == /\ pc = "For" /\ t \in snap /\ t \in finished   \* as_completed yields a finished future of its snapshot
              /\ snap' = snap \ {t} /\ cur' = t
              /\ futures' = futures \ {t}                      \* futures.pop(future)
              /\ finished' = finished \ {t}
              /\ pc' = "Refill" /\ UNCHANGED <<mode, raises, unsub, pending, yielded, stop>>

ForEnd == /\ pc = "For" /\ snap = {} /\ pc' = "While"
          /\ UNCHANGED <<mode, raises, unsub, pending, finished, futures, snap, yielded, cur, stop>>

Refill == /\ pc = "Refill"                                       \* if not stop.is_set(): for task in islice(taskiter, 1): submit
          /\ IF unsub <= NT /\ ~stop
             THEN futures' = futures \cup {unsub} /\ pending' = pending \cup {unsub} /\ unsub' = unsub + 1
             ELSE UNCHANGED <<futures, pending, unsub>>
          /\ pc' = "Yield" /\ UNCHANGED <<mode, raises, finished, snap, yielded, cur, stop>>

\* `yield future.result()`: the generator is suspended and the consumer holds the Result (and, through it, the stop event)
Yield == /\ pc = "Yield" /\ yielded' = Append(yielded, Res(cur)) /\ pc' = "Suspended"
         /\ UNCHANGED <<mode, raises, unsub, pending, finished, futures, snap, cur, stop>>
\* the consumer asks for the next result: `if stop.is_set(): break` leaves the as_completed loop
Resume == /\ pc = "Suspended" /\ pc' = (IF stop THEN "While" ELSE "For")
          /\ UNCHANGED <<mode, raises, unsub, pending, finished, futures, snap, yielded, cur, stop>>
\* the consumer sets the stop event of THIS call (result.stop.set()); in sequential mode between two results
Cancel == /\ Cancels /\ ~stop /\ (pc = "Suspended" \/ (pc = "Start" /\ mode = "seq" /\ Len(yielded) > 0))
          /\ stop' = TRUE
          /\ UNCHANGED <<mode, raises, unsub, pending, finished, futures, snap, yielded, pc, cur>>

Gen == Single \/ SeqStep \/ Empty \/ InitialSubmit \/ While \/ ForEnd \/ Refill \/ Yield \/ Resume \/ \E t \in Tasks : Observe(t)
Env == (\E t \in Tasks : Complete(t)) \/ Cancel
Next == Gen \/ Env \/ (pc = "Done" /\ UNCHANGED vars)
Spec == Init /\ [][Next]_vars /\ WF_vars(Gen) /\ \A t \in Tasks : WF_vars(Complete(t))

\* ---- properties
Range(s) == {s[i] : i \in 1..Len(s)}
YTasks == {yielded[i].t : i \in 1..Len(yielded)}
TypeOK == /\ pending \subseteq Tasks /\ finished \subseteq Tasks /\ futures \subseteq Tasks /\ snap \subseteq Tasks
          /\ pending \cap finished = {} /\ unsub \in 1..(NT + 1)
NoDup == \A i, j \in 1..Len(yielded) : i # j => yielded[i].t # yielded[j].t
NoLoss == stop \/ \A t \in Tasks : \/ t >= unsub \/ t \in futures \/ t \in YTasks
                           \/ (pc \in {"Refill", "Yield"} /\ t = cur)
WindowBound == mode = "window" => Cardinality(futures) <= Window /\ pending \cup finished \subseteq futures \cup {cur}
ExactlyOnce == (pc = "Done" /\ ~stop) => (YTasks = Tasks /\ Len(yielded) = NT)
\* same multiset as the sequential mode: one result per payload with that payload's own outcome
SameAsSequential == (pc = "Done" /\ ~stop) => \A t \in Tasks : \E i \in 1..Len(yielded) : yielded[i] = Res(t)
\* a cancelled run: what was yielded are results of distinct payloads with their own outcomes (in sequential mode the payloads
\* started after the cancellation carry InterruptedError), and nothing is submitted after the event is set
CancelledSound == stop => \A i \in 1..Len(yielded) : yielded[i].t \in Tasks /\ (yielded[i].exc \/ yielded[i].t \notin raises)
NoSubmitAfterCancel == [][stop => futures' \subseteq futures]_vars
\* a captured exception never blocks: whenever work remains, some action is enabled (no deadlock before Done)
CapturedNeverBlocks == pc # "Done" => ENABLED (Gen \/ Env)
Finishes == <>(pc = "Done")
=============================================================================
