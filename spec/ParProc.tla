------------------------------ MODULE ParProc ------------------------------
(* C18: tatsu/parproc/pmap.py executor_pmap and tatsu/parproc/parproc.py parproc, one action per step of the generator
   (structured like the code so that traces and replays bind one to one), plus the environment action Complete(t)
   - a worker finishing any pending task at any moment - which is the schedule.

   Tasks 1..NT in payload order.  raises \subseteq Tasks = payloads whose function raises an exception that the loop is asked to
   capture (the Result then carries the exception); they are ordinary results.                                           *)
EXTENDS Naturals, Sequences, FiniteSets, TLC

CONSTANTS NT,         \* number of payloads
          Window,     \* 1 + max_workers : size of the initial submission window of the process-pool branch
          Modes       \* subset of {"window", "all", "seq", "single"} explored from Init
Tasks == 1..NT

VARIABLES mode,      \* which branch of parproc()/executor_pmap runs
          raises,    \* payloads whose (captured) exception is the outcome
          unsub,     \* index of the next task taskiter will hand out
          pending,   \* submitted to the executor, not yet completed by a worker
          finished,  \* completed by a worker, not yet observed by the generator
          futures,   \* the generator's dict of futures: submitted and not yet popped
          snap,      \* the set as_completed() is iterating (snapshot of futures at call time)
          yielded,   \* sequence of yielded results [t |-> task, exc |-> BOOLEAN]
          pc, cur
vars == <<mode, raises, unsub, pending, finished, futures, snap, yielded, pc, cur>>

Min(a, b) == IF a < b THEN a ELSE b
Res(t) == [t |-> t, exc |-> t \in raises]

Init == /\ mode \in Modes /\ raises \in SUBSET Tasks
        /\ (mode = "single" => NT = 1)
        /\ unsub = 1 /\ pending = {} /\ finished = {} /\ futures = {} /\ snap = {}
        /\ yielded = <<>> /\ pc = "Start" /\ cur = 0

\* ---- parproc(): the single-task and sequential shortcuts
Single == /\ pc = "Start" /\ NT = 1 /\ yielded' = <<Res(1)>> /\ unsub' = 2 /\ pc' = "Done"
          /\ UNCHANGED <<mode, raises, pending, finished, futures, snap, cur>>
SeqStep == /\ pc = "Start" /\ mode = "seq" /\ NT # 1
           /\ IF unsub <= NT THEN yielded' = Append(yielded, Res(unsub)) /\ unsub' = unsub + 1 /\ pc' = pc
              ELSE pc' = "Done" /\ UNCHANGED <<yielded, unsub>>
           /\ UNCHANGED <<mode, raises, pending, finished, futures, snap, cur>>

\* ---- executor_pmap
Empty == /\ pc = "Start" /\ mode \in {"window", "all"} /\ NT = 0 /\ pc' = "Done"       \* 'if not tasks: return'
         /\ UNCHANGED <<mode, raises, unsub, pending, finished, futures, snap, yielded, cur>>
InitialSubmit == /\ pc = "Start" /\ mode \in {"window", "all"} /\ NT > 1
                 /\ LET k == IF mode = "window" THEN Min(Window, NT) ELSE NT IN
                    /\ futures' = 1..k /\ pending' = 1..k /\ unsub' = k + 1
                 /\ pc' = "While" /\ UNCHANGED <<mode, raises, finished, snap, yielded, cur>>

While == /\ pc = "While"
         /\ IF futures = {} THEN pc' = "Done" /\ snap' = snap
            ELSE pc' = "For" /\ snap' = futures                \* as_completed(futures) takes a snapshot
         /\ UNCHANGED <<mode, raises, unsub, pending, finished, futures, yielded, cur>>

Complete(t) == /\ t \in pending /\ pending' = pending \ {t} /\ finished' = finished \cup {t}
               /\ UNCHANGED <<mode, raises, unsub, futures, snap, yielded, pc, cur>>

Observe(t) == /\ pc = "For" /\ t \in snap /\ t \in finished   \* as_completed yields a finished future of its snapshot
              /\ snap' = snap \ {t} /\ cur' = t
              /\ futures' = futures \ {t}                      \* futures.pop(future)
              /\ finished' = finished \ {t}
              /\ pc' = "Refill" /\ UNCHANGED <<mode, raises, unsub, pending, yielded>>

ForEnd == /\ pc = "For" /\ snap = {} /\ pc' = "While"
          /\ UNCHANGED <<mode, raises, unsub, pending, finished, futures, snap, yielded, cur>>

Refill == /\ pc = "Refill"                                       \* for task in islice(taskiter, 1): submit
          /\ IF unsub <= NT
             THEN futures' = futures \cup {unsub} /\ pending' = pending \cup {unsub} /\ unsub' = unsub + 1
             ELSE UNCHANGED <<futures, pending, unsub>>
          /\ pc' = "Yield" /\ UNCHANGED <<mode, raises, finished, snap, yielded, cur>>

Yield == /\ pc = "Yield" /\ yielded' = Append(yielded, Res(cur)) /\ pc' = "For"
         /\ UNCHANGED <<mode, raises, unsub, pending, finished, futures, snap, cur>>

Gen == Single \/ SeqStep \/ Empty \/ InitialSubmit \/ While \/ ForEnd \/ Refill \/ Yield \/ \E t \in Tasks : Observe(t)
Env == \E t \in Tasks : Complete(t)
Next == Gen \/ Env \/ (pc = "Done" /\ UNCHANGED vars)
Spec == Init /\ [][Next]_vars /\ WF_vars(Gen) /\ \A t \in Tasks : WF_vars(Complete(t))

\* ---- properties
Range(s) == {s[i] : i \in 1..Len(s)}
YTasks == {yielded[i].t : i \in 1..Len(yielded)}
TypeOK == /\ pending \subseteq Tasks /\ finished \subseteq Tasks /\ futures \subseteq Tasks /\ snap \subseteq Tasks
          /\ pending \cap finished = {} /\ unsub \in 1..(NT + 1)
NoDup == \A i, j \in 1..Len(yielded) : i # j => yielded[i].t # yielded[j].t
NoLoss == \A t \in Tasks : \/ t >= unsub \/ t \in futures \/ t \in YTasks
                           \/ (pc \in {"Refill", "Yield"} /\ t = cur)
WindowBound == mode = "window" => Cardinality(futures) <= Window /\ pending \cup finished \subseteq futures \cup {cur}
ExactlyOnce == pc = "Done" => (YTasks = Tasks /\ Len(yielded) = NT)
\* same multiset as the sequential mode: one result per payload with that payload's own outcome
SameAsSequential == pc = "Done" => \A t \in Tasks : \E i \in 1..Len(yielded) : yielded[i] = Res(t)
\* a captured exception never blocks: whenever work remains, some action is enabled (no deadlock before Done)
CapturedNeverBlocks == pc # "Done" => ENABLED (Gen \/ Env)
Finishes == <>(pc = "Done")
=============================================================================
