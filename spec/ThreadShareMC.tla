------------------------------ MODULE ThreadShareMC ------------------------------
(* Model-checking instances of ThreadShare: the work lists (a cfg file cannot write a sequence).
   W2    one typed rule, one node            x::X                 two lookups of X (the _default loop, then _instanceof)
   W4    two typed rules / two nodes         x::X  y::Y           X X Y Y
   W3b   a typed rule with a base            x::X::B              B X X                                               *)
EXTENDS ThreadShare
W2 == <<"X", "X">>
W4 == <<"X", "X", "Y", "Y">>
W3b == <<"B", "X", "X">>
=============================================================================
