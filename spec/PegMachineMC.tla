------------------------------ MODULE PegMachineMC ------------------------------
(* Model checking PegMachine on a job file (same format as PegSemBatch): for every (grammar, configuration, start, text) TLC explores
   every memo schedule (hit / forced miss) of the machine and checks
     Refines         done => the machine's accept/reject and end offset are PegSem's (layer 1), and its value too on specified shapes
     FramesBalanced  the frame stack never underflows and is back to the root frame when the parse is done
     CutContained    only the top frame, or the option frame under an isolate frame, ever changes its cut flag
     StepBound       no schedule runs longer than the bound (a loop in the state graph would be non-termination)
   and prints the machine's outcome (one RES line per final state) for the conformance replay.                             *)
EXTENDS PegMachine, Json, IOUtils

Jobs == JsonDeserialize(IOEnv.VERIF_CASES)
VARIABLES job, ti
allvars == <<G, Inp, Cfg, job, ti, ctl, ret, fr, memo, seeds, nmiss, done, steps>>

Init == \E j \in 1..Len(Jobs.jobs) :
          \E t \in 1..Len(Jobs.textsets[Jobs.jobs[j].ts]) :
            /\ job = j /\ ti = t
            /\ G = Jobs.grammars[Jobs.jobs[j].g]
            /\ Cfg = Jobs.cfgs[Jobs.jobs[j].c]
            /\ Inp = Jobs.textsets[Jobs.jobs[j].ts][t]
            /\ MInit(Jobs.jobs[j].start)

Next == /\ MNext /\ UNCHANGED <<job, ti>>
        /\ (done' /\ ~done) => PrintT("RES " \o ToString(job) \o "." \o ToString(ti) \o " " \o ToJson([r |-> MOutcome, u |-> Unspecified, ua |-> UnspecifiedAcceptance, lr |-> LeftRecursive # {}, sl |-> StaticLeaderDeviates(Jobs.jobs[job].start)]))

Sem == Parse(Jobs.jobs[job].start)
Refines == done => HiddenLeftRecursion \/       \* PegSem does not define recursion hidden behind a nullable call (C03 / C16 proviso)
                   LET s == Sem  m == MOutcome IN
                   \/ s.k = "fuel" \/ UnspecifiedAcceptance
                   \/ (Unspecified /\ Cfg.act \in {"failb", "raise"})   \* the action decides on a value the documents leave open
                   \/ Gen                                              \* the generated-parser flavour follows KF-C02-1/2; see GenRefines
                   \/ StaticLeaderDeviates(Jobs.jobs[job].start)      \* KF-C03-1: decided (and reported) by C03, not here
                   \/ /\ (s.k = "ok") = (m.k = "ok")
                      /\ (s.k = "ok" => s.pos = m.pos)
                      /\ (s.k = "ok" /\ ~Unspecified /\ ~OverrideListSpliced => VEq(s.v, m.v))     \* KF-C01-1 is C01's, reported there
RefinesAcceptance == done => LET s == Sem  m == MOutcome IN s.k = "fuel" \/ ((s.k = "ok") = (m.k = "ok") /\ (s.k = "ok" => s.pos = m.pos))
=============================================================================
