------------------------------ MODULE LinePos ------------------------------
(* C12 (first sentence): line number, column and line text of every offset 0..Len(t) of a text, obtained by splitting the text at
   its line breaks LF, CR and CRLF (a line's text includes its terminator).  At the end-of-text offset the position belongs to
   the last line, or to a new empty line when the text ends with a line break.
   TLC enumerates every text over the abstract alphabet up to MaxLen and prints the table that the harness replays into
   TextLinesCursor and BufferCursor.  Abstract characters: "x" letter, "s" space, "n" LF, "r" CR.                          *)
EXTENDS Naturals, Sequences, FiniteSets, TLC, Json

CONSTANTS Alphabet, MaxLen
LF == "n"
CR == "r"
IsBreakEnd(t, i) == \/ t[i] = LF
                    \/ (t[i] = CR /\ ~(i < Len(t) /\ t[i + 1] = LF))
Starts(t) == {0} \cup {i \in 1..Len(t) : IsBreakEnd(t, i)}              \* 0-based offsets at which a line starts
LineStart(t, o) == CHOOSE s \in Starts(t) : s <= o /\ \A s2 \in Starts(t) : s2 <= o => s2 <= s
NextStart(t, o) == LET later == {s \in Starts(t) : s > LineStart(t, o)} IN
                   IF later = {} THEN Len(t) ELSE CHOOSE s \in later : \A s2 \in later : s <= s2
Info(t, o) == [line |-> Cardinality({s \in Starts(t) : s <= o}) - 1,
               col  |-> o - LineStart(t, o),
               text |-> SubSeq(t, LineStart(t, o) + 1, NextStart(t, o))]

\* laws of the table itself (checked by TLC for every text): lines partition the text, columns count from the line start
Texts == UNION {[1..n -> Alphabet] : n \in 0..MaxLen}
RECURSIVE Concat(_)
Concat(ss) == IF ss = <<>> THEN <<>> ELSE Head(ss) \o Concat(Tail(ss))
LinesOf(t) == LET S == Starts(t) \ {Len(t)} IN
              LET ordered == CHOOSE q \in [1..Cardinality(S) -> S] : \A i, j \in 1..Cardinality(S) : i < j => q[i] < q[j] IN
              [i \in 1..Cardinality(S) |-> Info(t, ordered[i]).text]
Partition(t) == t = <<>> \/ Concat(LinesOf(t)) = t
Monotone(t) == \A o \in 0..(Len(t) - 1) : /\ Info(t, o + 1).line \in {Info(t, o).line, Info(t, o).line + 1}
                                           /\ (Info(t, o + 1).line = Info(t, o).line => Info(t, o + 1).col = Info(t, o).col + 1)
                                           /\ (Info(t, o + 1).line # Info(t, o).line => Info(t, o + 1).col = 0)

RECURSIVE Cat(_)
Cat(u) == IF u = <<>> THEN "" ELSE Head(u) \o Cat(Tail(u))
VARIABLES t, done
Init == t \in Texts /\ done = FALSE
Next == /\ ~done /\ done' = TRUE /\ UNCHANGED t
        /\ PrintT("RES t" \o Cat(t) \o " " \o
                  ToJson([t |-> t, info |-> [o \in 1..(Len(t) + 1) |-> Info(t, o - 1)]]))
Laws == Partition(t) /\ Monotone(t)
=============================================================================
