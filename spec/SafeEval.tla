------------------------------ MODULE SafeEval ------------------------------
(* C17: constant expressions are evaluated in a sandbox.  tatsu/util/safeeval.py as a policy over abstract expression trees.
   Name classes (what a name refers to when the expression is evaluated with context = safe builtins | semantics context | AST):
     "astkey"  a name bound in the current AST (a string/list/dict value)       "pure"  a pure builtin function (len, max, repr ...)
     "shadow"  an AST key that has the same name as a capability builtin        "cap"   a builtin that opens files, imports, runs/compiles
     "type"    a builtin type (int, str, dict, object, type ...)                        code, reads input, exits, introspects or mutates
     "exc"     an exception class        "private" a name starting with '_'     "unknown" a name bound nowhere
   Expr == name(cls) | const | call(f, arg) | attr(o, dunder?) | sub(o) | lambda | comp | fstr(e) | fmtfield(dunder?) (str.format traversal)
   Policy(e): the property's allowed set.  Effects(e): capabilities exercised if e were evaluated.  TLC checks, for every tree up to
   the depth bound, Policy(e) => Effects(e) = {} and prints the verdict the harness replays with every concrete member of each class. *)
EXTENDS Naturals, Sequences, FiniteSets, TLC, Json

CONSTANT Depth
NameClasses == {"astkey", "pure", "shadow", "cap", "type", "exc", "private", "unknown"}
AllowedNames == {"astkey", "pure", "shadow"}

Leaf == [k : {"name"}, cls : NameClasses] \cup {[k |-> "const"], [k |-> "lambda"], [k |-> "comp"], [k |-> "genexp"],
                                                 [k |-> "fmtfield", dunder |-> TRUE], [k |-> "fmtfield", dunder |-> FALSE]}
RECURSIVE Exprs(_)
Exprs(d) == IF d = 0 THEN Leaf
            ELSE LET S == Exprs(d - 1) IN
                 S \cup {[k |-> "call", f |-> f, a |-> a] : f \in S, a \in {[k |-> "const"], [k |-> "name", cls |-> "astkey"], [k |-> "name", cls |-> "cap"]}}
                   \cup {[k |-> "attr", o |-> o, dunder |-> b] : o \in S, b \in BOOLEAN}
                   \cup {[k |-> "sub", o |-> o] : o \in S}
                   \* attributes that are not dunders but hand out interpreter internals: the frame of a generator (gi_frame), its
                   \* callers (f_back), their globals (f_globals), code objects ...
                   \cup {[k |-> "fattr", o |-> o] : o \in S}
                   \cup {[k |-> "fstr", e |-> e] : e \in S}
                   \* the same sub-expression in the syntactic positions that are not expressions themselves: the value of a keyword
                   \* argument, the iterable and the condition of a comprehension, the default of a lambda parameter
                   \cup {[k |-> "pos", w |-> w, e |-> x] : w \in {"kwarg", "compiter", "compcond", "lamdefault", "kwlambda"}, x \in S}

RECURSIVE Policy(_)
Policy(e) ==
  CASE e.k = "name" -> e.cls \in AllowedNames
    [] e.k = "const" -> TRUE
    [] e.k \in {"lambda", "comp"} -> FALSE                 \* anonymous code / names bound nowhere
    [] e.k = "fmtfield" -> ~e.dunder                       \* '{0.attr}'.format(x): attribute traversal hidden in a format string
    [] e.k = "call" -> /\ e.f.k \in {"name", "attr", "fmtfield"}   \* only direct name or method calls ('...'.format is a method)
                       /\ Policy(e.f) /\ Policy(e.a)
    [] e.k = "attr" -> ~e.dunder /\ Policy(e.o)
    [] e.k = "sub" -> Policy(e.o)
    [] e.k = "genexp" -> TRUE                              \* a generator over literals reads nothing else
    [] e.k = "fattr" -> FALSE                              \* frames and code objects reach the real builtins and every caller's names
    [] e.k = "fstr" -> Policy(e.e)
    [] e.k = "pos" -> e.w \notin {"lamdefault", "kwlambda"} /\ Policy(e.e)    \* a comprehension over a throw-away target reads what its parts read; a
                                                          \* lambda is anonymous code (and calling it is not a call by name)

\* a call evaluates its function expression and its argument; a capability is exercised when a "cap" name is what is called,
\* a dunder is reached when a dunder attribute (written out or hidden in a format field) is evaluated
RECURSIVE Effects(_)
Effects(e) ==
  CASE e.k = "call" -> (IF e.f.k = "name" /\ e.f.cls = "cap" THEN {"capability"} ELSE {}) \cup Effects(e.f) \cup Effects(e.a)
    [] e.k = "attr" -> (IF e.dunder THEN {"dunder"} ELSE {}) \cup Effects(e.o)
    [] e.k = "fmtfield" -> IF e.dunder THEN {"dunder"} ELSE {}
    [] e.k = "sub" -> Effects(e.o)
    [] e.k = "fattr" -> {"introspection"} \cup Effects(e.o)
    [] e.k = "fstr" -> Effects(e.e)
    [] e.k = "lambda" -> {"anonymous code"}
    [] e.k = "pos" -> Effects(e.e) \cup (IF e.w \in {"lamdefault", "kwlambda"} THEN {"anonymous code"} ELSE {})
    [] OTHER -> {}

\* rendering to an abstract token string the harness concretises (N:<class> stands for every member of the class)
RECURSIVE Show(_)
Show(e) ==
  CASE e.k = "name" -> "N:" \o e.cls
    [] e.k = "const" -> "K"
    [] e.k = "lambda" -> "(lambda:K)()"
    [] e.k = "comp" -> "[c_for_c_in_K]"
    [] e.k = "fmtfield" -> IF e.dunder THEN "FMT__" ELSE "FMT"
    [] e.k = "call" -> Show(e.f) \o "(" \o Show(e.a) \o ")"
    [] e.k = "attr" -> Show(e.o) \o (IF e.dunder THEN ".__d__" ELSE ".p")
    [] e.k = "sub" -> Show(e.o) \o "[0]"
    [] e.k = "genexp" -> "genx"
    [] e.k = "fattr" -> Show(e.o) \o ".f_i"
    [] e.k = "fstr" -> "F{" \o Show(e.e) \o "}"
    [] e.k = "pos" -> CASE e.w = "kwarg" -> "kwarg<" \o Show(e.e) \o ">"           \* sorted('ab', key=<e>)
                        [] e.w = "compiter" -> "compiter<" \o Show(e.e) \o ">"     \* ['ab' for _ in [<e>]]
                        [] e.w = "compcond" -> "compcond<" \o Show(e.e) \o ">"     \* ['ab' for _ in 'ab' if <e>]
                        [] e.w = "lamdefault" -> "lamdef<" \o Show(e.e) \o ">"     \* (lambda a=<e>: 'ab')()
                        [] e.w = "kwlambda" -> "kwlam<" \o Show(e.e) \o ">"        \* sorted('ab', key=lambda _a: <e>): a lambda a pure builtin calls

\* an un-called lambda handed to a pure builtin: the property neither allows nor forbids it as such (its body can only fail or read what
\* it reads); only the absence of effects is claimed for such shapes
RECURSIVE Lenient(_)
Lenient(x) == CASE x.k = "pos" -> x.w = "kwlambda" \/ Lenient(x.e)
                [] x.k = "call" -> Lenient(x.f) \/ Lenient(x.a)
                [] x.k \in {"attr", "sub", "fattr"} -> Lenient(x.o)
                [] x.k = "fstr" -> Lenient(x.e)
                [] OTHER -> FALSE

VARIABLES e, done
Init == e \in Exprs(Depth) /\ done = FALSE
Next == /\ ~done /\ done' = TRUE /\ UNCHANGED e
        /\ PrintT("RES " \o Show(e) \o " " \o ToJson([show |-> Show(e), allowed |-> Policy(e), effects |-> Effects(e), lenient |-> Lenient(e)]))
Sandbox == Policy(e) => Effects(e) = {}
=============================================================================
