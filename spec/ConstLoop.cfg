CONSTANT AllowSelfRef = FALSE
CONSTANT MaxGrow = 4
SPECIFICATION Spec
INVARIANT NeverEvaluatesRejected
INVARIANT Bounded
INVARIANT Final
PROPERTY Terminates
CHECK_DEADLOCK FALSE
