------------------------------ MODULE ThreadShare ------------------------------
(* C10, threads: what the threads that parse with ONE compiled model share, step by step.

   A parse with a model compiled with asmodel=True touches three pieces of process-wide / model-wide mutable state:
     opt       Grammar._optimized, the cached optimized grammar (tatsu/peg/base.py Grammar.optimized), built under _OPTIMIZED_LOCK
     synthReg  the module registry of synthesized node classes (tatsu/objectmodel/synth.py synthesize: __registry)
     bldReg    the constructor registry of the model's builder (tatsu/objectmodel/builder.py ModelBuilder._registry)
   Each thread runs the same program (one action per critical section, named after the code):
     OptRead   `if isinstance(self._optimized, Grammar): return`           optimized(), before the lock
     OptLock   `with _OPTIMIZED_LOCK:` + the second check                  blocks while another thread holds the lock
     OptBuild  optimize the rules, copy, initialize, store, release
   then for every constructor lookup of the parse, in order (Work: one entry per _get_constructor call):
     Find      _find_existing_constructor(name): the builder's registry
     Lookup    synthesize(): `found = __registry.get(name)`
     Create    types.new_class(...) and the store into the module registry
     Register  _register_constructor(): `existing and existing is not constructor` -> TypeResolutionError, else store
   Two designs of Create (constant AtomicSynth):
     FALSE  check-then-act: the new class is stored unconditionally (`__registry[name] = newcls`) - a thread that looked the
            name up before another thread's store creates a SECOND class and overwrites the first
     TRUE   get-or-create: `__registry.setdefault(name, newcls)` - the class stored first wins, every thread gets that one
   and two of optimized() (constant Locked): with the lock (as coded since e2a5183) and without (the former design, KF-C10-2).

   Properties (the thread clause of C10: a result is what a fresh process computes, whatever the other threads do):
     NoError          no thread's parse ends in TypeResolutionError
     OneClassPerName  all constructor lookups of a name, by all threads, return one and the same class
     BuiltOnce        the optimized grammar is built at most once, and never while another thread is building it
     Finishes         every thread finishes (no deadlock on the lock)                                                    *)
EXTENDS Naturals, Sequences, FiniteSets, TLC

CONSTANTS Threads,       \* e.g. {1, 2}
          Work,          \* sequence of type names: the _get_constructor calls one parse makes, in order
          AtomicSynth,   \* design of synthesize(): get-or-create (TRUE) vs check-then-act (FALSE)
          Locked         \* design of Grammar.optimized(): serialized (TRUE) vs unserialized (FALSE)

Names == {Work[i] : i \in 1..Len(Work)}

VARIABLES opt,        \* "none" | "ready"
          lock,       \* 0 or the thread holding _OPTIMIZED_LOCK
          building,   \* threads currently between OptLock and OptBuild's store
          nbuilt,     \* how many times the optimized grammar was built
          synthReg,   \* name -> class id (0: absent)
          bldReg,     \* name -> class id (0: absent)
          ncls,       \* classes created so far (class ids are 1..ncls, in creation order)
          pc, k, cand,
          used        \* thread -> sequence of <<name, class>> returned by its constructor lookups
vars == <<opt, lock, building, nbuilt, synthReg, bldReg, ncls, pc, k, cand, used>>

Init == /\ opt = "none" /\ lock = 0 /\ building = {} /\ nbuilt = 0
        /\ synthReg = [n \in Names |-> 0] /\ bldReg = [n \in Names |-> 0] /\ ncls = 0
        /\ pc = [t \in Threads |-> "optEntry"] /\ k = [t \in Threads |-> 1] /\ cand = [t \in Threads |-> 0]
        /\ used = [t \in Threads |-> <<>>]

AfterOpt == IF Len(Work) = 0 THEN "done" ELSE "find"
Advance(t) == IF k[t] = Len(Work) THEN "done" ELSE "find"

OptRead(t) == /\ pc[t] = "optEntry"
              /\ pc' = [pc EXCEPT ![t] = IF opt = "ready" THEN AfterOpt ELSE "optLock"]
              /\ UNCHANGED <<opt, lock, building, nbuilt, synthReg, bldReg, ncls, k, cand, used>>

OptLock(t) == /\ pc[t] = "optLock"
              /\ IF Locked
                 THEN /\ lock = 0
                      /\ IF opt = "ready" THEN pc' = [pc EXCEPT ![t] = AfterOpt] /\ UNCHANGED <<lock, building>>
                         ELSE pc' = [pc EXCEPT ![t] = "optBuild"] /\ lock' = t /\ building' = building \cup {t}
                 ELSE pc' = [pc EXCEPT ![t] = "optBuild"] /\ building' = building \cup {t} /\ lock' = lock
              /\ UNCHANGED <<opt, nbuilt, synthReg, bldReg, ncls, k, cand, used>>

OptBuild(t) == /\ pc[t] = "optBuild"
               /\ opt' = "ready" /\ nbuilt' = nbuilt + 1 /\ building' = building \ {t}
               /\ lock' = IF lock = t THEN 0 ELSE lock
               /\ pc' = [pc EXCEPT ![t] = AfterOpt]
               /\ UNCHANGED <<synthReg, bldReg, ncls, k, cand, used>>

Find(t) == /\ pc[t] = "find"
           /\ LET n == Work[k[t]] IN
              IF bldReg[n] # 0
              THEN /\ used' = [used EXCEPT ![t] = Append(@, <<n, bldReg[n]>>)]
                   /\ pc' = [pc EXCEPT ![t] = Advance(t)] /\ k' = [k EXCEPT ![t] = @ + 1]
              ELSE pc' = [pc EXCEPT ![t] = "lookup"] /\ UNCHANGED <<used, k>>
           /\ UNCHANGED <<opt, lock, building, nbuilt, synthReg, bldReg, ncls, cand>>

Lookup(t) == /\ pc[t] = "lookup"
             /\ LET n == Work[k[t]] IN
                IF synthReg[n] # 0 THEN cand' = [cand EXCEPT ![t] = synthReg[n]] /\ pc' = [pc EXCEPT ![t] = "register"]
                ELSE pc' = [pc EXCEPT ![t] = "create"] /\ cand' = cand
             /\ UNCHANGED <<opt, lock, building, nbuilt, synthReg, bldReg, ncls, k, used>>

Create(t) == /\ pc[t] = "create"
             /\ LET n == Work[k[t]]  c == ncls + 1 IN
                /\ ncls' = c                                            \* types.new_class always runs: the lookup missed
                /\ IF AtomicSynth /\ synthReg[n] # 0
                   THEN cand' = [cand EXCEPT ![t] = synthReg[n]] /\ synthReg' = synthReg          \* setdefault: the first store wins
                   ELSE cand' = [cand EXCEPT ![t] = c] /\ synthReg' = [synthReg EXCEPT ![n] = c]
             /\ pc' = [pc EXCEPT ![t] = "register"]
             /\ UNCHANGED <<opt, lock, building, nbuilt, bldReg, k, used>>

Register(t) == /\ pc[t] = "register"
               /\ LET n == Work[k[t]] IN
                  IF bldReg[n] # 0 /\ bldReg[n] # cand[t]
                  THEN pc' = [pc EXCEPT ![t] = "error"] /\ UNCHANGED <<bldReg, used, k>>       \* TypeResolutionError: Conflict ...
                  ELSE /\ bldReg' = [bldReg EXCEPT ![n] = cand[t]]
                       /\ used' = [used EXCEPT ![t] = Append(@, <<n, cand[t]>>)]
                       /\ pc' = [pc EXCEPT ![t] = Advance(t)] /\ k' = [k EXCEPT ![t] = @ + 1]
               /\ UNCHANGED <<opt, lock, building, nbuilt, synthReg, ncls, cand>>

Step(t) == OptRead(t) \/ OptLock(t) \/ OptBuild(t) \/ Find(t) \/ Lookup(t) \/ Create(t) \/ Register(t)
Finished(t) == pc[t] \in {"done", "error"}
Next == (\E t \in Threads : Step(t)) \/ ((\A t \in Threads : Finished(t)) /\ UNCHANGED vars)
Spec == Init /\ [][Next]_vars /\ \A t \in Threads : WF_vars(Step(t))

\* ---- properties
TypeOK == /\ opt \in {"none", "ready"} /\ lock \in Threads \cup {0} /\ building \subseteq Threads
          /\ \A n \in Names : synthReg[n] \in 0..ncls /\ bldReg[n] \in 0..ncls
          /\ \A t \in Threads : k[t] \in 1..(Len(Work) + 1)
NoError == \A t \in Threads : pc[t] # "error"
AllUsed == UNION {{used[t][i] : i \in 1..Len(used[t])} : t \in Threads}
OneClassPerName == \A a, b \in AllUsed : a[1] = b[1] => a[2] = b[2]
BuiltOnce == nbuilt <= 1 /\ Cardinality(building) <= 1
\* a finished thread's response is the fresh-process response: no error, and for each name the class every other lookup got
ThreadIndependent == \A t \in Threads : pc[t] = "done" => Len(used[t]) = Len(Work)
Finishes == <>(\A t \in Threads : Finished(t))
=============================================================================
