------------------------------ MODULE PacketQueue ------------------------------
(* C19 (queue part): tatsu/packetz/queue.py - an append-only file of newline-terminated records, readers that keep a byte offset
   (_told) and the set of ids already delivered (_seen).
   A record of packet p is RL abstract bytes <<p, 1>> .. <<p, RL>>, the last one being the newline; a corrupted byte is <<p, 0>>.
   Environment: the writer appends the record of the next packet in arbitrary chunks (SendChunk; a crash is a writer that never
   continues), Corrupt flips one byte of a complete record, and every Receive sees the file cut short at an arbitrary length
   vis (the file as it is at the moment of the read).
   Packet ids: a reader delivers a record only if its ID was not delivered before.  UniqueIds = TRUE is the required design (every
   packet gets an id no other packet has; the id of packet p is then written p); UniqueIds = FALSE lets the environment pick any id
   of the finite domain Ids for each packet (an id generator that wraps around, such as a clock value modulo 10^8): TLC then
   refutes NothingLost - a completed, intact packet whose id repeats an earlier one is never delivered.                  *)
EXTENDS Naturals, Sequences, FiniteSets, TLC

CONSTANTS NP,        \* packets 1..NP are sent in this order
          RL,        \* abstract bytes per record, newline included
          Readers,
          MaxCorrupt,
          Ids,        \* the id domain when ids are not unique
          UniqueIds   \* BOOLEAN

VARIABLES file,      \* sequence of abstract bytes
          nextSend,  \* next packet to start sending
          inflight,  \* <<p, k>>: packet being appended and bytes written so far (<<0,0>>: none)
          told, seen, got,
          ncorrupt,
          idof       \* packet -> its id (0: not yet created)
vars == <<file, nextSend, inflight, told, seen, got, ncorrupt, idof>>

Init == /\ file = <<>> /\ nextSend = 1 /\ inflight = <<0, 0>> /\ ncorrupt = 0 /\ idof = [p \in 1..NP |-> 0]
        /\ told = [r \in Readers |-> 0] /\ seen = [r \in Readers |-> {}] /\ got = [r \in Readers |-> <<>>]

SendBegin == /\ inflight[1] = 0 /\ nextSend <= NP /\ inflight' = <<nextSend, 0>> /\ nextSend' = nextSend + 1
             /\ IF UniqueIds THEN idof' = [idof EXCEPT ![nextSend] = nextSend]
                ELSE \E i \in Ids : idof' = [idof EXCEPT ![nextSend] = i]
             /\ UNCHANGED <<file, told, seen, got, ncorrupt>>

SendChunk(k) == /\ inflight[1] # 0 /\ k >= 1 /\ inflight[2] + k <= RL
                /\ file' = file \o [i \in 1..k |-> <<inflight[1], inflight[2] + i>>]
                /\ inflight' = IF inflight[2] + k = RL THEN <<0, 0>> ELSE <<inflight[1], inflight[2] + k>>
                /\ UNCHANGED <<nextSend, told, seen, got, ncorrupt, idof>>

NComplete == IF inflight[1] = 0 THEN Len(file) \div RL ELSE (Len(file) - inflight[2]) \div RL
\* flip one payload byte (never the newline) of a complete record
Corrupt(j, b) == /\ ncorrupt < MaxCorrupt /\ j \in 1..NComplete /\ b \in 1..(RL - 1)
                 /\ file[(j - 1) * RL + b][2] # 0
                 /\ file' = [file EXCEPT ![(j - 1) * RL + b] = <<@[1], 0>>]
                 /\ ncorrupt' = ncorrupt + 1
                 /\ UNCHANGED <<nextSend, inflight, told, seen, got, idof>>

\* receive(): scan complete lines of the visible prefix from the reader's offset
RECURSIVE Scan(_, _, _, _, _)
Scan(view, o, t, s, g) ==
  IF o + RL > Len(view) THEN [told |-> t, seen |-> s, got |-> g]              \* no complete line left: stop, offset stays
  ELSE LET line == SubSeq(view, o + 1, o + RL)
           pkt == line[1][1]
           ok == \A i \in 1..RL : line[i] = <<pkt, i>>                        \* checksum: every byte intact
       IN IF ok /\ idof[pkt] \notin s THEN Scan(view, o + RL, o + RL, s \cup {idof[pkt]}, Append(g, pkt))
          ELSE Scan(view, o + RL, o + RL, s, g)                              \* corrupt (or duplicate id): skipped, offset advances

Receive(r, vis) == /\ vis \in told[r]..Len(file)
                   /\ LET res == Scan(SubSeq(file, 1, vis), told[r], told[r], seen[r], got[r]) IN
                      /\ told' = [told EXCEPT ![r] = res.told]
                      /\ seen' = [seen EXCEPT ![r] = res.seen]
                      /\ got' = [got EXCEPT ![r] = res.got]
                   /\ UNCHANGED <<file, nextSend, inflight, ncorrupt, idof>>

Writer == SendBegin \/ \E k \in 1..RL : SendChunk(k)
Next == \/ Writer
        \/ \E j \in 1..NP, b \in 1..RL : Corrupt(j, b)
        \/ \E r \in Readers, v \in 0..(NP * RL) : Receive(r, v)
Spec == Init /\ [][Next]_vars /\ WF_vars(Writer) /\ \A r \in Readers : WF_vars(Receive(r, Len(file)))

\* ---- properties
Intact(j) == \A i \in 1..RL : file[(j - 1) * RL + i] = <<file[(j - 1) * RL + 1][1], i>>
CompletedIntact == SelectSeq([j \in 1..NComplete |-> IF Intact(j) THEN file[(j - 1) * RL + 1][1] ELSE 0], LAMBDA x : x # 0)
RECURSIVE IsSubseq(_, _)
IsSubseq(a, b) == IF a = <<>> THEN TRUE ELSE IF b = <<>> THEN FALSE
                  ELSE IF Head(a) = Head(b) THEN IsSubseq(Tail(a), Tail(b)) ELSE IsSubseq(a, Tail(b))
NoRepeat(g) == \A i, j \in 1..Len(g) : i # j => g[i] # g[j]
\* delivered packets are completed sends, in send order, none twice (a record corrupted after delivery stays delivered)
InOrderOnce == \A r \in Readers : NoRepeat(got[r]) /\ \A i, j \in 1..Len(got[r]) : i < j => got[r][i] < got[r][j]
NothingPartial == \A r \in Readers : \A i \in 1..Len(got[r]) : got[r][i] \in 1..NComplete
ToldSafe == \A r \in Readers : told[r] % RL = 0 /\ told[r] <= Len(file)
ToldMonotone == [][\A r \in Readers : told'[r] >= told[r]]_vars
\* nothing is skipped silently: every intact completed record before the offset has been delivered
NothingLost == \A r \in Readers : \A j \in 1..(told[r] \div RL) : Intact(j) => \E i \in 1..Len(got[r]) : got[r][i] = file[(j - 1) * RL + 1][1]
\* liveness: a reader that keeps receiving eventually gets every send that completed and stays intact
EventuallyAll == \A r \in Readers : \A p \in 1..NP : <>[](\/ \E i \in 1..Len(got[r]) : got[r][i] = p
                                                         \/ ~(p \in 1..NComplete /\ Intact(p)))
=============================================================================
