CONSTANTS Positions = {0, 1, 2}
Rules = {"m", "n"}
Caps = {1, 2, 3}
RefreshOnRead = FALSE
EvictYoung = TRUE
SPECIFICATION Spec
INVARIANT TypeOK
INVARIANT Bounded
INVARIANT NoDupKeys
INVARIANT Sound
INVARIANT YoungestKept
INVARIANT NothingBeforeCut
INVARIANT UpdateIsStores
PROPERTY OnlyStoreAdds
PROPERTY LookupPure
CHECK_DEADLOCK FALSE
