------------------------------ MODULE OptPublish ------------------------------
(* C16 / C10: when is the optimized, ANALYSED copy of a grammar visible to other threads?  (tatsu/peg/base.py: Grammar.optimized)
   The first parse with a freshly compiled model builds the optimized copy and runs the left-recursion analysis on it
   (initialize(): leaders marked, cycle members taken out of memoization).  A parser that runs on a copy whose analysis has not
   finished sees no leader (or only some flags): a left-recursive rule then calls itself at the same position without a guard -
   unbounded recursion - and Rule.ruleinfo caches the half-set flags for the life of the model.

   One action per step of optimized() in a thread:
       Read      `if isinstance(self._optimized, Grammar): return it`            before the lock
       Lock      `with _OPTIMIZED_LOCK:` + the second check
       Copy      optimize the rules, copy the grammar
       Publish   self._optimized = new
       Analyse   new.initialize()
       Release   leave the `with` block
   Order = "analyse-publish-release" is the code (Copy, Analyse, Publish, Release: everything under the lock);
   Order = "publish-release-analyse" publishes and releases before the analysis ("hold the lock only while copying").
   AnalysedBeforeUse: no thread ever leaves optimized() with a copy whose analysis is not complete.  TLC proves it for the code's order
   and refutes it for the other; the refuting behaviour (thread 1 between Publish and the end of Analyse, thread 2 at Read) is forced
   onto the real code by harness/drivers/c16.py: the real thread 2 must not get a grammar before thread 1's analysis has finished.     *)
EXTENDS Naturals, FiniteSets

CONSTANTS Threads, Order

VARIABLES published,   \* "none" | "raw" (copy stored, analysis not finished) | "ready"
          analysed,    \* the analysis of the copy has finished
          lock,        \* 0 or the holder
          pc,          \* thread -> "read" | "lock" | "copy" | "publish" | "analyse" | "release" | "parse"
          got          \* thread -> what it left optimized() with: "none" | "raw" | "ready"
vars == <<published, analysed, lock, pc, got>>

Init == published = "none" /\ analysed = FALSE /\ lock = 0 /\ pc = [t \in Threads |-> "read"] /\ got = [t \in Threads |-> "none"]

Leave(t) == /\ got' = [got EXCEPT ![t] = IF analysed THEN "ready" ELSE "raw"]
            /\ pc' = [pc EXCEPT ![t] = "parse"]

Read(t) == /\ pc[t] = "read"
           /\ IF published # "none" THEN Leave(t) ELSE pc' = [pc EXCEPT ![t] = "lock"] /\ got' = got
           /\ UNCHANGED <<published, analysed, lock>>

Lock(t) == /\ pc[t] = "lock" /\ lock = 0
           /\ IF published # "none"
              THEN Leave(t) /\ lock' = lock
              ELSE lock' = t /\ pc' = [pc EXCEPT ![t] = "copy"] /\ got' = got
           /\ UNCHANGED <<published, analysed>>

Copy(t) == /\ pc[t] = "copy"
           /\ pc' = [pc EXCEPT ![t] = IF Order = "analyse-publish-release" THEN "analyse" ELSE "publish"]
           /\ UNCHANGED <<published, analysed, lock, got>>

Publish(t) == /\ pc[t] = "publish"
              /\ published' = IF analysed THEN "ready" ELSE "raw"
              /\ pc' = [pc EXCEPT ![t] = "release"]
              /\ UNCHANGED <<analysed, lock, got>>

Analyse(t) == /\ pc[t] = "analyse"
              /\ analysed' = TRUE
              /\ published' = IF published = "raw" THEN "ready" ELSE published
              /\ IF Order = "analyse-publish-release"
                 THEN pc' = [pc EXCEPT ![t] = "publish"] /\ got' = got
                 ELSE /\ got' = [got EXCEPT ![t] = "ready"] /\ pc' = [pc EXCEPT ![t] = "parse"]
              /\ UNCHANGED lock

Release(t) == /\ pc[t] = "release"
              /\ lock' = 0
              /\ IF Order = "analyse-publish-release"
                 THEN /\ got' = [got EXCEPT ![t] = "ready"] /\ pc' = [pc EXCEPT ![t] = "parse"]
                 ELSE pc' = [pc EXCEPT ![t] = "analyse"] /\ got' = got
              /\ UNCHANGED <<published, analysed>>

Step(t) == Read(t) \/ Lock(t) \/ Copy(t) \/ Publish(t) \/ Analyse(t) \/ Release(t)
Done == \A t \in Threads : pc[t] = "parse"
Next == (\E t \in Threads : Step(t)) \/ (Done /\ UNCHANGED vars)
Spec == Init /\ [][Next]_vars /\ \A t \in Threads : WF_vars(Step(t))

TypeOK == published \in {"none", "raw", "ready"} /\ lock \in Threads \cup {0}
AnalysedBeforeUse == \A t \in Threads : got[t] # "raw"
BuiltOnce == Cardinality({t \in Threads : pc[t] \in {"copy", "publish", "analyse", "release"}}) <= 1
Finishes == <>Done
=============================================================================
