CONSTANT Alphabet = {"x", "s", "n", "r"}
CONSTANT MaxLen = 5
INIT Init
NEXT Next
INVARIANT Laws
CHECK_DEADLOCK FALSE
