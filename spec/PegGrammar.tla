------------------------------ MODULE PegGrammar ------------------------------
(* The abstract grammar (exchange form produced by harness/absgrammar.py) and the static functions several
   properties use.  G = [rules |-> Seq([name, exp, tokn, isname, lrec, memo, nomemo, params]), keywords |-> Seq(Seq(Char))]
   exp is a nested record with field op:
     tok(s) pat(cls,min,many) dot seq(es) alt(es) group(e) skipgroup(e) opt(e) star(e) plus(e)
     join(e,sep,plus,keep) and(e) not(e) call(name) named(name,e) namedlist(name,e) ovr(e) ovrlist(e)
     const(v) void fail eof cut emptyclosure skipto(e)                                                   *)
EXTENDS PegValues

VARIABLE G

RuleIdx(name) == CHOOSE i \in 1..Len(G.rules) : G.rules[i].name = name
HasRule(name) == \E i \in 1..Len(G.rules) : G.rules[i].name = name
RuleRec(name) == G.rules[RuleIdx(name)]
RuleExp(name) == RuleRec(name).exp
RuleNames     == {G.rules[i].name : i \in 1..Len(G.rules)}

Unary  == {"group", "skipgroup", "opt", "star", "plus", "and", "not", "named", "namedlist", "ovr", "ovrlist", "skipto"}
Nary   == {"seq", "alt"}

\* ---- names defined by an expression (peg: defines_single / defines_list)
RECURSIVE Defs(_)
RECURSIVE DefsSeq(_, _)
Defs(e) == CASE e.op = "named" -> {e.name} \cup Defs(e.e)
             [] e.op \in Nary -> DefsSeq(e.es, 1)
             [] e.op = "join" -> Defs(e.e) \cup Defs(e.sep)
             [] e.op \in Unary -> Defs(e.e)
             [] OTHER -> {}
DefsSeq(es, i) == IF i > Len(es) THEN {} ELSE Defs(es[i]) \cup DefsSeq(es, i + 1)

RECURSIVE DefsL(_)
RECURSIVE DefsLSeq(_, _)
DefsL(e) == CASE e.op = "namedlist" -> {e.name} \cup DefsL(e.e)
              [] e.op \in Nary -> DefsLSeq(e.es, 1)
              [] e.op = "join" -> DefsL(e.e) \cup DefsL(e.sep)
              [] e.op \in Unary -> DefsL(e.e)
              [] OTHER -> {}
DefsLSeq(es, i) == IF i > Len(es) THEN {} ELSE DefsL(es[i]) \cup DefsLSeq(es, i + 1)

HasOvr(e) == LET RECURSIVE H(_)
                 H(x) == CASE x.op \in {"ovr", "ovrlist"} -> TRUE
                           [] x.op \in Nary -> \E i \in 1..Len(x.es) : H(x.es[i])
                           [] x.op = "join" -> H(x.e) \/ H(x.sep)
                           [] x.op \in Unary -> H(x.e)
                           [] OTHER -> FALSE
             IN H(e)
HasNames(e) == Defs(e) # {} \/ DefsL(e) # {} \/ HasOvr(e)

\* ---- can match without consuming (calls are never considered nullable: the proviso of C16)
RECURSIVE Nullable(_)
RECURSIVE NullSeq(_, _)
Nullable(e) == CASE e.op \in {"opt", "star", "void", "cut", "and", "not", "const", "oconst", "oalert", "constbad", "emptyclosure", "eof", "eol", "fail", "zwpat"} -> TRUE     \* zwpat: a zero-width pattern (\b, a lookahead)
                 [] e.op = "pat" -> e.min = 0 /\ (e.cls2 = <<>> \/ e.min2 = 0)
                 [] e.op = "opat" -> e.nul
                 [] e.op = "join" -> ~e.plus \/ Nullable(e.e)      \* s%{e}+ == e {s ~ e}: one empty element is enough, the separator never matters
                 [] e.op = "seq" -> NullSeq(e.es, 1)
                 [] e.op = "alt" -> \E i \in 1..Len(e.es) : Nullable(e.es[i])
                 [] e.op \in {"group", "skipgroup", "named", "namedlist", "ovr", "ovrlist", "plus", "skipto"} -> Nullable(e.e)
                 [] OTHER -> FALSE        \* tok, dot, call
NullSeq(es, i) == IF i > Len(es) THEN TRUE ELSE Nullable(es[i]) /\ NullSeq(es, i + 1)

\* ---- left-call graph: the rules an expression can call at its own start position
RECURSIVE LC(_)
RECURSIVE LCSeq(_, _)
LC(e) == CASE e.op = "call" -> {e.name}
           [] e.op = "seq" -> LCSeq(e.es, 1)
           [] e.op = "alt" -> UNION {LC(e.es[i]) : i \in 1..Len(e.es)}
           [] e.op = "join" -> LC(e.e) \cup (IF Nullable(e.e) THEN LC(e.sep) ELSE {})
           [] e.op \in Unary -> LC(e.e)
           [] OTHER -> {}
LCSeq(es, i) == IF i > Len(es) THEN {} ELSE LC(es[i]) \cup (IF Nullable(es[i]) THEN LCSeq(es, i + 1) ELSE {})
LeftCalls(r) == IF HasRule(r) THEN LC(RuleExp(r)) \cap RuleNames ELSE {}
RECURSIVE Reach(_, _)
Reach(front, seen) == LET nxt == UNION {LeftCalls(r) : r \in front} \ seen IN
                      IF nxt = {} THEN seen ELSE Reach(nxt, seen \cup nxt)
OnLeftCycle(r) == r \in Reach(LeftCalls(r), LeftCalls(r))
LeftRecursive == {r \in RuleNames : OnLeftCycle(r)}

\* ---- left recursion HIDDEN behind a call to a rule that can match empty (excluded by C03 and C16's proviso: the documented
\* semantics does not define it; the runtime bounds it with a memo guard).  NullableC follows calls.
RECURSIVE NullableC(_, _)
RECURSIVE NullSeqC(_, _, _)
NullableC(e, seen) == CASE e.op = "call" -> IF e.name \in seen \/ ~HasRule(e.name) THEN FALSE ELSE NullableC(RuleExp(e.name), seen \cup {e.name})
                        [] e.op = "seq" -> NullSeqC(e.es, 1, seen)
                        [] e.op = "alt" -> \E i \in 1..Len(e.es) : NullableC(e.es[i], seen)
                        [] e.op \in {"group", "skipgroup", "named", "namedlist", "ovr", "ovrlist", "plus", "skipto"} -> NullableC(e.e, seen)
                        [] e.op = "join" -> ~e.plus \/ NullableC(e.e, seen)
                        [] OTHER -> Nullable(e)
NullSeqC(es, i, seen) == IF i > Len(es) THEN TRUE ELSE NullableC(es[i], seen) /\ NullSeqC(es, i + 1, seen)
RECURSIVE LCh(_)
RECURSIVE LChSeq(_, _)
LCh(e) == CASE e.op = "call" -> {e.name}
            [] e.op = "seq" -> LChSeq(e.es, 1)
            [] e.op = "alt" -> UNION {LCh(e.es[i]) : i \in 1..Len(e.es)}
            [] e.op = "join" -> LCh(e.e) \cup (IF NullableC(e.e, {}) THEN LCh(e.sep) ELSE {})
            [] e.op \in Unary -> LCh(e.e)
            [] OTHER -> {}
LChSeq(es, i) == IF i > Len(es) THEN {} ELSE LCh(es[i]) \cup (IF NullableC(es[i], {}) THEN LChSeq(es, i + 1) ELSE {})
LeftCallsH(r) == IF HasRule(r) THEN LCh(RuleExp(r)) \cap RuleNames ELSE {}
RECURSIVE ReachH(_, _)
ReachH(front, seen) == LET nxt == UNION {LeftCallsH(r) : r \in front} \ seen IN
                       IF nxt = {} THEN seen ELSE ReachH(nxt, seen \cup nxt)
HiddenLeftRecursion == \E r \in RuleNames : r \in ReachH(LeftCallsH(r), LeftCallsH(r)) /\ ~OnLeftCycle(r)

\* ---- Dev_StaticLeader (KF-C03-1): the implementation grows seeds only at the rules marked `lrec` by its static analysis (one
\* leader per cycle).  When an unmarked rule of a left cycle can be entered before the marked leader of that cycle, the documented
\* semantics (grow at the rule through which the cycle is entered) and the implementation may part ways.
RECURSIVE AllCalls(_)
AllCalls(e) == CASE e.op = "call" -> {e.name}
                 [] e.op \in Nary -> UNION {AllCalls(e.es[i]) : i \in 1..Len(e.es)}
                 [] e.op = "join" -> AllCalls(e.e) \cup AllCalls(e.sep)
                 [] e.op \in Unary -> AllCalls(e.e)
                 [] OTHER -> {}
CallsOf(r) == IF HasRule(r) THEN AllCalls(RuleExp(r)) \cap RuleNames ELSE {}
ReachL(r) == Reach(LeftCalls(r), LeftCalls(r))
SameLeftCycle(r) == {q \in RuleNames : q \in ReachL(r) /\ r \in ReachL(q)}
RECURSIVE ReachAvoid(_, _, _)
ReachAvoid(front, seen, avoid) == LET nxt == (UNION {CallsOf(x) : x \in front} \ seen) \ avoid IN
                                  IF nxt = {} THEN seen ELSE ReachAvoid(nxt, seen \cup nxt, avoid)
\* calls that can happen at a position other than the one at which the enclosing rule was entered (over-approximation: everything
\* after the first element of a sequence that is not a pure zero-width element, and every iteration of a repetition)
ZeroWidth(e) == e.op \in {"void", "cut", "and", "not", "eof", "fail", "const", "oconst", "constbad", "emptyclosure"}
RECURSIVE NLC(_, _)
RECURSIVE NLCSeq(_, _, _)
NLC(e, left) == CASE e.op = "call" -> IF left THEN {} ELSE {e.name}
                  [] e.op = "seq" -> NLCSeq(e.es, 1, left)
                  [] e.op = "alt" -> UNION {NLC(e.es[i], left) : i \in 1..Len(e.es)}
                  [] e.op \in {"star", "plus"} -> NLC(e.e, left) \cup NLC(e.e, FALSE)
                  [] e.op = "join" -> NLC(e.e, left) \cup NLC(e.e, FALSE) \cup NLC(e.sep, FALSE)
                  [] e.op = "skipto" -> NLC(e.e, FALSE)
                  [] e.op \in Unary -> NLC(e.e, left)
                  [] OTHER -> {}
NLCSeq(es, i, left) == IF i > Len(es) THEN {} ELSE NLC(es[i], left) \cup NLCSeq(es, i + 1, left /\ ZeroWidth(es[i]))
NonLeftCalled == UNION {NLC(G.rules[i].exp, TRUE) : i \in 1..Len(G.rules)}
StaticLeaderDeviates(start) ==
    \E r \in LeftRecursive : /\ ~RuleRec(r).lrec
                             /\ \/ r \in NonLeftCalled             \* the cycle can be entered through r at a fresh position
                                \/ LET av == {q \in SameLeftCycle(r) : RuleRec(q).lrec} IN
                                   start \notin av /\ r \in ReachAvoid({start}, {start}, av)

\* ---- can an expression succeed while contributing no item (its packed value is None)?
\* (an option/path that binds a name yields a dict, never None; an optional can always be skipped)
RECURSIVE NoItems(_, _)
NoItems(e, seen) ==
  CASE e.op \in {"void", "cut", "and", "not", "eof", "eol", "oalert", "fail", "skipgroup"} -> TRUE
    [] e.op = "opt" -> TRUE
    [] e.op = "seq" -> \A i \in 1..Len(e.es) : NoItems(e.es[i], seen)
    [] e.op = "alt" -> \E i \in 1..Len(e.es) : NoItems(e.es[i], seen)
    [] e.op \in {"group", "skipto"} -> NoItems(e.e, seen)
    [] e.op = "call" -> IF e.name \in seen \/ ~HasRule(e.name) THEN FALSE
                        ELSE NoItems(RuleExp(e.name), seen \cup {e.name})
    [] OTHER -> FALSE
RuleMayReturnNone(r) == NoItems(RuleExp(r), {r})

\* ---- shapes whose AST the documents and the property texts leave open (spec/UNSPECIFIED.md).
\*      The value verdict of C01 is not claimed for them; agreement properties still cover them.
Strip(e) == LET RECURSIVE S(_)
                S(x) == IF x.op = "group" THEN S(x.e)
                        ELSE IF x.op = "seq" /\ Len(x.es) = 1 THEN S(x.es[1]) ELSE x
            IN S(e)
ValueLess(e) == Strip(e).op \in {"void", "cut", "and", "not", "eof", "fail", "skipgroup"}
Encloser(e) == Strip(e).op \in {"opt", "star", "plus", "join", "and", "not", "skipgroup", "skipto"}
\* ---- KF-C01-1: a called rule whose value is a list built by an override (@+:e, or @:e with e of several items) - the engine keeps that
\* list open and splices it into the caller's sequence; the documented value (one element of its caller) is not what the machine gives
RECURSIVE SimpleOperand(_)
SimpleOperand(e) == LET x == Strip(e) IN
                    \/ x.op \in {"tok", "pat", "opat", "dot", "meta", "const", "oconst", "call", "star", "plus", "join", "emptyclosure"}
                    \/ (x.op = "alt" /\ \A i \in 1..Len(x.es) : SimpleOperand(x.es[i]))
RECURSIVE BuildsList(_)
BuildsList(e) == CASE e.op = "ovrlist" -> TRUE
                   [] e.op = "ovr" -> ~SimpleOperand(e.e) \/ BuildsList(e.e)
                   [] e.op \in Nary -> \E i \in 1..Len(e.es) : BuildsList(e.es[i])
                   [] e.op = "join" -> BuildsList(e.e) \/ BuildsList(e.sep)
                   [] e.op \in Unary -> BuildsList(e.e)
                   [] OTHER -> FALSE
CalledRules == UNION {AllCalls(G.rules[i].exp) : i \in 1..Len(G.rules)}
OverrideListSpliced == \E r \in CalledRules : HasRule(r) /\ BuildsList(RuleExp(r))

RECURSIVE OddReturn(_)
OddReturn(e) == CASE e.op \in {"void", "and"} -> TRUE               \* the interpreter returns () / the inner value, the AST gets nothing
                  [] e.op \in Nary -> \E i \in 1..Len(e.es) : OddReturn(e.es[i])
                  [] e.op \in {"group", "opt", "named", "namedlist", "ovr", "ovrlist", "skipto"} -> OddReturn(e.e)
                  [] OTHER -> FALSE
RECURSIVE Unspec(_)
Unspec(e) ==
  CASE e.op \in {"named", "namedlist", "ovr", "ovrlist"} ->
          \/ ValueLess(e.e) \/ OddReturn(e.e)                         \* U1: x:()  x:&e  x:$  x:~  x:('a' ())
          \/ (e.op \in {"ovr", "ovrlist"} /\ HasOvr(e.e))              \* U4: nested override
          \/ (e.op \in {"named", "namedlist"} /\ HasNames(e.e))        \* U7: names under a name
          \/ Unspec(e.e)
    [] e.op \in {"star", "plus"} -> Nullable(e.e) \/ NoItems(e.e, {}) \/ Unspec(e.e)   \* U3: iteration that consumes / yields nothing
    [] e.op = "join" -> Nullable(e.e) \/ NoItems(e.e, {}) \/ NoItems(e.sep, {}) \/ Unspec(e.e) \/ Unspec(e.sep) \/ HasNames(e.sep)
    [] e.op = "opt" -> (Encloser(e.e) /\ HasNames(e.e)) \/ Unspec(e.e) \* U5: [[x:e]] [{x:e}]
    [] e.op \in {"and", "not", "skipgroup"} -> HasNames(e.e) \/ Unspec(e.e)   \* U2b: names under a lookahead / (?: )
    [] e.op = "alt" -> \E i \in 1..Len(e.es) : Unspec(e.es[i]) \/ (Encloser(e.es[i]) /\ HasNames(e.es[i]))
    [] e.op = "seq" -> \E i \in 1..Len(e.es) : Unspec(e.es[i])
    [] e.op = "call" -> HasRule(e.name) /\ RuleMayReturnNone(e.name)   \* U6: a None rule value as element
    [] e.op \in {"group", "skipto"} -> Unspec(e.e)
    [] OTHER -> FALSE
UnspecRule(r) == \/ Unspec(r.exp)
                 \/ (Encloser(r.exp) /\ HasNames(r.exp))               \* U2: rule body is one enclosure with names
                 \/ (Defs(r.exp) \cap DefsL(r.exp) # {})               \* U8: x: and x+: of the same name
Unspecified == \E i \in 1..Len(G.rules) : UnspecRule(G.rules[i])

\* shapes whose ACCEPTANCE the documents leave open: a cut inside a repetition body that can succeed without consuming input
\* (the equivalence {x} == B -> x B | e does not terminate for such x; the runtime's "matched on no input" rule decides)
HasCut(e) == LET RECURSIVE H(_)
                 H(x) == CASE x.op = "cut" -> TRUE
                           [] x.op \in Nary -> \E i \in 1..Len(x.es) : H(x.es[i])
                           [] x.op = "join" -> H(x.e) \/ H(x.sep)
                           [] x.op \in Unary -> H(x.e)
                           [] OTHER -> FALSE
             IN H(e)
RECURSIVE UAcc(_)
UAcc(e) == CASE e.op \in {"star", "plus"} -> (Nullable(e.e) /\ HasCut(e.e)) \/ UAcc(e.e)
             [] e.op = "join" -> (Nullable(e.e) /\ HasCut(e.e)) \/ UAcc(e.e) \/ UAcc(e.sep)
             [] e.op \in Nary -> \E i \in 1..Len(e.es) : UAcc(e.es[i])
             [] e.op \in Unary -> UAcc(e.e)
             [] OTHER -> FALSE
UnspecifiedAcceptance == \E i \in 1..Len(G.rules) : UAcc(G.rules[i].exp)
=============================================================================
