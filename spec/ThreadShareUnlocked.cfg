CONSTANT Threads = {1, 2}
CONSTANT Work <- W4
CONSTANT AtomicSynth = TRUE
CONSTANT Locked = FALSE
SPECIFICATION Spec
INVARIANT TypeOK
INVARIANT NoError
INVARIANT OneClassPerName
INVARIANT BuiltOnce
INVARIANT ThreadIndependent
PROPERTY Finishes
CHECK_DEADLOCK FALSE
