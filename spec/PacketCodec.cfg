CONSTANT Alphabet = {"~", "a", "1", "B", "e", "E", "q", "@"}
CONSTANT MaxLen = 4
INIT Init
NEXT Next
INVARIANT RleLaw
CHECK_DEADLOCK FALSE
