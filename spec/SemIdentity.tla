------------------------------ MODULE SemIdentity ------------------------------
(* C10, the process-wide cache of semantic actions (tatsu/contexts/core.py: find_cached_semantic_action): "the result of a parse is
   determined by the arguments of that call alone ... after any sequence of earlier calls with other ... semantics".
   A semantics OBJECT has a behaviour (which actions it defines) and, while it exists, an ADDRESS (its id()).  Addresses are
   reused: once an object is unreachable, a new object may get its address.  The cache remembers, per semantics object and rule,
   which action to call.  Three designs of the key (constant KeyBy) and two of the "is there a semantics object" test (TruthTest):
       KeyBy = "object"    keyed by the identity of the object, which the cache keeps alive: its address cannot be reused while the
                           entry exists                                                                       (the required design)
       KeyBy = "address"   keyed by address: an entry outlives its object and is found again by the next object at that address
       KeyBy = "equality"  keyed by the object's own __hash__/__eq__ (what functools.cache does with the object as argument): two
                           distinct objects that compare equal share one entry, and an object that is not hashable cannot be looked
                           up at all (the parse raises TypeError)
       TruthTest = TRUE    `if not semantics` : an object that is falsy (defines __len__ or __bool__) counts as no semantics at all
       TruthTest = FALSE   `if semantics is None`
   Objects: p* define no action, t* a tagging action, e1/e2 compare EQUAL but tag differently (tagA / tagB), u1 is unhashable (a
   dataclass with eq and without frozen), f1 is falsy; u1 and f1 define the tagging action.
   ActionsOfGivenObject: the actions that run are those of the object given to THIS call.  TLC proves it for KeyBy = "object" with
   TruthTest = FALSE and refutes it for the other designs; the behaviours of the refuted designs (New / Drop / Parse, with address
   reuse, equal objects, unhashable and falsy objects) are replayed into the real code, which must answer like the ideal at every
   step (harness/apireplay.py: run_identity).                                                                                      *)
EXTENDS Naturals, FiniteSets, TLC

CONSTANTS Objects, Addrs, KeyBy, TruthTest, MaxSteps
Beh(o) == CASE o \in {"p1", "p2"} -> "plain"       \* p*: defines no action for the rule; t*, u1, f1: a tagging action
            [] o = "e1" -> "tagA" [] o = "e2" -> "tagB"
            [] OTHER -> "tag"
EqClass(o) == IF o \in {"e1", "e2"} THEN "E" ELSE o      \* e1 == e2 (and hash(e1) == hash(e2)); every other object equals only itself
Hashable(o) == o # "u1"
Falsy(o) == o = "f1"

VARIABLES alive,    \* objects the caller still references
          addr,     \* object -> address, for every object that still exists (alive, or kept alive by the cache)
          cache,    \* key (object or address) -> behaviour remembered
          resp, last, steps
vars == <<alive, addr, cache, resp, last, steps>>

Exists == DOMAIN addr
Free == Addrs \ {addr[o] : o \in Exists}
Key(o) == CASE KeyBy = "address" -> addr[o] [] KeyBy = "equality" -> EqClass(o) [] OTHER -> o
\* the objects a cache entry keeps alive: the key itself is an object (or holds one) unless the cache is keyed by address
Held == IF KeyBy = "address" THEN {} ELSE {o \in Objects : \E k \in DOMAIN cache : cache[k].holder = o}

Init == alive = {} /\ addr = <<>> /\ cache = <<>> /\ resp = "none" /\ last = "none" /\ steps = 0

Tick == steps < MaxSteps /\ steps' = steps + 1
New(o) == /\ Tick /\ o \notin Exists /\ Free # {}
          /\ \E a \in Free : addr' = (o :> a) @@ addr
          /\ alive' = alive \cup {o} /\ UNCHANGED <<cache, resp, last>>

\* the caller drops its reference; the object disappears (and its address becomes free) unless the cache still refers to it
Drop(o) == /\ Tick /\ o \in alive /\ alive' = alive \ {o}
           /\ addr' = IF o \in Held THEN addr ELSE [x \in Exists \ {o} |-> addr[x]]
           /\ UNCHANGED <<cache, resp, last>>

Parse(o) == /\ Tick /\ o \in alive
            /\ IF TruthTest /\ Falsy(o) THEN resp' = "plain" /\ cache' = cache                 \* `if not semantics: return None`
               ELSE IF KeyBy = "equality" /\ ~Hashable(o) THEN resp' = "error" /\ cache' = cache    \* TypeError: unhashable type
               ELSE LET k == Key(o) IN
                    IF k \in DOMAIN cache THEN resp' = cache[k].beh /\ cache' = cache
                    ELSE resp' = Beh(o) /\ cache' = (k :> [beh |-> Beh(o), holder |-> o]) @@ cache
            /\ last' = o /\ UNCHANGED <<alive, addr>>

Next == \E o \in Objects : New(o) \/ Drop(o) \/ Parse(o)
Spec == Init /\ [][Next]_vars

ActionsOfGivenObject == last # "none" => resp = Beh(last)
TypeOK == alive \subseteq Exists /\ Cardinality({addr[o] : o \in Exists}) = Cardinality(Exists)
=============================================================================
