------------------------------ MODULE SemIdentity ------------------------------
(* C10, the process-wide cache of semantic actions (tatsu/contexts/core.py: find_cached_semantic_action): "the result of a parse is
   determined by the arguments of that call alone ... after any sequence of earlier calls with other ... semantics".
   A semantics OBJECT has a behaviour (which actions it defines) and, while it exists, an ADDRESS (its id()).  Addresses are
   reused: once an object is unreachable, a new object may get its address.  The cache remembers, per semantics object and rule,
   which action to call.  Two designs:
       ById = FALSE  (as coded) the cache is keyed by the object itself and therefore keeps it alive: its address cannot be
                     reused while the entry exists
       ById = TRUE   keyed by address: an entry outlives its object and is found again by the next object at that address
   ActionsOfGivenObject: the actions that run are those of the object given to THIS call.  TLC proves it for ById = FALSE and refutes
   it for ById = TRUE; the behaviours of the refuted design (New / Drop / Parse with address reuse) are replayed into the real code,
   which must answer like the ideal at every step (harness/apireplay.py: run_identity).                                            *)
EXTENDS Naturals, FiniteSets, TLC

CONSTANTS Objects, Addrs, ById, MaxSteps
Beh(o) == IF o \in {"p1", "p2"} THEN "plain" ELSE "tag"          \* p*: defines no action for the rule; t*: defines a tagging action

VARIABLES alive,    \* objects the caller still references
          addr,     \* object -> address, for every object that still exists (alive, or kept alive by the cache)
          cache,    \* key (object or address) -> behaviour remembered
          resp, last, steps
vars == <<alive, addr, cache, resp, last, steps>>

Exists == DOMAIN addr
Free == Addrs \ {addr[o] : o \in Exists}
Key(o) == IF ById THEN addr[o] ELSE o

Init == alive = {} /\ addr = <<>> /\ cache = <<>> /\ resp = "none" /\ last = "none" /\ steps = 0

Tick == steps < MaxSteps /\ steps' = steps + 1
New(o) == /\ Tick /\ o \notin Exists /\ Free # {}
          /\ \E a \in Free : addr' = (o :> a) @@ addr
          /\ alive' = alive \cup {o} /\ UNCHANGED <<cache, resp, last>>

\* the caller drops its reference; the object disappears (and its address becomes free) unless the cache still refers to it
Drop(o) == /\ Tick /\ o \in alive /\ alive' = alive \ {o}
           /\ addr' = IF ~ById /\ o \in DOMAIN cache THEN addr ELSE [x \in Exists \ {o} |-> addr[x]]
           /\ UNCHANGED <<cache, resp, last>>

Parse(o) == /\ Tick /\ o \in alive
            /\ LET k == Key(o) IN
               IF k \in DOMAIN cache THEN resp' = cache[k] /\ cache' = cache
               ELSE resp' = Beh(o) /\ cache' = (k :> Beh(o)) @@ cache
            /\ last' = o /\ UNCHANGED <<alive, addr>>

Next == \E o \in Objects : New(o) \/ Drop(o) \/ Parse(o)
Spec == Init /\ [][Next]_vars

ActionsOfGivenObject == last # "none" => resp = Beh(last)
TypeOK == alive \subseteq Exists /\ Cardinality({addr[o] : o \in Exists}) = Cardinality(Exists)
=============================================================================
