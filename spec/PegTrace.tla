------------------------------ MODULE PegTrace ------------------------------
(* Code -> spec: validating executions recorded from the real engine (through its public Tracer protocol) against PegMachine.
   A trace file (JSON, path in env VERIF_TRACES) is a sequence of records
       [g |-> grammar, cfg |-> configuration, inp |-> text, start |-> rule, ok |-> BOOLEAN, ev |-> Seq(event)]
   with events   [ev |-> "enter", rule, pos]                       trace_entry   (after next_token, before the memo lookup)
                 [ev |-> "ok", rule, pos, v]                       trace_success (after goto/append; v = the node)
                 [ev |-> "fail", rule, pos]                        trace_failure
                 [ev |-> "cut", pos]                               trace_cut
                 [ev |-> "match", ok, pos, kind]                   trace_match   (token / pattern / any / constant / meta)
   Every machine action either consumes the next event(s) - and must agree with every logged field - or is silent.  A rule call
   that hits the memo (or a left-recursion seed) consumes "enter" and the immediate "ok"/"fail"; whether a call hit or missed is
   not logged: TLC infers it.  A trace is accepted when the machine reaches Finish having consumed every event, with the
   logged outcome.  Acceptance is collected in a TLCSet register and checked by POSTCONDITION (run with -workers 1).          *)
EXTENDS PegMachine, Json, IOUtils

Traces == JsonDeserialize(IOEnv.VERIF_TRACES)
VARIABLES id, l
tvars == <<id, l>>

Tr == Traces[id].ev
EvAt(k) == IF k <= Len(Tr) THEN Tr[k] ELSE [ev |-> "none", rule |-> "", pos |-> 0, ok |-> TRUE, kind |-> "", v |-> None, arg |-> None]

\* Oracle actions (Cfg.act = "oracle": the parse ran with an arbitrary semantics object).  Every call of the semantic action is logged
\* as [ev |-> "act", rule, arg (the node handed to the action), ok, v (its result)] between the body's events and the rule's
\* outcome event.  The machine must hand the action exactly `arg`; the action's result is taken from the event.
Oracle == Cfg.act = "oracle"
HasAct(name) == Oracle /\ ret.k = "ok" /\ ~(RuleRec(name).isname /\ IsKeyword(FoldFr(Top(fr))))
Ov(name) == IF HasAct(name) THEN [use |-> TRUE, ok |-> EvAt(l).ok, v |-> EvAt(l).v] ELSE NoOv
ActOK(name) == HasAct(name) => (EvAt(l).ev = "act" /\ EvAt(l).rule = name /\ VEq(EvAt(l).arg, CstFinal(FoldFr(Top(fr)))))
OutAt(name) == IF HasAct(name) THEN l + 1 ELSE l

TraceInit == /\ \E i \in 1..Len(Traces) :
                  /\ id = i /\ G = Traces[i].g /\ Cfg = Traces[i].cfg /\ Inp = Traces[i].inp
                  /\ MInit(Traces[i].start)
             /\ l = 1
             /\ TLCSet(1, {})
             /\ TLCSet(2, [i \in 1..Len(Traces) |-> 0])

Silent(A) == A /\ l' = l
MatchOps == {"tok", "pat", "opat", "dot", "const", "meta"}

TLeaf == LET isoc == TopK.e.op \in {"oconst", "oalert"}
             c == IF TopK.e.op = "oalert" THEN l + 2 ELSE l + 1 IN     \* alert(): its own trace_match, then constant()'s, then the evaluation
         /\ LeafW(IF isoc THEN [ok |-> EvAt(c).ok, v |-> EvAt(c).v] ELSE NoCv)
         /\ IF isoc
            THEN /\ EvAt(l).ev = "match" /\ (TopK.e.op = "oalert" => EvAt(l + 1).ev = "match") /\ EvAt(c).ev = "const" /\ l' = c + 1
            ELSE IF TopK.e.op = "constbad"
            THEN EvAt(l).ev = "match" /\ l' = l + 1         \* constant() logs the literal before evaluating it (the evaluation then fails)
            ELSE IF TopK.e.op \in MatchOps
            THEN /\ EvAt(l).ev = "match"
                 /\ EvAt(l).ok = (ret'.k = "ok")
                 /\ (TopK.e.op # "const" => EvAt(l).pos = Top(fr').pos)
                 /\ l' = l + 1
            ELSE IF TopK.e.op = "cut" THEN EvAt(l).ev = "cut" /\ EvAt(l).pos = Top(fr').pos /\ l' = l + 1
            ELSE l' = l

\* a miss consumes "enter"; a memo hit / seed hit / unknown rule consumes "enter" and the immediate outcome event
TCallEnter == /\ CallEnter
              /\ LET name == TopK.e.name IN
                 /\ EvAt(l).ev = "enter" /\ EvAt(l).rule = name
                 /\ EvAt(l).pos = (IF HasRule(name) /\ RuleRec(name).tokn THEN Top(fr).pos ELSE Skip(Top(fr).pos))
                 /\ IF ret' = NoRet
                    THEN l' = l + 1
                    ELSE /\ l' = l + 2
                         /\ EvAt(l + 1).rule = name
                         /\ IF ret'.k = "ok"
                            THEN EvAt(l + 1).ev = "ok" /\ EvAt(l + 1).pos = Top(fr').pos /\ VEq(EvAt(l + 1).v, ret'.v)
                            ELSE EvAt(l + 1).ev = "fail"

TCallExit == LET name == TopK.e.name  o == OutAt(name) IN
             /\ CallExitW(Ov(name)) /\ ActOK(name)
             /\ EvAt(o).rule = name
             /\ IF ret'.k = "ok" THEN EvAt(o).ev = "ok" /\ EvAt(o).pos = Top(fr').pos /\ VEq(EvAt(o).v, ret'.v)
                ELSE EvAt(o).ev = "fail"
             /\ l' = o + 1

\* a growth round that continues is silent (but for its action call); the round that stops delivers the outer rule's outcome event
TGrowStep == LET name == TopK.e.name  o == OutAt(name) IN
             /\ GrowStepW(Ov(name)) /\ ActOK(name)
             /\ IF ret' = NoRet THEN l' = o
                ELSE /\ EvAt(o).rule = name
                     /\ IF ret'.k = "ok" THEN EvAt(o).ev = "ok" /\ EvAt(o).pos = Top(fr').pos /\ VEq(EvAt(o).v, ret'.v)
                        ELSE EvAt(o).ev = "fail"
                     /\ l' = o + 1

\* repeat() executes cut() after every separator: the only step of a repetition that leaves an event
TRepStep == /\ RepStep
            /\ IF TopK.e.op = "join" /\ TopK.i = 4 /\ ret.k = "ok"
               THEN EvAt(l).ev = "cut" /\ EvAt(l).pos = Top(fr).pos /\ l' = l + 1
               ELSE l' = l

TFinish == /\ Finish /\ l = Len(Tr) + 1 /\ l' = l
           /\ (ret.k = "ok") = Traces[id].ok
           /\ TLCSet(1, TLCGet(1) \cup {id})

TNext == /\ \/ TLeaf \/ Silent(SeqStep) \/ Silent(AltStep) \/ Silent(WrapStep) \/ Silent(LookStep) \/ Silent(SkipToStep) \/ TRepStep
            \/ TCallEnter \/ TCallExit \/ TGrowStep \/ TFinish
         /\ steps' = steps + 1 /\ UNCHANGED <<G, Inp, Cfg, id>>
         /\ TLCSet(2, [TLCGet(2) EXCEPT ![id] = IF l' > @ THEN l' ELSE @])        \* longest prefix matched, for the rejection report

AllAccepted == PrintT("RES accepted " \o ToJson([accepted |-> TLCGet(1), total |-> Len(Traces), reached |-> TLCGet(2)]))
=============================================================================
