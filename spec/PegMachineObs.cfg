INIT OInit
NEXT ONext
INVARIANT Refines
INVARIANT FramesBalanced
INVARIANT StepBound
INVARIANT ActionOncePerBody
INVARIANT NoMemoEvaluates
INVARIANT HitNeedsEvaluation
PROPERTY KeywordBeforeAction
CHECK_DEADLOCK FALSE
