CONSTANT NT = 5
CONSTANT Window = 3
CONSTANT Modes = {"window", "all", "seq"}
SPECIFICATION Spec
INVARIANT TypeOK
INVARIANT NoDup
INVARIANT NoLoss
INVARIANT WindowBound
INVARIANT ExactlyOnce
INVARIANT SameAsSequential
INVARIANT CapturedNeverBlocks
PROPERTY Finishes
CHECK_DEADLOCK FALSE
