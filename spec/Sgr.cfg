CONSTANT TextAlphabet = {"x", "5", ";", "m", "[", "{", ":", "B", "q", "W", "C"}
CONSTANT MaxLen = 2
CONSTANT ModSets <- DefModSets
CONSTANT Colors <- DefColors
INIT Init
NEXT Next
INVARIANT StripLaw
INVARIANT LenLaw
INVARIANT ParseLaw
INVARIANT OffLaw
CHECK_DEADLOCK FALSE
