INIT TraceInit
NEXT TNext
CHECK_DEADLOCK FALSE
POSTCONDITION AllAccepted
