INIT OInit
NEXT ONext
INVARIANT SelfTestNeverHits
CHECK_DEADLOCK FALSE
