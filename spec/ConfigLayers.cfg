SPECIFICATION Spec
INVARIANT Precedence
INVARIANT NoLeak
INVARIANT TypeOK
CHECK_DEADLOCK FALSE
