CONSTANTS Objects = {"p1", "t1", "e1", "e2", "u1", "f1"}
Addrs = {"A", "B"}
KeyBy = "object"
TruthTest = FALSE
MaxSteps = 6
SPECIFICATION Spec
INVARIANT ActionsOfGivenObject
INVARIANT TypeOK
CHECK_DEADLOCK FALSE
