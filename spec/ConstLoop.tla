------------------------------ MODULE ConstLoop ------------------------------
(* C17 / C08: the interpolation loop of ParserEngine.constant (tatsu/contexts/engine.py):
       while result != expression:  expression = result ; LiteralStep | (FStringStep ; EvalStep)
   over abstract texts.  The constant is `{x}` and x is bound to a piece of INPUT text of one of these classes:
     "inert"    plain text that is neither a literal nor an expression over known names      ('ab')
     "quoted"   a Python string literal whose value is inert text                              ("'ab'")
     "number"   a Python literal that is not a string                                          ('12')
     "safe"     an expression the sandbox accepts, evaluating to a non-string                  ("len('ab')", '1+1')
     "unsafe"   an expression the sandbox rejects                                              ("open('f')", "().__class__")
     "selfref"  text that itself contains the field {x}                                        ('{x}a')
   A text is [k |-> class, n |-> growth] ; the field text `{x}` itself is class "field".
   Properties: NeverEvaluatesRejected (safety), Terminates (liveness).  With AllowSelfRef = TRUE TLC refutes Terminates: the
   witness is KF-C17-3 (the loop grows '{x}a' -> '{x}aa' -> ... for ever).                                              *)
EXTENDS Naturals, TLC

CONSTANTS AllowSelfRef, MaxGrow
Classes == {"inert", "quoted", "number", "safe", "unsafe"} \cup (IF AllowSelfRef THEN {"selfref"} ELSE {})

VARIABLES x,          \* class of the input text bound to x
          result, expression, pc, evaluated
vars == <<x, result, expression, pc, evaluated>>

Field == [k |-> "field", n |-> 0]
Undefined == [k |-> "undefined", n |-> 0]
IsStr(t) == t.k \notin {"numbervalue", "undefined"}

Init == /\ x \in Classes /\ result = Field /\ expression = Undefined /\ pc = "test" /\ evaluated = {}

Test == /\ pc = "test"
        /\ IF result = expression THEN pc' = "done" /\ UNCHANGED expression
           ELSE /\ expression' = result
                /\ pc' = IF IsStr(result) THEN "literal" ELSE "done"
        /\ UNCHANGED <<x, result, evaluated>>

\* ast.literal_eval succeeds: the text is replaced by the literal's value and the loop continues
LiteralStep == /\ pc = "literal"
               /\ IF expression.k = "quoted" THEN result' = [k |-> "inert", n |-> 0] /\ pc' = "test"
                  ELSE IF expression.k = "number" THEN result' = [k |-> "numbervalue", n |-> 0] /\ pc' = "test"
                  ELSE pc' = "fstring" /\ UNCHANGED result
               /\ UNCHANGED <<x, expression, evaluated>>

\* f'...' evaluation: every field {x} is replaced by the text bound to x
FStringStep == /\ pc = "fstring"
               /\ result' = IF expression.k = "field" THEN [k |-> x, n |-> 0]
                            ELSE IF expression.k = "selfref" /\ expression.n < MaxGrow THEN [k |-> "selfref", n |-> expression.n + 1]
                            ELSE expression
               /\ pc' = "eval" /\ UNCHANGED <<x, expression, evaluated>>

\* only when interpolation changed nothing: evaluate the text as an expression if the sandbox accepts it
EvalStep == /\ pc = "eval"
            /\ IF result = expression /\ expression.k = "safe"
               THEN result' = [k |-> "numbervalue", n |-> 0] /\ evaluated' = evaluated \cup {expression.k}
               ELSE UNCHANGED <<result, evaluated>>
            /\ pc' = "test" /\ UNCHANGED <<x, expression>>

Next == Test \/ LiteralStep \/ FStringStep \/ EvalStep \/ (pc = "done" /\ UNCHANGED vars)
Spec == Init /\ [][Next]_vars /\ WF_vars(Test \/ LiteralStep \/ FStringStep \/ EvalStep)

NeverEvaluatesRejected == "unsafe" \notin evaluated
Bounded == result.n < MaxGrow            \* the text never grows (violated exactly by the self-referential input)
Terminates == <>(pc = "done")
\* the value the constant ends with, per class of input text (what the harness compares)
Final == pc = "done" => CASE x = "inert" -> result.k = "inert"
                          [] x = "quoted" -> result.k = "inert"
                          [] x = "number" -> result.k = "numbervalue"
                          [] x = "safe" -> result.k = "numbervalue"
                          [] x = "unsafe" -> result.k = "unsafe"
                          [] OTHER -> TRUE
=============================================================================
