INIT Init
NEXT Next
INVARIANT Refines
INVARIANT FramesBalanced
INVARIANT StepBound
PROPERTY CutContained
CHECK_DEADLOCK FALSE
