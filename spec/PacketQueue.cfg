CONSTANTS NP = 3
RL = 3
Readers = {r1, r2}
MaxCorrupt = 1
SPECIFICATION Spec
INVARIANT InOrderOnce
INVARIANT NothingPartial
INVARIANT ToldSafe
INVARIANT NothingLost
PROPERTY ToldMonotone
PROPERTY EventuallyAll
CHECK_DEADLOCK FALSE
