------------------------------ MODULE PegMachineObs ------------------------------
(* Observer over PegMachineMC: history counters of what happened at every (position, rule) - how often the rule was entered, how often
   its body was evaluated (growth rounds of a left-recursive rule included), how often its semantic action ran - and the properties
   of C06 / C11 / C04 that speak about those counts, checked by TLC under every memo schedule the machine explores:

     ActionOncePerBody     the action of (position, rule) never ran more often than its body was evaluated: a memo hit or a seed hit
                           replays a result without calling the action again
     NoMemoEvaluates       a rule that is not memoizable (@nomemo, or memoization switched off) and not left recursive evaluates its body
                           on EVERY entry
     HitNeedsEvaluation    a call answered without evaluating the body (memo hit) was preceded by an evaluation at that (position, rule)
     KeywordBeforeAction   (action property) when the value of an @name rule is a keyword, the step that rejects it calls no action and,
                           for a memoizable rule, leaves a failure in the memo table

   The counters are history variables: they never influence the machine.  The machine being an exact transcription that the real
   engine must equal on every case of the same universes (value included), the counts the drivers observe on the real engine
   (C06: calls per rule, @nomemo counts == invocations) are bound to these properties.                                            *)
EXTENDS PegMachineMC

VARIABLE obs          \* [enter, body, act : (position, rule) -> count]
ovars == <<allvars, obs>>

Get(f, k) == IF k \in DOMAIN f THEN f[k] ELSE 0
MemoKIn(m, key) == LET I == {j \in 1..Len(m) : m[j].key = key} IN IF I = {} THEN "none" ELSE m[CHOOSE j \in I : TRUE].k
Inc(f, k) == IF k \in DOMAIN f THEN [f EXCEPT ![k] = @ + 1] ELSE (k :> 1) @@ f

\* ---- which critical section the step about to be taken is (read off the unprimed state; CallEnter / CallExit / GrowStep are the only
\*      actions enabled in these configurations)
AtEnter == ret = NoRet /\ Running({"call"}) /\ TopK.i = 0 /\ HasRule(TopK.e.name) /\ ~(RuleRec(TopK.e.name).lrec /\ ~Cfg.lr)
EnterKey == LET name == TopK.e.name IN <<(IF RuleRec(name).tokn THEN Top(fr).pos ELSE Skip(Top(fr).pos)), name>>
AtExit == Running({"call"}) /\ TopK.i \in {1, 3} /\ ret # NoRet
ExitKey == <<TopK.p0, TopK.e.name>>
KeywordRejected == AtExit /\ ret.k = "ok" /\ RuleRec(TopK.e.name).isname /\ IsKeyword(FoldFr(Top(fr)))
ActionRuns == AtExit /\ ret.k = "ok" /\ ~KeywordRejected /\ Cfg.act # "none"

OInit == Init /\ obs = [enter |-> <<>>, body |-> <<>>, act |-> <<>>]
ONext == /\ Next
         /\ LET bodyStarts == AtEnter /\ Len(ctl') = Len(ctl) + 1              \* a miss / a growth start pushed the body
                growsOn == AtExit /\ TopK.i = 3 /\ ret' = NoRet                 \* a growth round that continues re-evaluates the body
            IN obs' = [enter |-> IF AtEnter THEN Inc(obs.enter, EnterKey) ELSE obs.enter,
                       body |-> IF bodyStarts THEN Inc(obs.body, EnterKey) ELSE IF growsOn THEN Inc(obs.body, ExitKey) ELSE obs.body,
                       act |-> IF ActionRuns THEN Inc(obs.act, ExitKey) ELSE obs.act]

ActionOncePerBody == \A k \in DOMAIN obs.act : obs.act[k] <= Get(obs.body, k)
NoMemoEvaluates == \A k \in DOMAIN obs.enter : (~Memoizable(k[2]) /\ ~RuleRec(k[2]).lrec /\ RuleRec(k[2]).memo) => Get(obs.body, k) = obs.enter[k]
HitNeedsEvaluation == \A k \in DOMAIN obs.enter : ~RuleRec(k[2]).lrec => (obs.enter[k] > Get(obs.body, k) => Get(obs.body, k) >= 1)
\* machinery self-test (PegMachineObsSelf.cfg): must be REFUTED - some memoizable rule is answered from the memo, and some action runs
SelfTestNeverHits == (\A k \in DOMAIN obs.enter : Get(obs.body, k) = obs.enter[k]) \/ DOMAIN obs.act = {}
KeywordBeforeAction == [][KeywordRejected => /\ obs'.act = obs.act
                                             /\ ret'.k = "ko"
                                             /\ (Memoizable(TopK.e.name) => MemoKIn(memo', ExitKey) = "ko")]_ovars
=============================================================================
