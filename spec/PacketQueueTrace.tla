------------------------------ MODULE PacketQueueTrace ------------------------------
(* Code -> spec for C19 (queue part): a writer thread that really calls PacketzQueue.send() and reader threads that really call
   receive() on their own PacketzQueue objects over the same file run concurrently (harness/pktrecord.py); the calls are NOT
   atomic, so each is logged by its start and its end, stamped under one lock (a per-run sequence number, no clock):

       [ev |-> "sendstart", p]                 before send() of packet p (packets are numbered in send order)
       [ev |-> "sendend",   p]                 after it returned: the whole record, newline included, is in the file
       [ev |-> "recvstart", r]                 before receive() of reader r
       [ev |-> "recvend",   r, got, told]      after it was exhausted: every packet delivered to r so far, r's offset as a count of
                                               whole records (-1 if the real offset is not a record boundary)

   What is not logged is when the bytes of a record reach the file and what a read saw: the appends are silent SendChunk steps
   between "sendstart" and "sendend" (RL = 2 abstract bytes: the body and the newline, so a reader may see the body without its
   newline), and the length vis a read saw is any length between the file's length at "recvstart" (remembered in lo[r]) and its
   length at "recvend".  Every "recvend" must be explainable by PacketQueue!Receive(r, vis) for such a vis - delivered ids and offset
   exactly as logged - and PacketQueue's invariants are evaluated in every state.  Acceptance by POSTCONDITION (-workers 1).       *)
EXTENDS PacketQueue, Json, IOUtils, TLCExt

Traces == JsonDeserialize(IOEnv.VERIF_TRACES)     \* Seq([ev : Seq(event)]) - all with the same NP and reader names
VARIABLES id, l, lo
tvars == <<id, l, lo>>

Tr == Traces[id].ev
EvAt(k) == IF k <= Len(Tr) THEN Tr[k] ELSE [ev |-> "none", p |-> 0, r |-> "", got |-> <<>>, told |-> 0]

TraceInit == /\ Init
             /\ \E i \in 1..Len(Traces) : id = i
             /\ l = 1 /\ lo = [r \in Readers |-> 0]
             /\ TLCSet(1, {})
             /\ TLCSet(2, [i \in 1..Len(Traces) |-> 0])

TSendStart == /\ EvAt(l).ev = "sendstart" /\ EvAt(l).p = nextSend /\ SendBegin /\ l' = l + 1 /\ UNCHANGED lo
\* the bytes of the record in flight reach the file at any moment before "sendend"
TChunk == /\ inflight[1] # 0 /\ \E k \in 1..RL : SendChunk(k)
          /\ UNCHANGED <<l, lo>>
TSendEnd == /\ EvAt(l).ev = "sendend" /\ inflight[1] = 0 /\ EvAt(l).p = nextSend - 1
            /\ l' = l + 1 /\ UNCHANGED <<vars, lo>>
TRecvStart == /\ EvAt(l).ev = "recvstart" /\ EvAt(l).r \in Readers
              /\ lo' = [lo EXCEPT ![EvAt(l).r] = Len(file)]
              /\ l' = l + 1 /\ UNCHANGED vars
TRecvEnd == /\ EvAt(l).ev = "recvend" /\ EvAt(l).r \in Readers
            /\ LET r == EvAt(l).r IN
               \E vis \in lo[r]..Len(file) :
                  /\ Receive(r, vis)
                  /\ got'[r] = EvAt(l).got
                  /\ EvAt(l).told >= 0 /\ told'[r] = EvAt(l).told * RL
            /\ l' = l + 1 /\ UNCHANGED lo
TFinish == /\ l = Len(Tr) /\ EvAt(l).ev = "end" /\ inflight[1] = 0 /\ l' = l + 1 /\ UNCHANGED <<vars, lo>>
           /\ TLCSet(1, TLCGet(1) \cup {id})

TNext == /\ \/ TSendStart \/ TChunk \/ TSendEnd \/ TRecvStart \/ TRecvEnd \/ TFinish
         /\ UNCHANGED id
         /\ TLCSet(2, [TLCGet(2) EXCEPT ![id] = IF l' > @ THEN l' ELSE @])

AllAccepted == PrintT("RES accepted " \o ToJson([accepted |-> TLCGet(1), total |-> Len(Traces), reached |-> TLCGet(2)]))
=============================================================================
